import Proofs.Diff
import Model.Diff.Text
import Model.Hash.Prep
/-!
# C02 — an empty diff means equal; a structural copy always gives an empty diff

Model: `Model/Diff/Ordered.lean` (ordered comparison) and `Model/Diff/Text.lean` (views).
`al` is the difflib oracle, `hashOf` the DeepHash oracle of `_diff_set`.
-/
namespace Diff
open Py

/-- **Copy ⇒ empty.** For every well-formed value of any size and nesting, every ordered
configuration (both alignment modes, every threshold in [0,1], private-key handling, any
exclude/include paths), every reflexive alignment oracle and every hasher: diffing the value with
(a structural copy of) itself yields an empty tree, hence an empty text view at every verbosity. -/
theorem C02_copy_empty (cfg : DCfg) (al : Align) (hashOf : PyVal → String) (hal : AlignRefl al)
    (hc : cfg.thrNum ≤ cfg.thrDen) (t : PyVal) (hw : wf t = true) (verbose : Nat) :
    (deepDiff cfg al hashOf t t).tree = [] ∧ (deepDiff cfg al hashOf t t).opcodes = [] ∧
      textView verbose (deepDiff cfg al hashOf t t).tree = [] := by
  have h := diffV_self cfg al hashOf hal hc t [] hw
  have hempty : (deepDiff cfg al hashOf t t) = {} := by
    unfold deepDiff
    simp only [h]
    split <;> split <;> simp [keepReported, mutualAddRemoves] <;> rfl
  rw [hempty]
  exact ⟨rfl, rfl, rfl⟩

/-- the driver's difflib port satisfies the reflexivity assumption on the empty list and the model
alignment that only ever emits `equal` blocks does in general -/
theorem C02_alignRefl_of_equal_only (al : Align) (h : ∀ xs, ∀ op ∈ al xs xs, op.tag = "equal") : AlignRefl al := by
  intro steps xs
  have : ∀ ops : List Opcode, (∀ op ∈ ops, op.tag = "equal") → opcodeEntries steps xs xs ops = [] := by
    intro ops
    induction ops with
    | nil => intro _; rfl
    | cons op ops ih =>
      intro hall
      have h1 := hall op (by simp)
      simp only [opcodeEntries, h1]
      simp [ih (fun o ho => hall o (by simp [ho]))]
  exact this _ (h xs)

/-- **Negative witness (finding F5e).** `DeepDiff({'NONE'}, {None})` is empty in the model for every
hasher: set items are compared by DeepHash, and `'NONE'` and `None` have the same pre-image. -/
theorem C02_N_spoof_set (al : Align) (H : String → String) :
    (deepDiff {} al (Hash.deepHash {} H) (.set [.str "NONE"]) (.set [.none])).tree = [] := by
  have hh : Hash.deepHash {} H (.str "NONE") = Hash.deepHash {} H .none := rfl
  have hs : ∀ steps, diffSet (Hash.deepHash {} H) steps [.str "NONE"] [.none] = [] := by
    intro steps
    simp [diffSet, hh]
  have hskip : skipSteps {} [] = false := by decide
  simp [deepDiff, hskip, diffV, hs, keepReported, mutualAddRemoves]

/-! Non-vacuity: a nested value that satisfies `wf`. -/
example : wf (.dict [(.str "a", .list [.int 1, .tuple [.none, .float 15 1]]), (.int 2, .set [.str "x", .bool true])]) = true := by
  decide

end Diff
