import Proofs.LFU
import Model.Generated.Tables
/-!
# C18 — the LFU cache behaves as a bounded least-frequently-used map

Model: `Model/Cache/LFU.lean` (bucket list, written branch for branch after `lfucache.py`).
Specification: `Model/Cache/LFUSpec.lean` (`SpecStep`, `refVal`).
All statements quantify over every capacity `≥ 1`, every key/value, and every history of
`get`/`set` operations of any length.
-/
namespace LFU

/-- Every reachable state satisfies the representation invariant: at most `cap` keys, no key
stored twice, no empty frequency node, frequencies strictly ascending. -/
theorem C18_inv (cap : Nat) (hcap : 0 < cap) (ops : List Op) : Inv (exec (init cap) ops) :=
  (exec_inv (init cap) ops (init_inv cap) hcap).1

/-- "never holds more than capacity keys" -/
theorem C18_capacity (cap : Nat) (hcap : 0 < cap) (ops : List Op) :
    size (exec (init cap) ops).buckets ≤ cap := by
  have h := exec_inv (init cap) ops (init_inv cap) hcap
  have := h.1.bounded
  rw [h.2] at this
  exact this

/-- Refinement: from every reachable state, every operation is an allowed step of the abstract
bounded-LFU-map specification `SpecStep` — a get returns the stored value and counts exactly one
use; a set of a present key only replaces the value; a set of a new key evicts, when full, the
entry with the fewest uses, oldest-at-that-count first. -/
theorem C18_refines (cap : Nat) (hcap : 0 < cap) (ops : List Op) (op : Op) :
    let s := exec (init cap) ops
    SpecStep s.cap s.clock (flat s.buckets) op (step s op).2 (flat (step s op).1.buckets) := by
  have h := exec_inv (init cap) ops (init_inv cap) hcap
  exact (step_spec _ op h.1 (by rw [h.2]; exact hcap)).2

/-- "returns for a key the last value set for it unless it was evicted": after any history, a
`get k` answers with the reference value read off the history (last `set k v`, forgotten at the
point where the cache evicted `k`). -/
theorem C18_get_last_set (cap : Nat) (hcap : 0 < cap) (ops : List Op) (k : Nat) :
    (step (exec (init cap) ops) (.get k)).2 =
      match refVal k (trace (init cap) ops) with
      | some v => .found v
      | none => .notFound := by
  have hinv := exec_inv (init cap) ops (init_inv cap) hcap
  have hv := trace_hasVal (init cap) ops (init_inv cap) hcap k none (by
    intro v; simp [HasVal, init, flat])
  have hiff : ∀ v, (step (exec (init cap) ops) (.get k)).2 = .found v ↔ refVal k (trace (init cap) ops) = some v := by
    intro v
    rw [get_out_iff, lookup_hasVal _ _ _ hinv.1.keysNodup]
    exact hv v
  cases hr : refVal k (trace (init cap) ops) with
  | some v => exact (hiff v).2 hr
  | none =>
    simp only
    cases ho : (step (exec (init cap) ops) (Op.get k)).2 with
    | notFound => rfl
    | found v => have := (hiff v).1 ho; rw [hr] at this; cases this
    | stored ev =>
      simp only [step] at ho
      split at ho <;> cases ho

/-- the victim of an eviction has the fewest uses among all stored keys and, among those with
equally few, the smallest stamp (has had that count longest) — read off `C18_refines`. -/
theorem C18_victim_min (cap : Nat) (hcap : 0 < cap) (ops : List Op) (k v vk : Nat)
    (hev : (step (exec (init cap) ops) (.set k v)).2 = .stored (some vk)) :
    ∃ victim ∈ flat (exec (init cap) ops).buckets, victim.2.key = vk ∧
      ∀ p ∈ flat (exec (init cap) ops).buckets, p ≠ victim → lexLt victim p := by
  have h := C18_refines cap hcap ops (.set k v)
  simp only at h
  generalize (step (exec (init cap) ops) (.set k v)).2 = out at h hev
  generalize (flat (step (exec (init cap) ops) (.set k v)).1.buckets) = A' at h
  subst hev
  cases h with
  | setEvict _ _ victim _ _ _ hmem hmin _ => exact ⟨victim, hmem, rfl, hmin⟩

/-- Interleavings: `get` and `set` run entirely under `self.lock` (table regenerated from the
source on every run), so a concurrent execution is *some* sequential history, and all theorems
above quantify over every history. -/
theorem C18_atomic_steps : "get" ∈ Gen.lfuLockedMethods ∧ "set" ∈ Gen.lfuLockedMethods := by
  decide

/-! Non-vacuity: a concrete reachable state that evicts. -/
example : (step (exec (init 2) [.set 1 10, .set 2 20, .get 1]) (.set 3 30)).2 = .stored (some 2) := by
  decide
example : (step (exec (init 2) [.set 1 10, .set 2 20, .get 1, .set 3 30]) (.get 1)).2 = .found 10 := by
  decide

end LFU
