import Proofs.Diff
import Proofs.Faithful
import Model.Diff.Pretty
/-!
# C10 — tree view, text view, to_dict, to_json and pretty() describe the same changes

Model: the tree is a list of (category, level); the text view is `textView` (`TextResult`), built
from the same tree (`to_dict(view_override)` is `textView`/identity on that tree; `to_json` dumps the
text view).  The clause about node identity / up-down pointers is a heap fact checked by the harness.
-/
namespace Diff
open Py

/-- every tree entry that the visibility table admits yields exactly one text entry, every other
entry none: the text view is the tree filtered by the documented table -/
theorem C10_entry_visible (verbose : Nat) (c : Cat) (l : Level) :
    (entryOf verbose c l).isSome = visible verbose c := by
  cases c <;> simp [entryOf, visible] <;> split <;> simp_all

theorem entryOf_cat {verbose : Nat} {c : Cat} {l : Level} {te : TextEntry} (h : entryOf verbose c l = some te) :
    te.cat = c.name := by
  cases c <;> simp only [entryOf] at h
  case valuesChanged => split at h <;> simp at h; rw [← h]
  case iterMoved => split at h <;> simp at h; rw [← h]
  all_goals (simp at h; rw [← h])

theorem C10_text_of_tree (verbose : Nat) (t : Tree) :
    (textView verbose t).length = (t.filter (fun e => visible verbose e.1)).length ∧
    (textView verbose t).map (·.cat) = (t.filter (fun e => visible verbose e.1)).map (·.1.name) := by
  induction t with
  | nil => simp [textView]
  | cons e t ih =>
    obtain ⟨c, l⟩ := e
    have hv := C10_entry_visible verbose c l
    simp only [textView, List.filterMap_cons, List.filter_cons] at ih ⊢
    cases he : entryOf verbose c l with
    | none =>
      have : visible verbose c = false := by rw [← hv, he]; rfl
      simp only [this, Bool.false_eq_true, ↓reduceIte]
      exact ih
    | some te =>
      have hvis : visible verbose c = true := by rw [← hv, he]; rfl
      have hcat : te.cat = c.name := entryOf_cat he
      simp only [hvis, ↓reduceIte, List.length_cons, List.map_cons, hcat]
      exact ⟨by rw [ih.1], by rw [ih.2]⟩

/-- at `verbose_level=2` nothing is hidden: the text view has one entry per tree entry -/
theorem C10_text_verbose2_total (t : Tree) : (textView 2 t).length = t.length := by
  have h := (C10_text_of_tree 2 t).1
  have : t.filter (fun e => visible 2 e.1) = t := by
    rw [List.filter_eq_self]; intro e _; cases e.1 <;> simp [visible]
  rw [h, this]

/-- the reported path and payload of a text entry are those of the tree level it came from -/
theorem C10_payload (verbose : Nat) (l : Level) (hv : 0 < verbose) :
    entryOf verbose .valuesChanged l =
      some ⟨"values_changed", pathStr l.steps false,
        [("new_value", .val (l.t2.getD .none)), ("old_value", .val (l.t1.getD .none))] ++
        (if verbose > 1 && pathStr l.steps false != pathStr l.steps true then [("new_path", .path (pathStr l.steps true))] else []) ++
        (if l.udiff then [("diff", .udiff)] else [])⟩ := by
  simp [entryOf, hv, Cat.name]

/-- every tree node's t1 and t2 are the actual sub-objects of the inputs: the chain of child
relationships from the root (which holds the original t1 and t2: `steps = [] ++ rest`) leads, on the
t1 side, to the node's t1 inside `a` and, on the t2 side, to its t2 inside `b` — in a value model
"the sub-object" is the value at that position; identity of Python objects and the up/down pointers
are checked on the heap by the harness -/
theorem C10_levels (cfg : DCfg) (al : Align) (hashOf : PyVal → String) (a b : PyVal)
    (ha : wf a = true) (hb : wf b = true) :
    ∀ e ∈ (diffV cfg al hashOf [] a b).tree, isSetCat e.1 = false → Backed a b [] e :=
  diffV_backed cfg al hashOf a b [] ha hb

/-- `pretty()` has one statement per change -/
theorem C10_pretty_count (t : Tree) : (prettyStatements t).length = t.length := by
  unfold prettyStatements prettyKeys
  induction t with
  | nil => simp
  | cons e t ih =>
    obtain ⟨c, l⟩ := e
    simp only [List.flatMap_cons, List.flatMap_nil, List.filter_cons, List.append_nil, List.length_append] at ih ⊢
    cases c <;> simp_all <;> omega

end Diff
