import Proofs.Delta
import Proofs.DeltaFlat
import Proofs.DeltaList
import Proofs.DeltaNested
import Proofs.DeltaSet
/-!
# C08 — bidirectional deltas invert exactly and detect a mismatched base

Model: `Model/Delta/Reverse.lean` (`_get_reverse_diff`, `__rsub__`), `Model/Delta/Apply.lean`
(`_do_verify_changes` inside `applyChange`).
-/
namespace Delta
open Py Diff

/-- **A non-bidirectional delta refuses subtraction**, whatever the payload and the base. -/
theorem C08_refuses (d : DeltaD) (base : PyVal) : subDelta false d base = .error "ValueError" := rfl

/-- a bidirectional one applies the reversed payload -/
theorem C08_sub_is_reverse (d : DeltaD) (base : PyVal) :
    subDelta true d base = .ok (applyDelta true (reverseDelta d) base) := rfl

/-- **Reversal is an involution** on every payload the ordered mode emits (no `new_path`, difflib's
four opcode tags): reversing twice gives the payload back, field by field. -/
theorem C08_reverse_involutive (d : DeltaD) (h : Plain d) : reverseDelta (reverseDelta d) = d :=
  reverse_involutive d h

/-- reversal swaps the additive categories and old/new of every change -/
theorem C08_reverse_swaps (d : DeltaD) :
    (reverseDelta d).dictAdded = d.dictRemoved ∧ (reverseDelta d).dictRemoved = d.dictAdded ∧
    (reverseDelta d).iterAdded = d.iterRemoved ∧ (reverseDelta d).iterRemoved = d.iterAdded ∧
    (reverseDelta d).setAdded = d.setRemoved ∧ (reverseDelta d).setRemoved = d.setAdded ∧
    (reverseDelta d).valuesChanged.map (·.oldValue) = d.valuesChanged.map (·.newValue) ∧
    (reverseDelta d).valuesChanged.map (·.newValue) = d.valuesChanged.map (·.oldValue) := by
  simp [reverseDelta, Function.comp_def]

/-- **A mismatch is counted when its entry is applied.** In any state, a `values_changed` /
`type_changes` entry of a bidirectional delta whose location holds a value that is not `==` to the
recorded old value adds a logged error (which `raise_errors=True` turns into `DeltaError`). -/
theorem C08_detects_step (isType : Bool) (st : AState) (c : Change) (elem obj cur o : PyVal)
    (h1 : c.path.getLast? = some elem) (h2 : getAt st.root c.path.dropLast = some obj)
    (h3 : getItem obj elem = some cur) (h4 : c.oldValue = some o) (h5 : pyEq o cur = false) :
    st.errs + 1 ≤ (applyChange true isType true st c).errs :=
  applyChange_mismatch isType st c elem obj cur o h1 h2 h3 h4 h5

/-- **Errors are never forgotten.** Through every later entry and phase, in any phase order, the
error count does not decrease and an escaped exception stays. -/
theorem C08_errs_persist (bidir : Bool) (d : DeltaD) (names : List String) (st : AState) :
    After st (names.foldl (fun st name => phase bidir d name st) st) :=
  phases_after bidir d names st

/-- **Detection end to end.** If, when the `values_changed` phase reaches an entry, the location
it names holds a value different from the recorded old value, the application as a whole ends with
a logged error or an exception: the corrupted base is never accepted silently. -/
theorem C08_detects (d : DeltaD) (base : PyVal) (pre post : List Change) (c : Change) (elem obj cur o : PyVal)
    (hd : d.valuesChanged = pre ++ c :: post)
    (h1 : c.path.getLast? = some elem)
    (h2 : getAt (pre.foldl (applyChange true false true) { root := base }).root c.path.dropLast = some obj)
    (h3 : getItem obj elem = some cur) (h4 : c.oldValue = some o) (h5 : pyEq o cur = false) :
    1 ≤ (applyDelta true d base).errs := by
  have hphases : Gen.deltaPhases = "_do_pre_process" :: "_do_values_changed" :: Gen.deltaPhases.drop 2 := by decide
  unfold applyDelta
  rw [hphases, List.foldl_cons, List.foldl_cons]
  have hpre : phase true d "_do_pre_process" { root := base } = { root := base } := by
    simp [phase]
  rw [hpre]
  have hvc : phase true d "_do_values_changed" { root := base } =
      post.foldl (applyChange true false true) (applyChange true false true (pre.foldl (applyChange true false true) { root := base }) c) := by
    simp [phase, hd, List.foldl_append]
  rw [hvc]
  have hstep := applyChange_mismatch false _ c elem obj cur o h1 h2 h3 h4 h5
  have hpost := (foldl_after _ (fun s x => applyChange_after true false true s x) post
    (applyChange true false true (pre.foldl (applyChange true false true) { root := base }) c)).1
  have hrest := (phases_after true d (Gen.deltaPhases.drop 2)
    (post.foldl (applyChange true false true) (applyChange true false true (pre.foldl (applyChange true false true) { root := base }) c))).1
  omega

/-- the first entry sees the base itself -/
theorem C08_detects_first (d : DeltaD) (base : PyVal) (post : List Change) (c : Change) (elem obj cur o : PyVal)
    (hd : d.valuesChanged = c :: post) (h1 : c.path.getLast? = some elem)
    (h2 : getAt base c.path.dropLast = some obj) (h3 : getItem obj elem = some cur)
    (h4 : c.oldValue = some o) (h5 : pyEq o cur = false) :
    1 ≤ (applyDelta true d base).errs :=
  C08_detects d base [] post c elem obj cur o (by simpa using hd) h1 (by simpa using h2) h3 h4 h5

/-! Non-vacuity: a corrupted base for the delta of `{'a': 1}` → `{'a': 2}`. -/
example : 1 ≤ (applyDelta true { valuesChanged := [{ path := [.str "a"], oldValue := some (.int 1), newValue := some (.int 2) }] }
    (.dict [(.str "a", .str "CORRUPTED#")])).errs :=
  C08_detects_first _ _ [] _ (.str "a") (.dict [(.str "a", .str "CORRUPTED#")]) (.str "CORRUPTED#") (.int 1) rfl rfl rfl
    (by simp [getItem, dictGet, keyEq]) rfl (by simp [pyEq, numEq, numOf])

/-! ### flat dictionaries, end to end -/

/-- **A bidirectional delta of two flat dictionaries inverts exactly.** For every pair of dictionaries with string
keys (no key twice) and scalar values, every ordered configuration without path restrictions: with
`delta = Delta(DeepDiff(t1, t2), bidirectional=True)` (the payload is built undirected, with the values always
included), `t1 + delta` is a dictionary `== t2` and `t2 - delta` is a dictionary `== t1`; in both directions every
entry's recorded old value is verified against the base and no error is logged (`errs = 0`, nothing raised). -/
theorem C08_flat_dict_inverse (cfg : DCfg) (hp : Diff.Plain cfg) (al : Align) (hashOf : PyVal → String)
    (kvs1 kvs2 : List (PyVal × PyVal))
    (hs1 : StrKeys kvs1) (hs2 : StrKeys kvs2) (hn1 : (kvs1.map (·.1)).Nodup) (hn2 : (kvs2.map (·.1)).Nodup)
    (hb1 : ∀ p ∈ kvs1, isBasic p.2 = true) (hb2 : ∀ p ∈ kvs2, isBasic p.2 = true)
    (hpriv : ∀ k, k ∈ kvs1.map (·.1) ∨ k ∈ kvs2.map (·.1) → (cfg.ignorePrivate && isPrivate k) = false) :
    (∃ r, applyDelta true (buildDelta false true (.dict kvs1) (.dict kvs2) (deepDiff cfg al hashOf (.dict kvs1) (.dict kvs2))) (.dict kvs1)
        = { root := r, post := [], errs := 0, raised := none } ∧ pyEq r (.dict kvs2) = true) ∧
    (∃ r, subDelta true (buildDelta false true (.dict kvs1) (.dict kvs2) (deepDiff cfg al hashOf (.dict kvs1) (.dict kvs2))) (.dict kvs2)
        = .ok { root := r, post := [], errs := 0, raised := none } ∧ pyEq r (.dict kvs1) = true) :=
  flat_dict_bidirectional cfg hp al hashOf kvs1 kvs2 hs1 hs2 hn1 hn2 hb1 hb2 hpriv

/-- the hypotheses are met by a pair with an added key, a removed key, a changed value and a changed type -/
example : let kvs1 : List (PyVal × PyVal) := [(.str "a", .int 1), (.str "b", .str "x"), (.str "c", .none), (.str "gone", .bool true)]
    let kvs2 : List (PyVal × PyVal) := [(.str "a", .int 2), (.str "b", .int 7), (.str "c", .none), (.str "new", .float 25 1)]
    StrKeys kvs1 ∧ StrKeys kvs2 ∧ (kvs1.map (·.1)).Nodup ∧ (kvs2.map (·.1)).Nodup ∧
    (∀ p ∈ kvs1, isBasic p.2 = true) ∧ (∀ p ∈ kvs2, isBasic p.2 = true) := by
  simp [StrKeys, isBasic]

/-! ### lists of scalars compared position by position, end to end -/

/-- **A bidirectional delta of two lists of scalars inverts exactly** (positional mode, any lengths): `t1 + delta` is a
list `== t2` and `t2 - delta` is a list `== t1`, every recorded old value verified, no error logged. -/
theorem C08_list_positional_inverse (cfg : DCfg) (hp : Diff.Plain cfg) (hz : cfg.zip = true) (al : Align) (hashOf : PyVal → String)
    (xs ys : List PyVal) (hbx : ∀ x ∈ xs, isBasic x = true) (hby : ∀ y ∈ ys, isBasic y = true) :
    (∃ r, applyDelta true (buildDelta false true (.list xs) (.list ys) (deepDiff cfg al hashOf (.list xs) (.list ys))) (.list xs)
        = { root := .list r, post := [], errs := 0, raised := none } ∧ pyEqL r ys = true) ∧
    (∃ r, subDelta true (buildDelta false true (.list xs) (.list ys) (deepDiff cfg al hashOf (.list xs) (.list ys))) (.list ys)
        = .ok { root := .list r, post := [], errs := 0, raised := none } ∧ pyEqL r xs = true) :=
  list_bidirectional cfg hp al hashOf xs ys hbx hby (list_diffV_zip cfg hp hz al hashOf xs ys hbx)

/-! ### nested dictionaries, end to end -/

/-- **A bidirectional delta of two nested dictionaries inverts exactly** — string keys at every level, scalar leaves, any
depth, any threshold: with `delta = Delta(DeepDiff(t1, t2), bidirectional=True)`, `t1 + delta` is `== t2` and `t2 - delta` is
`== t1`; in both directions every entry's recorded old value is verified against the base and no error is logged. -/
theorem C08_nested_dict_inverse (cfg : DCfg) (hp : Diff.Plain cfg) (al : Align) (hashOf : PyVal → String)
    (v1 v2 : PyVal) (j1 : J cfg.ignorePrivate v1) (j2 : J cfg.ignorePrivate v2) :
    (∃ r, applyDelta true (buildDelta false true v1 v2 (deepDiff cfg al hashOf v1 v2)) v1
        = { root := r, post := [], errs := 0, raised := none } ∧ pyEq r v2 = true) ∧
    (∃ r, subDelta true (buildDelta false true v1 v2 (deepDiff cfg al hashOf v1 v2)) v2
        = .ok { root := r, post := [], errs := 0, raised := none } ∧ pyEq r v1 = true) :=
  nested_bidirectional cfg hp al hashOf v1 v2 j1 j2

/-! ### sets of scalars, end to end -/

/-- **A bidirectional delta of two sets inverts exactly** (members told apart consistently by `==` and by the item hash):
`t2 - delta` is a set `== t1`, `t1 + delta` a set `== t2`, nothing logged. -/
theorem C08_set_inverse (cfg : DCfg) (hp : Diff.Plain cfg) (al : Align) (hashOf : PyVal → String) (xs ys : List PyVal) (h : SetDom hashOf xs ys) :
    (∃ r, applyDelta true (buildDelta false true (.set xs) (.set ys) (deepDiff cfg al hashOf (.set xs) (.set ys))) (.set xs)
        = { root := .set r, post := [], errs := 0, raised := none } ∧ pyEq (.set r) (.set ys) = true) ∧
    (∃ r, subDelta true (buildDelta false true (.set xs) (.set ys) (deepDiff cfg al hashOf (.set xs) (.set ys))) (.set ys)
        = .ok { root := .set r, post := [], errs := 0, raised := none } ∧ pyEq (.set r) (.set xs) = true) :=
  set_roundtrip cfg hp al hashOf true false true xs ys h

end Delta
