import Proofs.Path
import Model.Path.Extract
/-!
# C09 — path strings round-trip: report → extract / parse_path → same location

Model: `Model/Path/Path.lean` (`renderPath` = what `level.path()` reports for dictionary keys and
list indexes; the character machine of `_path_to_elements`; `_add_to_elements`; `stringify_path`).
The theorems hold for key sequences of **any length** over `SafeKey`s: strings with arbitrary
characters — brackets, dots, backslashes, whitespace, newlines, NUL, non-ASCII, `root`, leading
`__`, the empty string — except strings containing *both* quote characters or U+1D1C0; ints, floats,
None, bools under assumption RE.  `LE`/`RE` are the recorded assumptions on `ast.literal_eval` and
`repr`.
-/
namespace Path

/-- the machine recovers exactly the key sequence, every step a GET -/
theorem C09_roundtrip (le : LitEval) (hle : LE le) (keys : List Key) (hk : ∀ k ∈ keys, SafeKey le k) :
    pathToElements le (renderPath keys) = keys.map (fun k => (k, Action.get)) := by
  unfold pathToElements renderPath
  have hd : (rootChars ++ keys.flatMap renderKey).drop 4 = keys.flatMap renderKey := rfl
  rw [hd]
  obtain ⟨pv', _, h⟩ := run_renderKeys le hle keys hk none [] (by simp)
  have : List.foldl (step le) {} (keys.flatMap renderKey) = run le ⟨[], .no, none, 0, false, none, []⟩ (keys.flatMap renderKey) := rfl
  rw [this, h]
  simp [finish]

/-- `parse_path` returns the key sequence with the original key types -/
theorem C09_parse_path (le : LitEval) (hle : LE le) (keys : List Key) (hk : ∀ k ∈ keys, SafeKey le k) :
    parsePath le (renderPath keys) = keys := by
  simp [parsePath, C09_roundtrip le hle keys hk, List.map_map, Function.comp_def]

/-- `extract` on the reported path reaches exactly the location the key sequence denotes -/
theorem C09_extract (le : LitEval) (hle : LE le) (keys : List Key) (hk : ∀ k ∈ keys, SafeKey le k) (o : Obj) :
    extract le o (renderPath keys) = getAt o keys := by
  unfold extract getNested getAt
  rw [C09_roundtrip le hle keys hk]
  induction keys generalizing o with
  | nil => rfl
  | cons k ks ih =>
    simp only [List.map_cons, List.foldlM_cons]
    cases getItem o k with
    | none => rfl
    | some o' => exact ih (fun x hx => hk x (by simp [hx])) o'

/-- `stringify_path(parse_path(p), root_element=('root', GET)) = p` for every reported path -/
theorem C09_stringify_inverts (le : LitEval) (hle : LE le) (keys : List Key) (hk : ∀ k ∈ keys, SafeKey le k) :
    stringifyPath (parsePath le (renderPath keys)) .get = renderPath keys := by
  rw [C09_parse_path le hle keys hk]
  have one : ∀ k : Key, stringifyOne k .get = renderKey k := by
    intro k; cases k <;> rfl
  cases keys with
  | nil => rfl
  | cons k ks =>
    simp only [stringifyPath, renderPath, List.flatMap_cons, one, List.append_assoc]

/-- the driver's concrete `literal_eval` satisfies assumption LE -/
theorem C09_leImpl_ok : LE leImpl := by
  intro q body hq hqb hbs
  have hlast : (body ++ [q]).getLast? = some q := by simp
  have hdl : (body ++ [q]).dropLast = body := by simp
  have hqq : (q == '"' || q == '\'') = true := by rcases hq with rfl | rfl <;> decide
  have hws : isWs q = false := by rcases hq with rfl | rfl <;> decide
  have hstrip : stripWs (q :: (body ++ [q])) = q :: (body ++ [q]) := by
    unfold stripWs
    have h1 : (q :: (body ++ [q])).dropWhile isWs = q :: (body ++ [q]) := by simp [List.dropWhile, hws]
    rw [h1]
    have h2 : (q :: (body ++ [q])).reverse = q :: (body.reverse ++ [q]) := by simp
    rw [h2]
    have h3 : (q :: (body.reverse ++ [q])).dropWhile isWs = q :: (body.reverse ++ [q]) := by simp [List.dropWhile, hws]
    rw [h3]
    simp
  have hq2 : (q == ' ' || q == '\t') = false := by rcases hq with rfl | rfl <;> decide
  have hind : indentedStart (q :: (body ++ [q])) = false := by
    simp [indentedStart, List.dropWhile, List.takeWhile, hq2, hws]
  unfold leImpl
  rw [hind]
  simp only [Bool.false_eq_true, if_false]
  rw [hstrip]
  unfold leCore
  simp only [hqq, ↓reduceIte, hlast, hdl]
  split
  · left; rfl
  · right; rfl

/-- **Negative witness (finding F8a).** A key containing both quote characters is rendered as
`root["a'b"c"]`, which the machine splits in two: the round trip fails, exactly as on the code. -/
theorem C09_N_both_quotes :
    renderPath [.str "a'b\"c".toList] = "root[\"a'b\"c\"]".toList ∧
    parsePath leImpl (renderPath [.str "a'b\"c".toList]) = [.str "a'b".toList, .str "c\"]".toList] := by
  constructor <;> decide

/-- **Negative witness (finding F8d).** With the default root element `stringify_path([1, 2, 'age'])`
is `root.1[2]['age']`, not the `root[1][2]['age']` its docstring promises. -/
theorem C09_N_default_root :
    stringifyPath [.int 1, .int 2, .str "age".toList] .getattr = "root.1[2]['age']".toList := by
  decide

/-! Non-vacuity: hostile keys that satisfy `SafeKey`, under the concrete `leImpl`. -/
example : ∀ k ∈ [Key.str "a]['b".toList, .str "it's".toList, .str "C:\\tmp".toList, .str "".toList, .str "__x".toList,
                 .str "x\ny".toList, .none, .bool true], SafeKey leImpl k := by
  intro k hk
  simp only [List.mem_cons, List.mem_nil_iff, or_false] at hk
  rcases hk with rfl | rfl | rfl | rfl | rfl | rfl | rfl | rfl <;>
    first
      | (constructor <;> decide)
      | (refine ⟨⟨by decide, by decide, ?_⟩, by decide⟩; decide)

end Path
