import Proofs.IgnoreOrder
import Model.Generated.Tables
import Model.Hash.Prep
/-!
# C12 — DeepHash equality matches order-ignoring diff emptiness under the same options

What is machine-checked here:
* every normalisation option the two engines share is handed from `DeepDiff` to `DeepHash`
  (`C12_forwarded`, over the table regenerated from the source on every run);
* in the model, for every pairing: the order-ignoring diff is empty exactly when the hash-level
  verdict holds (`C12_diff_iff_verdict`, from C05) — the verdict being equality of the sets
  (multisets) of item hashes at every list, which is what makes the two engines agree;
* `HashSound` is the statement "an empty diff implies equal hashes" for the item hash.
The converse for the *root* hash (equal digests ⇒ equal sets of item digests) needs the
injectivity of the hash framing (C07) and is decided on the implementation.
-/
namespace DiffIO
open Py Diff

/-- the normalisation options `DeepHash` and `DeepDiff` share -/
def sharedOptions : List String :=
  ["ignore_string_case", "ignore_string_type_changes", "ignore_numeric_type_changes", "significant_digits",
   "number_format_notation", "truncate_datetime", "default_timezone", "use_enum_value", "ignore_repetition",
   "ignore_type_in_groups", "ignore_type_subclasses", "ignore_private_variables", "exclude_types"]

/-- **Every shared option is forwarded** to the hashing of items. -/
theorem C12_forwarded : ∀ o ∈ sharedOptions, o ∈ Gen.deephashForwarded := by decide

/-- **Diff emptiness is a statement about item hashes**: for every pairing, report_repetition
setting and threshold, the order-ignoring diff is empty iff at every list the two sides have the
same set of item hashes (and, with repetition reporting, the same multiplicities), dictionaries
agree key by key and leaves are equal. -/
theorem C12_diff_iff_verdict (c : IOCfg) (hashOf : PyVal → String) (P : Pairs) (hs : HashSound c hashOf) (hc : c.thrNum ≤ c.thrDen)
    (a b : PyVal) : (deepDiff c hashOf P a b).tree = [] ↔ verdict c hashOf a b = true := by
  unfold deepDiff
  split
  · exact diffV_empty_iff c hashOf P hs hc a b []
  · simp only [mutualAddRemoves_nil_iff]
    exact diffV_empty_iff c hashOf P hs hc a b []

/-- **An empty diff implies equal hashes** — for any item hash that respects the verdict. -/
theorem C12_empty_implies_equal_hash (c : IOCfg) (hashOf : PyVal → String) (P : Pairs) (hs : HashSound c hashOf)
    (hc : c.thrNum ≤ c.thrDen) (a b : PyVal) (h : (deepDiff c hashOf P a b).tree = []) : hashOf a = hashOf b :=
  hs a b ((C12_diff_iff_verdict c hashOf P hs hc a b).1 h)

/-- `ignore_repetition` is the negation of `report_repetition`, as `_get_deephash_params` sets it:
the list verdict looks at multiplicities exactly when the hash does -/
theorem C12_repetition_matches (c : IOCfg) (steps : List Step) (t1 t2 : List HEntry) (h : c.rep = false) :
    repEntries c steps t1 t2 = [] := by
  simp [repEntries, h]

end DiffIO
