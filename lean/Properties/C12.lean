import Proofs.IgnoreOrder
import Proofs.HashSound
import Model.Generated.Tables
import Model.Hash.Prep
/-!
# C12 — DeepHash equality matches order-ignoring diff emptiness under the same options

What is machine-checked here:
* every normalisation option the two engines share is handed from `DeepDiff` to `DeepHash`
  (`C12_forwarded`, over the table regenerated from the source on every run);
* in the model, for every pairing: the order-ignoring diff is empty exactly when the hash-level
  verdict holds (`C12_diff_iff_verdict`, from C05) — the verdict being equality of the sets
  (multisets) of item hashes at every list, which is what makes the two engines agree;
* `HashSoundOn D` is the statement "an empty diff implies equal hashes" for the item hash on a domain
  `D`; it is **proved for the DeepHash model** (`C12_hashSound_concrete`: every hasher `H`, lists,
  tuples, sets, dictionaries, leaves; domain = pairwise different hashable keys from a universe on
  which `==` is identity (NoNumAlias), sets whose members hash differently, canonical floats), so
  `C12_empty_implies_equal_deephash` and `C05_verdict_deephash` carry no hypothesis about the hash.
The converse for the *root* hash (equal digests ⇒ equal sets of item digests) needs the
injectivity of the hash framing (C07) and is decided on the implementation.
-/
namespace DiffIO
open Py Diff

/-- the normalisation options `DeepHash` and `DeepDiff` share -/
def sharedOptions : List String :=
  ["ignore_string_case", "ignore_string_type_changes", "ignore_numeric_type_changes", "significant_digits",
   "number_format_notation", "truncate_datetime", "default_timezone", "use_enum_value", "ignore_repetition",
   "ignore_type_in_groups", "ignore_type_subclasses", "ignore_private_variables", "exclude_types"]

/-- **Every shared option is forwarded** to the hashing of items. -/
theorem C12_forwarded : ∀ o ∈ sharedOptions, o ∈ Gen.deephashForwarded := by decide

/-- **Diff emptiness is a statement about item hashes**: for every pairing, report_repetition
setting and threshold, the order-ignoring diff is empty iff at every list the two sides have the
same set of item hashes (and, with repetition reporting, the same multiplicities), dictionaries
agree key by key and leaves are equal. -/
theorem C12_diff_iff_verdict (D : PyVal → Prop) (hD : Closed D) (c : IOCfg) (hashOf : PyVal → String) (P : Pairs)
    (hs : HashSoundOn D c hashOf) (hc : c.thrNum ≤ c.thrDen) (a b : PyVal) (da : D a) (db : D b) :
    (deepDiff c hashOf P a b).tree = [] ↔ verdict c hashOf a b = true := by
  unfold deepDiff
  split
  · exact diffV_empty_iff D hD c hashOf P hs hc a b [] da db
  · simp only [mutualAddRemoves_nil_iff]
    exact diffV_empty_iff D hD c hashOf P hs hc a b [] da db

/-- **An empty diff implies equal hashes** — for any item hash that respects the verdict. -/
theorem C12_empty_implies_equal_hash (D : PyVal → Prop) (hD : Closed D) (c : IOCfg) (hashOf : PyVal → String) (P : Pairs)
    (hs : HashSoundOn D c hashOf) (hc : c.thrNum ≤ c.thrDen) (a b : PyVal) (da : D a) (db : D b)
    (h : (deepDiff c hashOf P a b).tree = []) : hashOf a = hashOf b :=
  hs a b da db ((C12_diff_iff_verdict D hD c hashOf P hs hc a b da db).1 h)

/-- **HashSound holds for the DeepHash model**, for every hasher. -/
theorem C12_hashSound_concrete (K : List PyVal) (hK : StrictK K) (c : IOCfg) (H : String → String) :
    HashSoundOn (domV K (dh c H)) c (dh c H) :=
  hashSound_concrete K hK c H

/-- **An empty order-ignoring diff implies equal DeepHash digests** — for every pairing, hasher,
report_repetition setting and threshold in [0,1], on the domain. -/
theorem C12_empty_implies_equal_deephash (K : List PyVal) (hK : StrictK K) (c : IOCfg) (H : String → String) (P : Pairs)
    (hc : c.thrNum ≤ c.thrDen) (a b : PyVal) (da : domV K (dh c H) a) (db : domV K (dh c H) b)
    (h : (deepDiff c (dh c H) P a b).tree = []) : dh c H a = dh c H b :=
  C12_empty_implies_equal_hash (domV K (dh c H)) (domV_closed K (dh c H)) c (dh c H) P (hashSound_concrete K hK c H) hc a b da db h

/-- the verdict theorem of C05 for the DeepHash model, with no assumption left about the hash -/
theorem C05_verdict_deephash (K : List PyVal) (hK : StrictK K) (c : IOCfg) (H : String → String) (P : Pairs)
    (hc : c.thrNum ≤ c.thrDen) (a b : PyVal) (da : domV K (dh c H) a) (db : domV K (dh c H) b) :
    (deepDiff c (dh c H) P a b).tree = [] ↔ verdict c (dh c H) a b = true :=
  C12_diff_iff_verdict (domV K (dh c H)) (domV_closed K (dh c H)) c (dh c H) P (hashSound_concrete K hK c H) hc a b da db

/-! Non-vacuity: a nested value of the domain (key universe `["a", "b"]`). -/
example (H : String → String) : domV [.str "a", .str "b"] (dh {} H)
    (.dict [(.str "a", .list [.int 1, .float 15 1, .tuple [.none]]), (.str "b", .dict [])]) := by
  simp [domV, domP, domL, distinctKeys, keyEq, hashable, canonFloat]
example : StrictK [.str "a", .str "b"] := by
  intro k hk k' hk' h
  simp at hk hk'
  rcases hk with rfl | rfl <;> rcases hk' with rfl | rfl <;> simp_all [keyEq]

/-- `ignore_repetition` is the negation of `report_repetition`, as `_get_deephash_params` sets it:
the list verdict looks at multiplicities exactly when the hash does -/
theorem C12_repetition_matches (c : IOCfg) (steps : List Step) (t1 t2 : List HEntry) (h : c.rep = false) :
    repEntries c steps t1 t2 = [] := by
  simp [repEntries, h]

end DiffIO
