import Proofs.IgnoreOrder
import Proofs.HashSound
import Proofs.HashComplete
import Model.Generated.Tables
import Model.Hash.Prep
/-!
# C12 — DeepHash equality matches order-ignoring diff emptiness under the same options

What is machine-checked here:
* every normalisation option the two engines share is handed from `DeepDiff` to `DeepHash`
  (`C12_forwarded`, over the table regenerated from the source on every run);
* in the model, for every pairing: the order-ignoring diff is empty exactly when the hash-level
  verdict holds (`C12_diff_iff_verdict`, from C05) — the verdict being equality of the sets
  (multisets) of item hashes at every list, which is what makes the two engines agree;
* `HashSoundOn D` is the statement "an empty diff implies equal hashes" for the item hash on a domain
  `D`; it is **proved for the DeepHash model** (`C12_hashSound_concrete`: every hasher `H`, lists,
  tuples, sets, dictionaries, leaves; domain = pairwise different hashable keys from a universe on
  which `==` is identity (NoNumAlias), sets whose members hash differently, canonical floats), so
  `C12_empty_implies_equal_deephash` and `C05_verdict_deephash` carry no hypothesis about the hash.
* the converse — equal digests decode to the verdict — is **proved for the DeepHash model** too
  (`hashComplete_V`, from the unique decodability of the `,` `;` `:` `|` framing): for an injective
  hasher with separator-free, non-empty digests (`Hex`), inside NoSpoof, with canonical floats and
  scalar keys.  Together: `C12_equal_deephash_iff_empty_diff` — the property itself, in the model,
  for every pairing, report_repetition setting and threshold.
-/
namespace DiffIO
open Py Diff

/-- the normalisation options `DeepHash` and `DeepDiff` share -/
def sharedOptions : List String :=
  ["ignore_string_case", "ignore_string_type_changes", "ignore_numeric_type_changes", "significant_digits",
   "number_format_notation", "truncate_datetime", "default_timezone", "use_enum_value", "ignore_repetition",
   "ignore_type_in_groups", "ignore_type_subclasses", "ignore_private_variables", "exclude_types"]

/-- **Every shared option is forwarded** to the hashing of items. -/
theorem C12_forwarded : ∀ o ∈ sharedOptions, o ∈ Gen.deephashForwarded := by decide

/-- **Diff emptiness is a statement about item hashes**: for every pairing, report_repetition
setting and threshold, the order-ignoring diff is empty iff at every list the two sides have the
same set of item hashes (and, with repetition reporting, the same multiplicities), dictionaries
agree key by key and leaves are equal. -/
theorem C12_diff_iff_verdict (D : PyVal → Prop) (hD : Closed D) (c : IOCfg) (hashOf : PyVal → String) (P : Pairs)
    (hs : HashSoundOn D c hashOf) (hc : c.thrNum ≤ c.thrDen) (a b : PyVal) (da : D a) (db : D b) :
    (deepDiff c hashOf P a b).tree = [] ↔ verdict c hashOf a b = true := by
  unfold deepDiff
  split
  · exact diffV_empty_iff D hD c hashOf P hs hc a b [] da db
  · simp only [mutualAddRemoves_nil_iff]
    exact diffV_empty_iff D hD c hashOf P hs hc a b [] da db

/-- **An empty diff implies equal hashes** — for any item hash that respects the verdict. -/
theorem C12_empty_implies_equal_hash (D : PyVal → Prop) (hD : Closed D) (c : IOCfg) (hashOf : PyVal → String) (P : Pairs)
    (hs : HashSoundOn D c hashOf) (hc : c.thrNum ≤ c.thrDen) (a b : PyVal) (da : D a) (db : D b)
    (h : (deepDiff c hashOf P a b).tree = []) : hashOf a = hashOf b :=
  hs a b da db ((C12_diff_iff_verdict D hD c hashOf P hs hc a b da db).1 h)

/-- **HashSound holds for the DeepHash model**, for every hasher. -/
theorem C12_hashSound_concrete (K : List PyVal) (hK : StrictK K) (c : IOCfg) (H : String → String) :
    HashSoundOn (domV K (dh c H)) c (dh c H) :=
  hashSound_concrete K hK c H

/-- **An empty order-ignoring diff implies equal DeepHash digests** — for every pairing, hasher,
report_repetition setting and threshold in [0,1], on the domain. -/
theorem C12_empty_implies_equal_deephash (K : List PyVal) (hK : StrictK K) (c : IOCfg) (H : String → String) (P : Pairs)
    (hc : c.thrNum ≤ c.thrDen) (a b : PyVal) (da : domV K (dh c H) a) (db : domV K (dh c H) b)
    (h : (deepDiff c (dh c H) P a b).tree = []) : dh c H a = dh c H b :=
  C12_empty_implies_equal_hash (domV K (dh c H)) (domV_closed K (dh c H)) c (dh c H) P (hashSound_concrete K hK c H) hc a b da db h

/-- the verdict theorem of C05 for the DeepHash model, with no assumption left about the hash -/
theorem C05_verdict_deephash (K : List PyVal) (hK : StrictK K) (c : IOCfg) (H : String → String) (P : Pairs)
    (hc : c.thrNum ≤ c.thrDen) (a b : PyVal) (da : domV K (dh c H) a) (db : domV K (dh c H) b) :
    (deepDiff c (dh c H) P a b).tree = [] ↔ verdict c (dh c H) a b = true :=
  C12_diff_iff_verdict (domV K (dh c H)) (domV_closed K (dh c H)) c (dh c H) P (hashSound_concrete K hK c H) hc a b da db

/-- **Equal digests exactly when the verdict holds** (DeepHash model; injective hasher with
separator-free digests; values inside both domains). -/
theorem C12_equal_deephash_iff_verdict (K : List PyVal) (hK : StrictK K) (hKo : KeyOk K) (c : IOCfg) (H : String → String)
    (hinj : Function.Injective H) (hex : Hex H) (a b : PyVal)
    (da : domV K (dh c H) a) (db : domV K (dh c H) b) (ca : domC K a) (cb : domC K b) :
    dh c H a = dh c H b ↔ verdict c (dh c H) a b = true :=
  ⟨hashComplete_V K hK hKo c H hinj hex reprInj a b ca cb, hashSound_concrete K hK c H a b da db⟩

/-- **C12 in the model**: the DeepHash digests of `a` and `b` (with `ignore_repetition = not
report_repetition` and the shared options) are equal exactly when the order-ignoring diff is empty —
for every pairing, report_repetition setting and threshold in [0,1]. -/
theorem C12_equal_deephash_iff_empty_diff (K : List PyVal) (hK : StrictK K) (hKo : KeyOk K) (c : IOCfg) (H : String → String) (P : Pairs)
    (hinj : Function.Injective H) (hex : Hex H) (hc : c.thrNum ≤ c.thrDen) (a b : PyVal)
    (da : domV K (dh c H) a) (db : domV K (dh c H) b) (ca : domC K a) (cb : domC K b) :
    dh c H a = dh c H b ↔ (deepDiff c (dh c H) P a b).tree = [] :=
  (C12_equal_deephash_iff_verdict K hK hKo c H hinj hex a b da db ca cb).trans
    (C05_verdict_deephash K hK c H P hc a b da db).symm

/-! ### the hash-level verdict read as nested set / multiset equality -/

theorem count_map_dh (f : PyVal → String) (xs : List PyVal) (h : String) : (xs.map f).count h = xs.countP (fun x => f x == h) := by
  induction xs with
  | nil => rfl
  | cons x xs ih => simp only [List.map_cons, List.count_cons, List.countP_cons, ih]

/-- **C05, semantic reading**: at a list, the verdict says exactly that the two lists are equal as
sets of items up to the verdict (every item of one side has an equivalent item on the other), and —
with `report_repetition` — that every item has as many equivalent items on both sides.  `eqv` is
discharged by `C12_equal_deephash_iff_verdict` in `C05_list_is_nested_set_equality`. -/
theorem list_verdict_semantic (c : IOCfg) (hashOf : PyVal → String) (xs ys : List PyVal)
    (eqv : ∀ x ∈ xs ++ ys, ∀ y ∈ xs ++ ys, hashOf x = hashOf y ↔ verdict c hashOf x y = true) :
    verdict c hashOf (.list xs) (.list ys) = true ↔
      (∀ x ∈ xs, ∃ y ∈ ys, verdict c hashOf x y = true) ∧ (∀ y ∈ ys, ∃ x ∈ xs, verdict c hashOf x y = true) ∧
      (c.rep = true → ∀ z ∈ xs ++ ys, xs.countP (fun x => verdict c hashOf z x) = ys.countP (fun y => verdict c hashOf z y)) := by
  have cnt : ∀ (l : List PyVal), (∀ v ∈ l, v ∈ xs ++ ys) → ∀ z ∈ xs ++ ys,
      (l.map hashOf).count (hashOf z) = l.countP (fun x => verdict c hashOf z x) := by
    intro l hl z hz
    rw [count_map_dh]
    apply List.countP_congr
    intro x hx
    have := eqv z hz x (hl x hx)
    constructor
    · intro h
      have h' : hashOf x = hashOf z := by simpa using h
      exact this.1 h'.symm
    · intro h
      have h' := this.2 h
      simp [h']
  have inl : ∀ v ∈ xs, v ∈ xs ++ ys := fun v hv => List.mem_append_left _ hv
  have inr : ∀ v ∈ ys, v ∈ xs ++ ys := fun v hv => List.mem_append_right _ hv
  constructor
  · intro hv
    simp only [verdict, Bool.and_eq_true, isEmpty_iff_nil] at hv
    obtain ⟨⟨ha, hr⟩, hre⟩ := hv
    have hmem := same_members hashOf xs ys ha hr
    refine ⟨?_, ?_, ?_⟩
    · intro x hx
      obtain ⟨y, hy, he⟩ := List.mem_map.1 ((hmem (hashOf x)).1 (List.mem_map.2 ⟨x, hx, rfl⟩))
      exact ⟨y, hy, (eqv x (inl x hx) y (inr y hy)).1 he.symm⟩
    · intro y hy
      obtain ⟨x, hx, he⟩ := List.mem_map.1 ((hmem (hashOf y)).2 (List.mem_map.2 ⟨y, hy, rfl⟩))
      exact ⟨x, hx, (eqv x (inl x hx) y (inr y hy)).1 he⟩
    · intro hrep z hz
      rw [← cnt xs inl z hz, ← cnt ys inr z hz]
      exact same_counts c hashOf xs ys hrep hmem hre (hashOf z)
  · rintro ⟨h1, h2, h3⟩
    have hmem : ∀ h, h ∈ xs.map hashOf ↔ h ∈ ys.map hashOf := by
      intro h
      constructor
      · intro hm
        obtain ⟨x, hx, rfl⟩ := List.mem_map.1 hm
        obtain ⟨y, hy, hv⟩ := h1 x hx
        exact List.mem_map.2 ⟨y, hy, ((eqv x (inl x hx) y (inr y hy)).2 hv).symm⟩
      · intro hm
        obtain ⟨y, hy, rfl⟩ := List.mem_map.1 hm
        obtain ⟨x, hx, hv⟩ := h2 y hy
        exact List.mem_map.2 ⟨x, hx, (eqv x (inl x hx) y (inr y hy)).2 hv⟩
    simp only [verdict]
    apply iter_verdict_of c hashOf xs ys hmem
    intro hrep h
    by_cases hin : h ∈ xs.map hashOf
    · obtain ⟨z, hz, rfl⟩ := List.mem_map.1 hin
      rw [cnt xs inl z (inl z hz), cnt ys inr z (inl z hz)]
      exact h3 hrep z (inl z hz)
    · have hin' : h ∉ ys.map hashOf := fun hy => hin ((hmem h).2 hy)
      rw [List.count_eq_zero_of_not_mem hin, List.count_eq_zero_of_not_mem hin']

/-- **C05/C12: the verdict at a list is nested set (multiset) equality** — DeepHash model, injective
hasher with separator-free digests, items inside the domains. -/
theorem C05_list_is_nested_set_equality (K : List PyVal) (hK : StrictK K) (hKo : KeyOk K) (c : IOCfg) (H : String → String)
    (hinj : Function.Injective H) (hex : Hex H) (xs ys : List PyVal)
    (hdom : ∀ v ∈ xs ++ ys, domV K (dh c H) v ∧ domC K v) :
    verdict c (dh c H) (.list xs) (.list ys) = true ↔
      (∀ x ∈ xs, ∃ y ∈ ys, verdict c (dh c H) x y = true) ∧ (∀ y ∈ ys, ∃ x ∈ xs, verdict c (dh c H) x y = true) ∧
      (c.rep = true → ∀ z ∈ xs ++ ys, xs.countP (fun x => verdict c (dh c H) z x) = ys.countP (fun y => verdict c (dh c H) z y)) :=
  list_verdict_semantic c (dh c H) xs ys (fun x hx y hy =>
    C12_equal_deephash_iff_verdict K hK hKo c H hinj hex x y (hdom x hx).1 (hdom y hy).1 (hdom x hx).2 (hdom y hy).2)

/-! Non-vacuity: a nested value of the domain (key universe `["a", "b"]`). -/
example (H : String → String) : domV [.str "a", .str "b"] (dh {} H)
    (.dict [(.str "a", .list [.int 1, .float 15 1, .tuple [.none]]), (.str "b", .dict [])]) := by
  simp [domV, domP, domL, distinctKeys, keyEq, hashable, canonFloat]
example : domC [.str "a", .str "b"]
    (.dict [(.str "a", .list [.int 1, .float 15 1, .tuple [.none]]), (.str "b", .dict [])]) := by
  simp [domC, domCP, distinctKeys, keyEq, hashable]
example : KeyOk [.str "a", .str "b"] := by
  intro k hk
  simp at hk
  rcases hk with rfl | rfl <;> refine ⟨rfl, ?_⟩ <;> simp only [domC, noSpoofS, spoofTags] <;> refine ⟨by decide, ?_⟩ <;>
    intro tag rest ht he <;> have := congrArg String.toList he <;> simp at ht <;>
    rcases ht with rfl | rfl | rfl | rfl | rfl | rfl | rfl | rfl <;> simp [String.toList_append] at this
/-- the hypotheses on the hasher are satisfiable -/
example : ∃ H : String → String, Function.Injective H ∧ Hex H := ⟨escH, escH_injective, escH_hex⟩
example : StrictK [.str "a", .str "b"] := by
  intro k hk k' hk' h
  simp at hk hk'
  rcases hk with rfl | rfl <;> rcases hk' with rfl | rfl <;> simp_all [keyEq]

/-- `ignore_repetition` is the negation of `report_repetition`, as `_get_deephash_params` sets it:
the list verdict looks at multiplicities exactly when the hash does -/
theorem C12_repetition_matches (c : IOCfg) (steps : List Step) (t1 t2 : List HEntry) (h : c.rep = false) :
    repEntries c steps t1 t2 = [] := by
  simp [repEntries, h]

end DiffIO
