import Proofs.Distance
import Proofs.DeepDistance
import Proofs.DeepDistanceList
import Proofs.DeepDistancePos
import Proofs.DeepDistanceSet
import Proofs.DeepDistanceListPos
/-!
# C19 — pairing distances lie in `[0, max]` and are `0` only for equal values

Model: `Model/Distance/Numbers.lean` (exact rationals).  The `deep_distance` clauses are stated
over `Model/Distance/Deep.lean` (numerator: `_get_item_length` of the delta payload; denominator: the two DeepHash
counts) at the end of this file: the range is a theorem for nested dictionaries without a type change, and the property
is refuted in the model where the code refutes it (F13a); elsewhere it is decided on the implementation
(see DESIGN §11 and the known findings F13, F17).
-/
namespace Dist

/-- `_get_numbers_distance` returns a value between 0 and its maximum, and 0 only for equal
numbers — for all rationals and every positive maximum. -/
theorem C19_numbers (a b mx : Rat) (hmx : 0 < mx) :
    0 ≤ numDist a b mx ∧ numDist a b mx ≤ mx ∧ (numDist a b mx = 0 ↔ a = b) :=
  ⟨(numDist_range a b mx hmx).1, (numDist_range a b mx hmx).2, numDist_zero_iff a b mx hmx⟩

/-- every typed distance (numbers, datetimes, dates, timedeltas, times, and the datetime/date mix)
lies in `[0, max]` -/
theorem C19_typed_range (ordOf : Int → Int) (x y : Val) (mx : Rat) (hmx : 0 < mx) (d : Rat)
    (h : typedDist ordOf x y mx = some d) : 0 ≤ d ∧ d ≤ mx := by
  cases x <;> cases y <;> simp only [typedDist, Option.some.injEq, reduceCtorEq] at h <;>
    (subst h; exact numDist_range _ _ mx hmx)

/-- for numbers, datetimes, dates and timedeltas the distance is 0 only for equal values -/
theorem C19_typed_zero (ordOf : Int → Int) (mx : Rat) (hmx : 0 < mx) :
    (∀ a b, typedDist ordOf (.number a) (.number b) mx = some 0 → a = b) ∧
    (∀ a b, typedDist ordOf (.datetime a) (.datetime b) mx = some 0 → a = b) ∧
    (∀ a b, typedDist ordOf (.date a) (.date b) mx = some 0 → a = b) ∧
    (∀ a b, typedDist ordOf (.timedelta a) (.timedelta b) mx = some 0 → a = b) := by
  have scale : ∀ a b : Int, (a : Rat) / 1000000 = (b : Rat) / 1000000 → a = b := by
    intro a b h
    have h6 : (1000000 : Rat) ≠ 0 := by norm_num
    have : (a : Rat) = b := (div_left_inj' h6).1 h
    exact_mod_cast this
  refine ⟨?_, ?_, ?_, ?_⟩ <;> intro a b h <;> simp only [typedDist, Option.some.injEq] at h
  · exact (numDist_zero_iff a b mx hmx).1 h
  · exact scale a b ((numDist_zero_iff _ _ mx hmx).1 h)
  · have := (numDist_zero_iff _ _ mx hmx).1 h; exact_mod_cast this
  · exact scale a b ((numDist_zero_iff _ _ mx hmx).1 h)

/-- times: 0 exactly for equal times (hours, minutes, seconds and microseconds), for valid fields -/
theorem C19_time_zero (ordOf : Int → Int) (mx : Rat) (hmx : 0 < mx) (h m s u h' m' s' u' : Nat)
    (hm : m < 60) (hs : s < 60) (hu : u < 1000000) (hm' : m' < 60) (hs' : s' < 60) (hu' : u' < 1000000) :
    typedDist ordOf (.time h m s u) (.time h' m' s' u') mx = some 0 ↔ (h = h' ∧ m = m' ∧ s = s' ∧ u = u') := by
  simp only [typedDist, Option.some.injEq, numDist_zero_iff _ _ mx hmx]
  have key : ∀ (a b c d : Nat), c < 1000000 → d < 1000000 →
      (if c = 0 then ((a : Nat) : Rat) else ((a : Nat) : Rat) + (c : Rat) / 1000000) =
      (if d = 0 then ((b : Nat) : Rat) else ((b : Nat) : Rat) + (d : Rat) / 1000000) → a = b ∧ c = d := by
    intro a b c d hc hd h
    have e : ((a * 1000000 + c : Nat) : Rat) = ((b * 1000000 + d : Nat) : Rat) := by
      push_cast
      by_cases hc0 : c = 0 <;> by_cases hd0 : d = 0 <;> simp only [hc0, hd0, if_true, if_false] at h ⊢ <;>
        (try simp only [Nat.cast_zero, add_zero]) <;> linarith
    have e' : a * 1000000 + c = b * 1000000 + d := by exact_mod_cast e
    omega
  unfold timeToSeconds
  constructor
  · intro h1
    obtain ⟨e1, e2⟩ := key _ _ _ _ hu hu' h1
    refine ⟨?_, ?_, ?_, e2⟩ <;> omega
  · rintro ⟨rfl, rfl, rfl, rfl⟩
    rfl

/-- the fix of finding F24, in the model: times that differ only in microseconds have a positive distance -/
theorem C19_time_microseconds (ordOf : Int → Int) :
    typedDist ordOf (.time 1 2 3 1) (.time 1 2 3 2) 1 ≠ some 0 := by
  intro h
  have := (C19_time_zero ordOf 1 (by norm_num) 1 2 3 1 1 2 3 2 (by norm_num) (by norm_num) (by norm_num) (by norm_num) (by norm_num) (by norm_num)).1 h
  omega

/-- **Negative witness (finding F25).** A datetime and a date on the same day have distance 0
although they are different values: both are `date` instances, so the ordinal distance is used. -/
theorem C19_N_datetime_vs_date (ordOf : Int → Int) (us d : Int) (h : ordOf us = d) :
    typedDist ordOf (.datetime us) (.date d) 1 = some 0 := by
  simp [typedDist, numDist, h]

/-- the dispatch order the model follows is the one in the source (regenerated each run) -/
theorem C19_dispatch_order :
    Gen.typesToDistFunc.map (·.1) =
      ["only_numbers", "datetime.datetime", "datetime.date", "datetime.timedelta", "datetime.time"] := by
  decide

/-! Non-vacuity. -/
example : numDist 3 5 1 = 1 / 4 := by
  simp only [numDist, minR, absR]; norm_num
example : numDist 1 (-1) (3 / 10) = 3 / 10 := by
  simp only [numDist]; norm_num


/-! ## deep_distance (ordered comparison) -/

open Py Diff Delta

/-- the number of leaves `_get_item_length` counts in a value never exceeds the count DeepHash keeps for it: a value that is
added, removed or replaces another as a whole adds at most its own share of the denominator to the numerator -/
theorem C19_item_length_le_count (ip : Bool) (v : PyVal) : itemLen v ≤ roughLen ip v := itemLen_le_roughLen ip v

/-- the denominator is made of the counts of the hash model (the model of C06 / C07), for every hasher and option set -/
theorem C19_rough_length_is_hash_count (cfg : Hash.HCfg) (H : String → String) (v : PyVal) :
    (Hash.hashV cfg H v).2 = roughLen cfg.ignorePrivate v := roughLen_eq_count cfg H v

/-- **deep_distance of nested dictionaries lies in [0, 1] when the diff has no type change** (string keys at every level, scalar
leaves, any depth and width; every plain ordered configuration and threshold, "too different" sub-dictionaries replaced as a
whole included): numerator ≤ denominator, and the denominator is positive.  With type changes the numerator exceeds the
denominator by at most their number (each adds the two type objects and the new value, against a share of at least 2). -/
theorem C19_deep_distance_nested_dicts (cfg : DCfg) (hp : Diff.Plain cfg) (al : Align) (hashOf : PyVal → String) (a b : PyVal)
    (ja : J cfg.ignorePrivate a) (jb : J cfg.ignorePrivate b) :
    (deepDistance cfg al hashOf a b).1 ≤ (deepDistance cfg al hashOf a b).2 +
        (buildDelta true false a b (deepDiff cfg al hashOf a b)).typeChanges.length ∧
    0 < (deepDistance cfg al hashOf a b).2 ∧
    ((buildDelta true false a b (deepDiff cfg al hashOf a b)).typeChanges = [] →
      (deepDistance cfg al hashOf a b).1 ≤ (deepDistance cfg al hashOf a b).2) := by
  obtain ⟨h1, h2⟩ := J_deep_distance hp al hashOf a b ja jb
  refine ⟨h1, by omega, fun h0 => ?_⟩
  rw [h0] at h1
  simpa using h1

/-- **deep_distance of two lists of scalars compared position by position** (`zip_ordered_iterables=True`): numerator ≤ denominator
+ number of type changes, and the denominator is the two lengths plus the two containers; so without a type change the
distance lies in [0, 1] -/
theorem C19_deep_distance_positional_lists (cfg : DCfg) (hp : Diff.Plain cfg) (hz : cfg.zip = true) (al : Align) (hashOf : PyVal → String)
    (xs ys : List PyVal) (hbx : ∀ x ∈ xs, isBasic x = true) (hby : ∀ y ∈ ys, isBasic y = true) :
    (deepDistance cfg al hashOf (.list xs) (.list ys)).1 ≤ (deepDistance cfg al hashOf (.list xs) (.list ys)).2 +
        (buildDelta true false (.list xs) (.list ys) (deepDiff cfg al hashOf (.list xs) (.list ys))).typeChanges.length ∧
    (deepDistance cfg al hashOf (.list xs) (.list ys)).2 = xs.length + ys.length + 2 :=
  list_deep_distance cfg hp hz al hashOf xs ys hbx hby

/-- **positive when the diff is non-empty**, for nested dictionaries every part of which `_get_item_length` counts (`AllPos`: no `None`,
no empty dictionary, no key with a leading underscore -- the inputs of findings F17a-c are exactly the ones this excludes): the
numerator, hence the reported distance, is > 0 -/
theorem C19_deep_distance_positive_nested_dicts (cfg : DCfg) (hp : Diff.Plain cfg) (al : Align) (hashOf : PyVal → String) (a b : PyVal)
    (ja : J cfg.ignorePrivate a) (jb : J cfg.ignorePrivate b) (pa : AllPos a) (pb : AllPos b)
    (hne : (deepDiff cfg al hashOf a b).tree ≠ []) :
    0 < (deepDistance cfg al hashOf a b).1 := by
  have hcats := (J_tree_facts hp al hashOf (sizeOf a) a b (Nat.le_refl _) ja jb).1
  obtain ⟨h1, _⟩ := payloadLen_of_cats (diffV cfg al hashOf [] a b).tree a b hcats
  rw [J_deepDiff hp al hashOf a b ja jb] at hne
  unfold deepDistance
  rw [J_diffUnmerged hp al hashOf a b ja jb, h1]
  exact J_deep_pos hp al hashOf (sizeOf a) a b (Nat.le_refl _) ja jb pa pb hne

/-- the positivity domain is inhabited by values of depth two -/
example : AllPos (.dict [(.str "a", .int 1), (.str "b", .dict [(.str "x", .str "u")])]) := by
  refine AllPos.dict (by simp) ?_ ?_
  · intro p hp; simp at hp
    rcases hp with rfl | rfl <;> simp [internalKey] <;> try decide
  · intro p hp; simp at hp
    rcases hp with rfl | rfl
    · exact AllPos.leaf rfl (by simp)
    · refine AllPos.dict (by simp) ?_ ?_
      · intro q hq; simp at hq; subst hq; simp [internalKey]; try decide
      · intro q hq; simp at hq; subst hq; exact AllPos.leaf rfl (by simp)

/-- the property is **false** where the code is (finding F13a): `DeepDiff(1, '', get_deep_distance=True)` has numerator 3
(two type objects and the new value) over denominator 2 -/
theorem C19_N_deep_distance_exceeds_one (cfg : DCfg) (hp : Diff.Plain cfg) (al : Align) (hashOf : PyVal → String) :
    deepDistance cfg al hashOf (.int 1) (.str "") = (3, 2) := by
  have ja : J cfg.ignorePrivate (.int 1) := J.basic rfl
  have jb : J cfg.ignorePrivate (.str "") := J.basic rfl
  have hcats := (J_tree_facts hp al hashOf _ (.int 1) (.str "") (Nat.le_refl _) ja jb).1
  obtain ⟨h1, _⟩ := payloadLen_of_cats (diffV cfg al hashOf [] (.int 1) (.str "")).tree (.int 1) (.str "") hcats
  have hne : Int.repr 1 ≠ "" := by decide
  unfold deepDistance
  rw [J_diffUnmerged hp al hashOf _ _ ja jb, h1, diffV_basic cfg al hashOf [] _ _ rfl]
  simp [treeLen, catMap, tcF, sidePath, typeName, castTo, pyEq, sumBy, changeLen, optLen, itemLen, roughLen, hne]

/-- a leaf that `_get_item_length` does not count (`None`, an empty container, a value under a key with a leading underscore)
contributes nothing: the model of findings F17a–c -/
theorem C19_N_uncounted_leaves : itemLen .none = 0 ∧ itemLen (.list []) = 0 ∧ itemLen (.dict [(.str "_a", .int 5)]) = 0 := by
  refine ⟨rfl, rfl, ?_⟩
  have h : internalKey (.str "_a") = true := by
    simp only [internalKey, Bool.or_eq_true]
    exact Or.inl (Or.inl (by rw [String.startsWith_string_iff]; exact ⟨['a'], by decide⟩))
  simp [itemLen, itemLenKV, h]

/-- **positive when the diff of two lists compared position by position is non-empty**, for scalar items other than `None`: a changed
position counts its new value (a type change its two types as well), a removed or added tail its items -/
theorem C19_deep_distance_positive_positional_lists (cfg : DCfg) (hp : Diff.Plain cfg) (hz : cfg.zip = true) (al : Align) (hashOf : PyVal → String)
    (xs ys : List PyVal) (hbx : ∀ x ∈ xs, isBasic x = true ∧ x ≠ .none) (hby : ∀ y ∈ ys, isBasic y = true ∧ y ≠ .none)
    (hne : (deepDiff cfg al hashOf (.list xs) (.list ys)).tree ≠ []) :
    0 < (deepDistance cfg al hashOf (.list xs) (.list ys)).1 :=
  list_deep_pos cfg hp hz al hashOf xs ys hbx hby hne

/-- the hypotheses of the positional positivity theorem are met by a configuration and a pair with a value change and an added tail -/
example (al : Align) (hashOf : PyVal → String) :
    Diff.Plain ({ zip := true } : DCfg) ∧
    (deepDiff ({ zip := true } : DCfg) al hashOf (.list [.int 1, .str "a"]) (.list [.int 2, .str "a", .float 15 1])).tree ≠ [] := by
  have hp : Diff.Plain ({ zip := true } : DCfg) := ⟨rfl, rfl, rfl⟩
  refine ⟨hp, ?_⟩
  rw [list_deepDiff_of_tree _ hp al hashOf _ _ (list_diffV_zip _ hp rfl al hashOf _ _ (by simp [isBasic]))]
  simp [listT]

/-- **deep_distance of two sets of scalars**: the numerator is the number of counted members removed or added (`_diff_set` decides
membership by the item hash `hashOf`, any hash), the denominator the two sizes plus the two containers, and the numerator stays
2 below it: the distance lies in [0, 1) -/
theorem C19_deep_distance_sets (cfg : DCfg) (hp : Diff.Plain cfg) (al : Align) (hashOf : PyVal → String)
    (xs ys : List PyVal) (hbx : ∀ x ∈ xs, isBasic x = true) (hby : ∀ y ∈ ys, isBasic y = true) :
    (deepDistance cfg al hashOf (.set xs) (.set ys)).1 = itemLenL (setRemovedL hashOf xs ys) + itemLenL (setAddedL hashOf xs ys) ∧
    (deepDistance cfg al hashOf (.set xs) (.set ys)).2 = xs.length + ys.length + 2 ∧
    (deepDistance cfg al hashOf (.set xs) (.set ys)).1 + 2 ≤ (deepDistance cfg al hashOf (.set xs) (.set ys)).2 :=
  set_deep_distance cfg hp al hashOf xs ys hbx hby

/-- the same for frozensets -/
theorem C19_deep_distance_frozensets (cfg : DCfg) (hp : Diff.Plain cfg) (al : Align) (hashOf : PyVal → String)
    (xs ys : List PyVal) (hbx : ∀ x ∈ xs, isBasic x = true) (hby : ∀ y ∈ ys, isBasic y = true) :
    (deepDistance cfg al hashOf (.frozenset xs) (.frozenset ys)).1 = itemLenL (setRemovedL hashOf xs ys) + itemLenL (setAddedL hashOf xs ys) ∧
    (deepDistance cfg al hashOf (.frozenset xs) (.frozenset ys)).2 = xs.length + ys.length + 2 ∧
    (deepDistance cfg al hashOf (.frozenset xs) (.frozenset ys)).1 + 2 ≤ (deepDistance cfg al hashOf (.frozenset xs) (.frozenset ys)).2 :=
  frozenset_deep_distance cfg hp al hashOf xs ys hbx hby

/-- **positive when the diff of two sets is non-empty**, for scalar members other than `None` (which counts nothing: F17a) -/
theorem C19_deep_distance_positive_sets (cfg : DCfg) (hp : Diff.Plain cfg) (al : Align) (hashOf : PyVal → String)
    (xs ys : List PyVal) (hbx : ∀ x ∈ xs, isBasic x = true ∧ x ≠ .none) (hby : ∀ y ∈ ys, isBasic y = true ∧ y ≠ .none)
    (hne : (deepDiff cfg al hashOf (.set xs) (.set ys)).tree ≠ []) :
    0 < (deepDistance cfg al hashOf (.set xs) (.set ys)).1 :=
  set_deep_pos cfg hp al hashOf xs ys hbx hby hne

/-- ... and of two frozensets -/
theorem C19_deep_distance_positive_frozensets (cfg : DCfg) (hp : Diff.Plain cfg) (al : Align) (hashOf : PyVal → String)
    (xs ys : List PyVal) (hbx : ∀ x ∈ xs, isBasic x = true ∧ x ≠ .none) (hby : ∀ y ∈ ys, isBasic y = true ∧ y ≠ .none)
    (hne : (deepDiff cfg al hashOf (.frozenset xs) (.frozenset ys)).tree ≠ []) :
    0 < (deepDistance cfg al hashOf (.frozenset xs) (.frozenset ys)).1 :=
  frozenset_deep_pos cfg hp al hashOf xs ys hbx hby hne

/-- the excluded member is a real exception: `{None}` against the empty set has a non-empty diff and numerator 0 (F17a on sets) -/
theorem C19_N_set_of_none (cfg : DCfg) (hp : Diff.Plain cfg) (al : Align) (hashOf : PyVal → String) :
    (deepDiff cfg al hashOf (.set [.none]) (.set [])).tree ≠ [] ∧ (deepDistance cfg al hashOf (.set [.none]) (.set [])).1 = 0 := by
  refine ⟨?_, ?_⟩
  · rw [set_deepDiff cfg hp al hashOf, diffSet_root]
    simp [setAddedL, setRemovedL]
  · rw [(set_deep_distance cfg hp al hashOf [.none] [] (by simp [isBasic]) (by simp)).1]
    simp [setAddedL, setRemovedL, itemLenL, itemLen]

end Dist
