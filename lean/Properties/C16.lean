import Proofs.Search
/-!
# C16 — DeepSearch reports exactly the matching locations

Model: `Model/Search/Search.lean` (`__search`, `__search_dict`, `__search_iterable`, `__search_str`,
`__search_numbers`, `__skip_this`).  `env.re` is the compiled item's `search`, `env.exRe` the
`exclude_regex_paths` test: both arbitrary predicates.  `Reach` (in `Proofs/Search.lean`) is the
declarative notion of a location that can be reached from the object without passing through an
excluded path or type.
-/
namespace Search
open Py

/-- **Soundness.** Every `matched_values` hit names a location that is reachable without crossing
an exclusion, holds exactly the reported value, that value is a leaf and matches the item under
the chosen mode; every `matched_paths` hit is a child of a reachable dictionary, not excluded
itself, whose path text matches. For every object (any size and nesting), scalar item, mode and
exclusion set. -/
theorem C16_sound (c : SCfg) (env : SEnv) (obj item : PyVal) (hi : scalarItem item = true) :
    ∀ h ∈ deepSearch c env obj item, HitOK c env (effCS c item) (prepItem c item) obj "root" [] h := by
  intro h hh
  exact search_sound c env _ _ (prep_scalar c item hi) obj "root" [] h hh

/-- **Completeness for values.** Every leaf that matches under the mode and is reachable without
crossing an exclusion is reported under `matched_values`, with its path text. -/
theorem C16_complete (c : SCfg) (env : SEnv) (obj item : PyVal) (hi : scalarItem (prepItem c item) = true)
    (rel : List PyVal) (p : String) (v : PyVal)
    (hr : Reach c env obj "root" rel p v) (hl : isLeaf v = true)
    (hm : leafMatch c env (effCS c item) (prepItem c item) v = true) :
    (⟨false, p, rel, v⟩ : Hit) ∈ deepSearch c env obj item := by
  have := values_complete c env _ _ hi hr hl hm []
  simpa [deepSearch] using this

/-- **`matched_paths` are exactly the matching dictionary children** (completeness half; the
soundness half is in `C16_sound`). -/
theorem C16_paths_complete (c : SCfg) (env : SEnv) (obj item : PyVal) (hi : scalarItem (prepItem c item) = true)
    (rel : List PyVal) (pp : String) (kvs : List (PyVal × PyVal)) (k v : PyVal)
    (hr : Reach c env obj "root" rel pp (.dict kvs)) (hm : (k, v) ∈ kvs)
    (hs : skipThis c env v (childPath pp k) = false)
    (hpm : pathMatch c env (effCS c item) (prepItem c item) (childPath pp k) = true) :
    (⟨true, childPath pp k, rel ++ [k], v⟩ : Hit) ∈ deepSearch c env obj item := by
  have := paths_complete c env _ _ hi hr hm hs hpm []
  simpa [deepSearch] using this

/-- **Exclusions.** No reported location is excluded: its own path is not in `exclude_paths`, does
not match an exclude regex, and its value is not of an excluded type. -/
theorem C16_excluded_never (c : SCfg) (env : SEnv) (obj item : PyVal) (hi : scalarItem item = true) :
    ∀ h ∈ deepSearch c env obj item, skipThis c env h.val h.path = false := by
  intro h hh
  have hok := C16_sound c env obj item hi h hh
  cases hp : h.isPath with
  | false =>
    obtain ⟨rel, _, hr, _, _⟩ := hok.1 hp
    exact hr.tail_open
  | true =>
    obtain ⟨_, _, _, _, _, _, _, _, hs, _⟩ := hok.2 hp
    exact hs

/-- the equality shortcut of `__search_iterable` never reports anything the mode would not -/
theorem C16_shortcut_sound (c : SCfg) (env : SEnv) (cs : Bool) (item x : PyVal) (hi : scalarItem item = true)
    (hr : c.useRegexp = false) (h : pyEq (casedThing cs x) item = true) :
    isLeaf x = true ∧ leafMatch c env cs item x = true :=
  shortcut_sound c env cs item x hi hr h

/-- the processed item of a scalar item is a scalar (so the completeness theorems apply to every
scalar item) -/
theorem C16_prep_scalar (c : SCfg) (item : PyVal) (hi : scalarItem item = true) : scalarItem (prepItem c item) = true :=
  prep_scalar c item hi

/-! Non-vacuity: `DeepSearch({'a': ['x', 5]}, 5)` reaches the leaf `5` at `root['a'][1]`. -/
example : (⟨false, "root['a'][1]", [.str "a", .int 1], .int 5⟩ : Hit) ∈
    deepSearch {} {} (.dict [(.str "a", .list [.str "x", .int 5])]) (.int 5) := by
  apply C16_complete {} {} _ _ rfl
  · refine Reach.dict _ _ (.str "a") (.list [.str "x", .int 5]) _ _ _ ?_ (by simp) ?_
    · simp [skipThis]
    · refine Reach.seq _ [.str "x", .int 5] _ 1 (.int 5) [] _ _ rfl ?_ rfl ?_
      · simp [skipThis]
      · have : indexPath (childPath "root" (.str "a")) 1 = "root['a'][1]" := by decide
        rw [this]
        exact Reach.here _ _ (by simp [skipThis])
  · rfl
  · simp [leafMatch, numMatch, prepItem, isNumber, pyEq, numEq, numOf]

end Search
