import Proofs.Faithful
import Model.Diff.Text
/-!
# C04 — every reported entry is backed by the inputs (default alignment mode)

Model: `Model/Diff/Ordered.lean`; resolution = `Model/Diff/Resolve.lean` (`follow` = what `extract`
does with the parsed path, C09).  The theorems hold for **every** alignment oracle `al` (valid or
not: the index bookkeeping `i + t1_from_index`, `i + t2_from_index` is right for any opcode list),
both alignment modes, every threshold, whichever of the two passes wins, any size and nesting.
-/
namespace Diff
open Py

/-- Before the add/remove fold: every non-set entry of the diff of two well-formed values extends
the root steps, its t1 is the object the t1-side params lead to in `a` and its t2 the object the
t2-side params lead to in `b` — changed values and types, added / removed dictionary and iterable
items, moved items alike. -/
theorem C04_faithful (cfg : DCfg) (al : Align) (hashOf : PyVal → String) (a b : PyVal)
    (ha : wf a = true) (hb : wf b = true) :
    ∀ e ∈ keepReported cfg (diffV cfg al hashOf [] a b).tree, isSetCat e.1 = false → Backed a b [] e := by
  intro e he hns
  exact diffV_backed cfg al hashOf a b [] ha hb e (List.mem_filter.1 he).1 hns

/-- set items are members of the respective set (they have no path of their own) -/
theorem C04_set_items (hashOf : PyVal → String) (steps : List Step) (xs ys : List PyVal) :
    ∀ e ∈ diffSet hashOf steps xs ys,
      (e.1 = .setAdded ∧ ∃ y ∈ ys, e.2.t2 = some y ∧ hashOf y ∉ xs.map hashOf) ∨
      (e.1 = .setRemoved ∧ ∃ x ∈ xs, e.2.t1 = some x ∧ hashOf x ∉ ys.map hashOf) := by
  intro e he
  simp only [diffSet, List.mem_append, List.mem_map, List.mem_filter] at he
  rcases he with ⟨y, ⟨hy, hn⟩, rfl⟩ | ⟨x, ⟨hx, hn⟩, rfl⟩
  · left; exact ⟨rfl, y, hy, rfl, by simpa using hn⟩
  · right; exact ⟨rfl, x, hx, rfl, by simpa using hn⟩

/-- The fold of an added and a removed item into `values_changed`: every entry of the final tree is
either an entry of the unfolded tree, or a fold whose t1 and steps come from a removed entry and whose
t2 comes from an added entry that renders to the **same path string** — so the reported path resolves
in t1 to the old value and in t2 to the new value. -/
theorem C04_merged (t : Tree) : ∀ e ∈ mutualAddRemoves t,
    e ∈ t ∨ ∃ r ∈ t, ∃ ad ∈ t, r.1 = .iterRemoved ∧ ad.1 = .iterAdded ∧ e.1 = .valuesChanged ∧
      e.2.steps = r.2.steps ∧ e.2.t1 = r.2.t1 ∧ e.2.t2 = ad.2.t2 ∧
      pathStr ad.2.steps false = pathStr r.2.steps false := by
  intro e he
  simp only [mutualAddRemoves, List.mem_append, List.mem_filter, List.mem_filterMap] at he
  rcases he with ⟨he, _⟩ | ⟨r, ⟨hr, hrc⟩, hsome⟩
  · exact Or.inl he
  · split at hsome
    · split at hsome
      · rename_i ad hfind
        simp at hsome; subst hsome
        have hadm := List.mem_of_find?_eq_some hfind
        have hpath := List.find?_some hfind
        simp only [List.mem_filter] at hadm
        right
        refine ⟨r, hr, ad, hadm.1, by simpa using hrc, by simpa using hadm.2, rfl, rfl, rfl, rfl, by simpa using hpath⟩
      · cases hsome
    · cases hsome

/-- **Only locations that have a string form are folded** (finding F68, repaired): a fold comes from a removed entry whose path
renders (`isSome`), so two entries that merely share the absence of a path -- items of two different lists under keys without a
literal form -- are never taken for one location. -/
theorem C04_merged_has_path (t : Tree) : ∀ e ∈ mutualAddRemoves t,
    e ∈ t ∨ ∃ r ∈ t, r.1 = .iterRemoved ∧ e.2.steps = r.2.steps ∧ (pathStr r.2.steps false).isSome = true := by
  intro e he
  simp only [mutualAddRemoves, List.mem_append, List.mem_filter, List.mem_filterMap] at he
  rcases he with ⟨he, _⟩ | ⟨r, ⟨hr, hrc⟩, hsome⟩
  · exact Or.inl he
  · split at hsome
    · rename_i hm
      split at hsome
      · simp at hsome; subst hsome
        right
        refine ⟨r, hr, by simpa using hrc, rfl, ?_⟩
        simp only [Bool.and_eq_true] at hm
        exact hm.1.1
      · cases hsome
    · cases hsome

/-- ... and an entry at a location without a string form is kept as it is -/
theorem C04_pathless_kept (t : Tree) (e : Cat × Level) (he : e ∈ t) (hp : pathStr e.2.steps false = none) :
    e ∈ mutualAddRemoves t := by
  simp only [mutualAddRemoves, List.mem_append, List.mem_filter]
  left
  refine ⟨he, ?_⟩
  simp [hp]

/-- such locations exist in the model: an item of a list under a tuple key has no string path -/
example : pathStr [⟨.dict, some (.tuple [.int 1, .int 2]), some (.tuple [.int 1, .int 2])⟩, ⟨.iter, some (.int 2), some (.int 2)⟩] false = none := by
  simp [pathStr, pathChars, Step.param, toPathKey]

/-- a changed leaf really differs: different text, or numerically unequal numbers -/
theorem C04_leaf_differs (steps : List Step) (a b : PyVal) :
    ∀ e ∈ leafDiff steps a b, e.1 = .valuesChanged ∧ e.2.t1 = some a ∧ e.2.t2 = some b ∧
      ((∃ s t, strText a = some s ∧ strText b = some t ∧ s ≠ t) ∨ numEq a b = false) := by
  intro e he
  unfold leafDiff at he
  split at he
  · split at he <;> simp at he
    rename_i hne; subst he
    exact ⟨rfl, rfl, rfl, Or.inl ⟨_, _, rfl, rfl, by simpa using hne⟩⟩
  · split at he <;> simp at he
    rename_i hne; subst he
    exact ⟨rfl, rfl, rfl, Or.inl ⟨_, _, rfl, rfl, by simpa using hne⟩⟩
  · simp at he
  · split at he <;> simp at he
    rename_i hne
    subst he
    exact ⟨rfl, rfl, rfl, Or.inr (by simpa using hne)⟩

/-- the difflib alignment of the F15 witness (a valid alignment: what `get_opcodes()` returns) -/
def f15Align : Align := fun _ _ =>
  [⟨"equal", 0, 3, 0, 3⟩, ⟨"insert", 3, 3, 3, 5⟩, ⟨"equal", 3, 4, 5, 6⟩, ⟨"delete", 4, 5, 6, 6⟩, ⟨"equal", 5, 7, 6, 8⟩]

/-- if the unfolded tree has a removed and an added iterable item that render to the same path, the
final tree contains their fold: a `values_changed` from the removed item's value to the added item's -/
theorem C04_fold_present (t : Tree) (r ad : Cat × Level) (hr : r ∈ t) (ha : ad ∈ t) (hrc : r.1 = .iterRemoved)
    (hac : ad.1 = .iterAdded) (hp : pathStr ad.2.steps false = pathStr r.2.steps false)
    (hsome : (pathStr r.2.steps false).isSome = true) :
    ∃ e ∈ mutualAddRemoves t, e.1 = .valuesChanged ∧ e.2.t1 = r.2.t1 ∧ ∃ ad' ∈ t, ad'.1 = .iterAdded ∧
      pathStr ad'.2.steps false = pathStr r.2.steps false ∧ e.2.t2 = ad'.2.t2 := by
  have h2 : (t.filter (fun e => e.1 == Cat.iterAdded)).any (fun e => pathStr e.2.steps false == pathStr r.2.steps false) = true :=
    List.any_eq_true.2 ⟨ad, List.mem_filter.2 ⟨ha, by simp [hac]⟩, by simp [hp]⟩
  have h3 : (t.filter (fun e => e.1 == Cat.iterRemoved)).any (fun e => pathStr e.2.steps false == pathStr r.2.steps false) = true :=
    List.any_eq_true.2 ⟨r, List.mem_filter.2 ⟨hr, by simp [hrc]⟩, by simp⟩
  cases hfd : (t.filter (fun e => e.1 == Cat.iterAdded)).find? (fun a => pathStr a.2.steps false == pathStr r.2.steps false) with
  | none =>
    have := List.find?_eq_none.1 hfd ad (List.mem_filter.2 ⟨ha, by simp [hac]⟩)
    simp [hp] at this
  | some ad' =>
    have hadm := List.mem_of_find?_eq_some hfd
    have hadp := List.find?_some hfd
    simp only [List.mem_filter] at hadm
    refine ⟨(Cat.valuesChanged, { r.2 with t2 := ad'.2.t2 }), ?_, rfl, rfl, ad', hadm.1, by simpa using hadm.2, by simpa using hadp, rfl⟩
    simp only [mutualAddRemoves, List.mem_append, List.mem_filterMap, List.mem_filter]
    right
    refine ⟨r, ⟨hr, by simp [hrc]⟩, ?_⟩
    simp only [hsome, h2, h3, Bool.and_self, ↓reduceIte, hfd]

set_option maxRecDepth 4000 in
/-- **Negative witness (finding F15).** `[0,'a','a',2,'',0,2]` vs `[0,'a','a','a','',2,0,2]`: the
difflib pass wins (3 entries against 4); its insert puts `''` at t2 index 4 and its delete removes
`''` at t1 index 4.  Both entries render to `root[4]`, so by `C04_fold_present` they are folded into
a `values_changed` whose old and new value are both `''`. -/
theorem C04_N_fold_equal :
    let t := (diffV {} f15Align (fun _ => "") []
        (.list [.int 0, .str "a", .str "a", .int 2, .str "", .int 0, .int 2])
        (.list [.int 0, .str "a", .str "a", .str "a", .str "", .int 2, .int 0, .int 2])).tree
    t.any (fun e => e.1 == Cat.iterRemoved && (e.2.steps.map (fun s => (s.p1.any (strictEq · (.int 4)), s.p2.isNone))) == [(true, true)]
            && e.2.t1.any (strictEq · (.str ""))) = true ∧
    t.any (fun e => e.1 == Cat.iterAdded && (e.2.steps.map (fun s => (s.p2.any (strictEq · (.int 4)), s.p1.isNone))) == [(true, true)]
            && e.2.t2.any (strictEq · (.str ""))) = true := by
  constructor <;>
  simp [diffV, iterInOrder, f15Align, opcodeEntries, keepReported, skipSteps, skipPath, pairBasic, leafDiff, isBasic,
    removedLevel, addedLevel, pyEq, numEq, numOf, typeName, List.zipIdx, pow10, strictEq]

end Diff
