import Proofs.PickleEnc
import Proofs.Pickle
/-!
# C14 — a persisted delta behaves identically to the original

Model: `Model/Pickle/Encode.lean` (the pickler as `Delta.dumps` drives it) and `Model/Pickle/VM.lean`
(the restricted unpickler).  A delta's behaviour is a function of its payload (`Delta.__add__`
reads `self.diff` only; the constructor flags are passed again on reload), so the theorems are
about the payload surviving `load ∘ dump`, for **every** payload in the delta vocabulary
(`encodable`: arbitrary nesting and size; plain data, types as values, `NoneType`, objects pickled
through `__reduce_ex__`), every extension-cache state and every allow-list that contains the
payload's globals.
-/
namespace Pickle

/-- `pickle_load(pickle_dump(p)) = p` -/
theorem C14_pickle_roundtrip (c : Cfg) (cache : List (Int × PObj)) (o : PObj) (h : encodable c o = true) :
    ∃ s', run c { extCache := cache } (dump o) = .ok (o, s') := by
  obtain ⟨s', he, hl⟩ := enc_ok c o h { extCache := cache }
  refine ⟨s', ?_⟩
  have hr := run_of_execOps (enc_nostop o) he
  rw [hl.1] at hr
  simp only [dump, run, step]
  simpa using hr

/-- every dump of an encodable payload loads: never `ForbiddenModule`, never a VM error -/
theorem C14_dump_loads (c : Cfg) (cache : List (Int × PObj)) (o : PObj) (h : encodable c o = true) :
    ∀ e, run c { extCache := cache } (dump o) ≠ .error e := by
  obtain ⟨s', hs⟩ := C14_pickle_roundtrip c cache o h
  intro e he; rw [hs] at he; cases he

/-- dumping what was loaded gives the same program again (repeated dump/load cycles are stable) -/
theorem C14_idempotent (c : Cfg) (cache : List (Int × PObj)) (o o' : PObj) (s' : St)
    (h : encodable c o = true) (hl : run c { extCache := cache } (dump o) = .ok (o', s')) :
    dump o' = dump o := by
  obtain ⟨s1, hs⟩ := C14_pickle_roundtrip c cache o h
  rw [hs] at hl; cases hl; rfl

/-- whatever is computed from the payload (applying the delta to any base, in either direction)
is the same for the reloaded delta -/
theorem C14_same_behaviour {β : Type} (apply : PObj → β) (c : Cfg) (cache : List (Int × PObj))
    (o o' : PObj) (s' : St) (h : encodable c o = true)
    (hl : run c { extCache := cache } (dump o) = .ok (o', s')) : apply o' = apply o := by
  obtain ⟨s1, hs⟩ := C14_pickle_roundtrip c cache o h
  rw [hs] at hl; cases hl; rfl

/-- the globals a Delta payload of supported value types refers to are on the shipped allow-list
(regenerated from the source): types reported in `type_changes`, the `Opcode` records, and the
constructors `__reduce_ex__` names for Decimal, datetime/date/time/timedelta/timezone, UUID,
complex, range, slice, OrderedDict.  (`bytearray` is the known exception, finding F21.) -/
theorem C14_own_globals_allowed :
    ∀ g ∈ ["builtins.int", "builtins.str", "builtins.float", "builtins.bool", "builtins.list", "builtins.dict",
            "builtins.tuple", "builtins.set", "builtins.frozenset", "builtins.bytes", "builtins.complex",
            "builtins.range", "builtins.slice", "decimal.Decimal", "datetime.datetime", "datetime.date",
            "datetime.time", "datetime.timedelta", "datetime.timezone", "uuid.UUID", "collections.OrderedDict",
            "deepdiff.helper.Opcode", "deepdiff.helper.SetOrdered"], g ∈ Gen.safeToImport := by
  decide

/-! Non-vacuity: a payload with a type change (types as values, NoneType), a set, and an Opcode. -/
example : encodable { safe := Gen.safeToImport, env := fun _ _ => .ok, ext := [] }
    (.dict [(.str "type_changes", .dict [(.str "root['a']",
              .dict [(.str "old_type", .noneType), (.str "new_type", .glob "builtins" "int"), (.str "new_value", .int 4)])]),
            (.str "set_item_added", .dict [(.str "root['b']", .set [.int 3, .str "x"])]),
            (.str "_iterable_opcodes", .dict [(.str "root['c']", .list [
              .newobj (.glob "deepdiff.helper" "Opcode") (.tuple [.str "equal", .int 0, .int 1, .int 0, .int 1, .none, .none])])])])
    = true := by
  simp [encodable, encodableP, encodableL, pairwiseNe, keyEq, callable, Gen.safeToImport]
  decide

end Pickle
