import Proofs.Hash
import Proofs.HashMemo
/-!
# C06 — DeepHash: equal content hashes equally

Model: `Model/Hash/Prep.lean` (`hashV` = `_hash` as a pure function of the value; the hasher `H`
is a parameter, nothing is assumed about it here).  All statements hold for values of any size and
nesting, every configuration `cfg` (unless a mode is named) and every hasher.
-/
namespace Hash
open Py

/-- dict insertion order does not matter — in every mode -/
theorem C06_dict_order (cfg : HCfg) (H : String → String) {kvs kvs' : List (PyVal × PyVal)}
    (h : kvs.Perm kvs') : hashV cfg H (.dict kvs) = hashV cfg H (.dict kvs') := by
  obtain ⟨hp, hc⟩ := hashP_perm cfg H h
  simp only [hashV_dict, sortStr_perm hp, hc]

/-- set iteration order (hence the process' string-hash seed) does not matter when
`ignore_iterable_order=True` (the default) -/
theorem C06_set_order (cfg : HCfg) (ho : cfg.ignoreOrder = true) (H : String → String) {xs ys : List PyVal}
    (h : xs.Perm ys) :
    hashV cfg H (.set xs) = hashV cfg H (.set ys) ∧ hashV cfg H (.frozenset xs) = hashV cfg H (.frozenset ys) := by
  obtain ⟨hp, hc⟩ := hashL_perm cfg H h
  simp only [hashV_set, hashV_frozenset, prepIterable_perm cfg ho _ hp, hc, and_self]

/-- in the order-insensitive modes permuting the items of a list or tuple leaves the hash unchanged -/
theorem C06_list_perm (cfg : HCfg) (ho : cfg.ignoreOrder = true) (H : String → String) {xs ys : List PyVal}
    (h : xs.Perm ys) :
    hashV cfg H (.list xs) = hashV cfg H (.list ys) ∧ hashV cfg H (.tuple xs) = hashV cfg H (.tuple ys) := by
  obtain ⟨hp, hc⟩ := hashL_perm cfg H h
  simp only [hashV_list, hashV_tuple, prepIterable_perm cfg ho _ hp, hc, and_self]

/-- congruence: a container's hash depends on its children only through *their* hashes and counts,
so a permutation (or any hash-preserving change) arbitrarily deep inside a value propagates
outwards; with `C06_list_perm`/`C06_dict_order` this gives invariance under permutations at every
depth. -/
theorem C06_congr (cfg : HCfg) (H : String → String) {xs ys : List PyVal} {kvs kvs' : List (PyVal × PyVal)}
    (hL : hashL cfg H xs = hashL cfg H ys) (hP : hashP cfg H kvs = hashP cfg H kvs') :
    hashV cfg H (.list xs) = hashV cfg H (.list ys) ∧ hashV cfg H (.tuple xs) = hashV cfg H (.tuple ys) ∧
    hashV cfg H (.set xs) = hashV cfg H (.set ys) ∧ hashV cfg H (.frozenset xs) = hashV cfg H (.frozenset ys) ∧
    hashV cfg H (.dict kvs) = hashV cfg H (.dict kvs') := by
  simp only [hashV_list, hashV_tuple, hashV_set, hashV_frozenset, hashV_dict, hL, hP, and_self]

/-- two levels deep, as an instance of the above: permuting an inner list inside an outer list -/
theorem C06_inner_perm (cfg : HCfg) (ho : cfg.ignoreOrder = true) (H : String → String)
    (pre post : List PyVal) {xs ys : List PyVal} (h : xs.Perm ys) :
    hashV cfg H (.list (pre ++ [.list xs] ++ post)) = hashV cfg H (.list (pre ++ [.list ys] ++ post)) := by
  have hx := (C06_list_perm cfg ho H h).1
  have : hashL cfg H (pre ++ [.list xs] ++ post) = hashL cfg H (pre ++ [.list ys] ++ post) := by
    induction pre with
    | nil => simp only [List.nil_append, List.singleton_append, List.cons_append, hashL_cons, hx]
    | cons p ps ih => simp only [List.cons_append, List.append_assoc, hashL_cons] at ih ⊢; rw [ih]
  exact (C06_congr cfg H (kvs := []) (kvs' := []) this rfl).1

/-- **Negative witness (finding F19).** With `ignore_iterable_order=False` a set's hash depends on
its iteration order: for every injective hasher with fixed-length digests, two listings of the
same two-element set hash differently. -/
theorem C06_N_set_ordered_mode (H : String → String) (hinj : Function.Injective H) (n : Nat)
    (hlen : ∀ x, (H x).length = n) :
    (hashV { ignoreOrder := false } H (.set [.str "a", .str "b"])).1 ≠
      (hashV { ignoreOrder := false } H (.set [.str "b", .str "a"])).1 := by
  intro heq
  have hu : (hashV { ignoreOrder := false } H (.str "a")).1 = H "str:a" := by
    simp only [hashV, finish, cleanStr, ↓reduceIte, Bool.false_eq_true]; rfl
  have hv : (hashV { ignoreOrder := false } H (.str "b")).1 = H "str:b" := by
    simp only [hashV, finish, cleanStr, ↓reduceIte, Bool.false_eq_true]; rfl
  have hab : H "str:a" ≠ H "str:b" := fun h => by have := hinj h; simp at this
  have d1 : dedupFirst [H "str:a", H "str:b"] = [H "str:a", H "str:b"] := by simp [dedupFirst, Ne.symm hab]
  have d2 : dedupFirst [H "str:b", H "str:a"] = [H "str:b", H "str:a"] := by simp [dedupFirst, hab]
  simp only [hashV_set, hashL, hu, hv, finish, cleanStr, ↓reduceIte, Bool.false_eq_true, prepIterable, countDedup,
    d1, d2, List.map_cons, List.map_nil, joinWith] at heq
  have h1 := hinj heq
  have h2 := congrArg String.toList h1
  simp only [String.toList_append] at h2
  have h3 : (H "str:a").toList ++ ([','] ++ (H "str:b").toList) = (H "str:b").toList ++ ([','] ++ (H "str:a").toList) := by
    simpa [List.append_assoc] using h2
  have hl : (H "str:a").toList.length = (H "str:b").toList.length := by
    simp [String.length_toList, hlen]
  have h4 := (List.append_inj h3 hl).1
  exact hab (String.ext h4)

/-! ### sharing or pre-seeding the hash table

Model: `Model/Hash/Memo.lean` (`hashM` = `_hash` with `self.hashes` threaded through: lookup by `==`
before, store after; compared with the real `DeepHash(v, hashes=table)` digest for digest, aliasing
pairs included). -/

/-- **The memo table is transparent.**  For every table that only holds right answers (`Inv`), every
value of any size and nesting of a universe `U` on which keys the table identifies hash equally
(NoNumAlias): hashing through the table gives the hash computed from scratch, and the table keeps
only right answers. -/
theorem C06_memo_transparent (cfg : HCfg) (H : String → String) (U : PyVal → Prop) (hU : ClosedU U) (hna : NoAlias cfg H U)
    (T : Table) (hT : Inv cfg H U T) (v : PyVal) (hv : U v) :
    (hashM cfg H T v).1 = hashV cfg H v ∧ Inv cfg H U (hashM cfg H T v).2 :=
  memo_V hU hna v T hT hv

/-- the tables of every history: after hashing any sequence of values of `U` into one table, each with
the digest it has on its own, the table still only holds right answers -/
theorem C06_shared_table_history (cfg : HCfg) (H : String → String) (U : PyVal → Prop) (hU : ClosedU U) (hna : NoAlias cfg H U) :
    ∀ (ws : List PyVal) (T : Table), Inv cfg H U T → (∀ w ∈ ws, U w) →
      Inv cfg H U (ws.foldl (fun T w => (hashM cfg H T w).2) T) ∧
      ∀ v, U v → (hashM cfg H (ws.foldl (fun T w => (hashM cfg H T w).2) T) v).1 = hashV cfg H v := by
  intro ws
  induction ws with
  | nil => intro T hT _; exact ⟨hT, fun v hv => (memo_V hU hna v T hT hv).1⟩
  | cons w ws ih =>
    intro T hT hw
    rw [List.foldl_cons]
    exact ih _ (memo_V hU hna w T hT (hw w (List.mem_cons_self ..))).2 (fun x hx => hw x (List.mem_cons_of_mem _ hx))

/-- `DeepHash(w)` then `DeepHash(v, hashes=<the same table>)`: both digests are the ones the values
have on their own -/
theorem C06_preseeded (cfg : HCfg) (H : String → String) (U : PyVal → Prop) (hU : ClosedU U) (hna : NoAlias cfg H U)
    (w v : PyVal) (hw : U w) (hv : U v) : deepHashShared cfg H w v = (hashV cfg H w, hashV cfg H v) := by
  have hI : Inv cfg H U [] := ⟨by intro p hp; simp at hp, by intro p hp; simp at hp⟩
  obtain ⟨h1, h2⟩ := memo_V hU hna w [] hI hw
  obtain ⟨h3, _⟩ := memo_V hU hna v _ h2 hv
  simp only [deepHashShared, h1, h3]

/-- a sufficient condition for `NoAlias`: on `U`, keys the table identifies are the same value -/
theorem C06_noAlias_of_strict (cfg : HCfg) (H : String → String) (U : PyVal → Prop)
    (h : ∀ x y, U x → U y → tblEq x y = true → x = y) : NoAlias cfg H U := by
  intro x y hx hy he
  rw [h x y hx hy he]

/-- **Negative witness (finding F6).** Outside NoNumAlias the table is not transparent: after `1` has
been hashed, `1.0` is answered with the digest of `1` — for every hasher. -/
theorem C06_N_table_alias (H : String → String) :
    (deepHashShared {} H (.int 1) (.float 1 0)).2 = hashV {} H (.int 1) := by
  simp [deepHashShared, hashM, memoize, lookup, tblEq, keyEq, numEq, numOf, pow10, memoisable, hashable]

/-! Non-vacuity: a closed universe with a nested value on which the table identifies only equal keys. -/
example : ClosedU (fun v => v = .list [.str "a", .int 1] ∨ v = .str "a" ∨ v = .int 1) := by
  refine ⟨?_, ?_, ?_, ?_, ?_, ?_⟩ <;> intro xs h <;> rcases h with h | h | h <;> simp_all
example : ∀ x y : PyVal, (x = .list [.str "a", .int 1] ∨ x = .str "a" ∨ x = .int 1) → (y = .list [.str "a", .int 1] ∨ y = .str "a" ∨ y = .int 1) →
    tblEq x y = true → x = y := by
  intro x y hx hy h
  rcases hx with rfl | rfl | rfl <;> rcases hy with rfl | rfl | rfl <;> simp_all [tblEq, keyEq, numEq, numOf]

end Hash
