import Proofs.IgnoreOrder
/-!
# C05 — ignore_order: empty exactly when equal as nested sets / multisets, for all knobs

Model: `Model/Diff/IgnoreOrder.lean`.  The pairing of added with removed items — everything
`cutoff_distance_for_pairs`, `cutoff_intersection_for_pairs`, `max_passes`, `cache_size` and the
rough distances decide — is an arbitrary oracle `P`.  `verdict c hashOf a b` (`Proofs/IgnoreOrder.lean`)
is the pairing-free reading of "equal as nested collections": dictionaries key by key, lists and
tuples by the *set* of item hashes (plus equal multiplicities with `report_repetition`), sets by
member hashes, leaves by type and value.  `HashSoundOn D` (values of the domain `D` that the diff cannot
tell apart hash equally) is the one property of the item hash the proof uses; no injectivity.  It is
proved for the concrete DeepHash model in `Properties/C12.lean` (`C12_hashSound_concrete`).
-/
namespace DiffIO
open Py Diff

/-- **The verdict does not depend on the pairing.** For every pairing oracle, report_repetition
setting, threshold in [0,1], size and nesting: the ignore-order result is empty exactly when the
hash-level nested set / multiset equality holds. -/
theorem C05_verdict (D : PyVal → Prop) (hD : Closed D) (c : IOCfg) (hashOf : PyVal → String) (P : Pairs)
    (hs : HashSoundOn D c hashOf) (hc : c.thrNum ≤ c.thrDen) (t1 t2 : PyVal) (d1 : D t1) (d2 : D t2) :
    (deepDiff c hashOf P t1 t2).tree = [] ↔ verdict c hashOf t1 t2 = true := by
  unfold deepDiff
  split
  · exact diffV_empty_iff D hD c hashOf P hs hc t1 t2 [] d1 d2
  · simp only [mutualAddRemoves_nil_iff]
    exact diffV_empty_iff D hD c hashOf P hs hc t1 t2 [] d1 d2

/-- **Knob independence.** Two runs that differ only in how items are paired (any cutoffs, pass
budget, cache size) agree on whether the result is empty. -/
theorem C05_knob_independent (D : PyVal → Prop) (hD : Closed D) (c : IOCfg) (hashOf : PyVal → String) (P P' : Pairs)
    (hs : HashSoundOn D c hashOf) (hc : c.thrNum ≤ c.thrDen) (t1 t2 : PyVal) (d1 : D t1) (d2 : D t2) :
    (deepDiff c hashOf P t1 t2).tree = [] ↔ (deepDiff c hashOf P' t1 t2).tree = [] :=
  (C05_verdict D hD c hashOf P hs hc t1 t2 d1 d2).trans (C05_verdict D hD c hashOf P' hs hc t1 t2 d1 d2).symm

/-- at the iterable level: nothing reported ⇔ no hash only on one side and (with repetition
reporting) no hash with different multiplicities -/
theorem C05_iterable_level (c : IOCfg) (P : Pairs) (steps : List Step) (t1 t2 : List HEntry) (m : Matrix)
    (hg1 : ∀ e ∈ t1, e.idxs ≠ []) (hg2 : ∀ e ∈ t2, e.idxs ≠ [])
    (hm : ∀ a ∈ addedOf t1 t2, ∀ r ∈ removedOf t1 t2, ∀ p1 p2, (m.get r.idx0 a.idx0 p1 p2).tree ≠ []) :
    (ioIter c P steps t1 t2 m).tree = [] ↔ (addedOf t1 t2 = [] ∧ removedOf t1 t2 = [] ∧ repEntries c [] t1 t2 = []) :=
  ioIter_empty_iff c P steps t1 t2 m hg1 hg2 hm

/-- a paired added / removed item always contributes something to the result -/
theorem C05_pairs_never_empty (D : PyVal → Prop) (hD : Closed D) (c : IOCfg) (hashOf : PyVal → String) (P : Pairs)
    (hs : HashSoundOn D c hashOf) (hc : c.thrNum ≤ c.thrDen)
    (xs ys : List PyVal) (steps : List Step) (hDx : ∀ x ∈ xs, D x) (hDy : ∀ y ∈ ys, D y) :
    ∀ a ∈ addedOf (hashTable hashOf xs) (hashTable hashOf ys), ∀ r ∈ removedOf (hashTable hashOf xs) (hashTable hashOf ys), ∀ p1 p2,
      ((rows c hashOf P steps xs ys).get r.idx0 a.idx0 p1 p2).tree ≠ [] :=
  iter_pairs_nonempty D c hashOf P hs hc xs ys steps hDx hDy (diffVL_sound D hD c hashOf P hs hc xs)

/-- the final merging of an added and a removed item at one path into a change cannot empty a result -/
theorem C05_merge_keeps_emptiness (t : Tree) : mutualAddRemoves t = [] ↔ t = [] := mutualAddRemoves_nil_iff t

/-! Non-vacuity: a two-letter "hash" on two scalars; `[1, 2]` and `[2, 1, 1]` are equal as sets. -/
example : verdict {} (fun v => match v with | .int 1 => "a" | .int 2 => "b" | _ => "?") (.list [.int 1, .int 2]) (.list [.int 2, .int 1, .int 1]) = true := by
  simp [verdict, hashTable, addedOf, removedOf, repEntries, List.zipIdx]

end DiffIO
