import Proofs.Diff
import Proofs.Filter
import Model.Diff.Text
/-!
# C13 — exclude_paths / exclude_regex_paths / include_paths act as pure filters

Machine-checked here: **`exclude_paths` is a pure filter in positional mode** (`C13_exclude_is_filter`:
the restricted result is the unrestricted result minus the entries at or below an excluded path, for
every pair of values, every set of excluded paths, any size and nesting), how the model's skip tests
decide (literal exclusion is exact membership of the level's path; an excluded child contributes
nothing; reported entries are filtered by the same test), and the two boundary witnesses.  The same
equation holds for every restriction of the exclusion kind (`C13_restriction_is_filter`), in particular for
anchored `exclude_regex_paths` alone or combined with `exclude_paths` (`C13_exclude_regex_is_filter`).  For
general regular expressions, `include_paths` and the default alignment mode the property is decided on the
implementation by the harness, with the model compared under the same options.
-/
namespace Diff
open Py

/-- with only `exclude_paths` given, a level is skipped exactly when its path is one of them -/
theorem C13_skip_exclude_only (cfg : DCfg) (hi : cfg.incl = []) (hr : cfg.excludePrefix = []) (p : String) :
    skipPath cfg (some p) = cfg.exclude.contains p := by
  simp only [skipPath, hi, hr, List.isEmpty_nil, Bool.not_true, Bool.false_and, Bool.false_eq_true, ↓reduceIte,
    Option.getD_some, Option.isSome_some, Bool.and_true]
  cases h : cfg.exclude with
  | nil => simp
  | cons a l => simp

/-- an anchored regex `^p(\[|$)` skips exactly the levels at or below `p` -/
theorem C13_skip_prefix (cfg : DCfg) (hi : cfg.incl = []) (he : cfg.exclude = []) (q : String) :
    skipPath cfg (some q) = cfg.excludePrefix.any (fun pre => q == pre || q.startsWith (pre ++ "[")) := by
  simp only [skipPath, hi, he, List.isEmpty_nil, Bool.not_true, Bool.false_and, Bool.false_eq_true, ↓reduceIte,
    Option.getD_some]
  cases h : cfg.excludePrefix with
  | nil => rfl
  | cons a l =>
    simp only [List.isEmpty_cons, Bool.not_false, Bool.true_and]
    split
    · rename_i h1; rw [h1]
    · rename_i h1; simp only [Bool.not_eq_true] at h1; rw [h1]

/-- nothing reported survives at a skipped level: the final tree only holds entries whose own path
passes the test -/
theorem C13_reported_not_skipped (cfg : DCfg) (al : Align) (hashOf : PyVal → String) (a b : PyVal) :
    ∀ e ∈ keepReported cfg (diffV cfg al hashOf [] a b).tree, skipSteps cfg e.2.steps = false := by
  intro e he
  have := (List.mem_filter.1 he).2
  simpa using this

/-- an excluded child of a list contributes nothing, whatever it contains -/
theorem C13_excluded_child_silent (cfg : DCfg) (al : Align) (hashOf : PyVal → String) (steps : List Step) (i : Nat)
    (x y : PyVal) (xs ys : List PyVal) (h : skipSteps cfg (steps ++ [⟨.iter, some (.int i), some (.int i)⟩]) = true) :
    diffPairs cfg al hashOf steps i (x :: xs) (y :: ys) = diffPairs cfg al hashOf steps (i + 1) xs ys := by
  simp only [diffPairs, h, ↓reduceIte, Result.empty_append]

/-- some level on the way from the root to `st` (the root and `st` included) is an excluded path -/
def blocked (E : List String) (st : List Step) : Bool := hit E [] || blockedFrom (hit E) 0 st

/-- **`exclude_paths` is a pure filter (positional mode, threshold 0).**  For every pair of values, every
list `E` of excluded paths, every alignment oracle and hasher: the entries reported under
`exclude_paths = E` are exactly the entries of the unrestricted run that are not at or below an
excluded path — nothing else is dropped, nothing is added, nothing changes. -/
theorem C13_exclude_is_filter (cfg : DCfg) (hp : Pos cfg) (he0 : cfg.exclude = []) (E : List String) (al : Align)
    (hashOf : PyVal → String) (a b : PyVal) :
    keepReported (withExclude cfg E) (if skipSteps (withExclude cfg E) [] then ({} : Result) else diffV (withExclude cfg E) al hashOf [] a b).tree =
      (diffV cfg al hashOf [] a b).tree.filter (fun e => !blocked E e.2.steps) := by
  rw [keepReported_hit hp, skipSteps_hit hp]
  by_cases h0 : hit E [] = true
  · simp only [h0, if_true, blocked, Bool.true_or, Bool.not_true]
    simp
  · have h0' : hit E [] = false := by simpa using h0
    simp only [h0', Bool.false_eq_true, if_false, blocked, Bool.false_or]
    exact filt_V hp he0 (restrict_exclude hp E) al hashOf a b [] h0'

/-- the same for the complete result when add/remove pairs are not merged (`report_repetition=True`;
in positional mode an added and a removed item never share a path) -/
theorem C13_exclude_is_filter_deepDiff (cfg : DCfg) (hp : Pos cfg) (he0 : cfg.exclude = []) (hr : cfg.reportRepetition = true)
    (E : List String) (al : Align) (hashOf : PyVal → String) (a b : PyVal) :
    (deepDiff (withExclude cfg E) al hashOf a b).tree = (deepDiff cfg al hashOf a b).tree.filter (fun e => !blocked E e.2.steps) := by
  have hr' : (withExclude cfg E).reportRepetition = true := hr
  have hk : keepReported cfg (diffV cfg al hashOf [] a b).tree = (diffV cfg al hashOf [] a b).tree := by
    unfold keepReported
    rw [List.filter_eq_self]
    intro e _
    simp [skipSteps_none hp he0]
  unfold deepDiff
  simp only [hr, hr', if_true, skipSteps_none hp he0, Bool.false_eq_true, if_false, hk]
  exact C13_exclude_is_filter cfg hp he0 E al hashOf a b

/-- content under an excluded path never shows: every entry of the restricted result avoids `E` on its whole path -/
theorem C13_nothing_below_excluded (cfg : DCfg) (hp : Pos cfg) (he0 : cfg.exclude = []) (E : List String) (al : Align)
    (hashOf : PyVal → String) (a b : PyVal) :
    ∀ e ∈ keepReported (withExclude cfg E) (if skipSteps (withExclude cfg E) [] then ({} : Result) else diffV (withExclude cfg E) al hashOf [] a b).tree,
      blocked E e.2.steps = false := by
  intro e he
  rw [C13_exclude_is_filter cfg hp he0 E al hashOf a b] at he
  simpa using (List.mem_filter.1 he).2

/-- some level on the way from the root to `st` (both included) is skipped by the test `H` -/
def blockedBy (H : List Step → Bool) (st : List Step) : Bool := H [] || blockedFrom H 0 st

/-- **Every path restriction of the exclusion kind is a pure filter (positional mode, threshold 0).**  For any
restricted configuration whose skip test is `H` (same keys, same mode): the entries reported are exactly the
entries of the unrestricted run with no skipped level on their way — whatever `H` is. -/
theorem C13_restriction_is_filter (cfg : DCfg) (hp : Pos cfg) (he0 : cfg.exclude = []) {cfgX : DCfg} {H : List Step → Bool}
    (hR : Restrict cfg cfgX H) (al : Align) (hashOf : PyVal → String) (a b : PyVal) :
    keepReported cfgX (if skipSteps cfgX [] then ({} : Result) else diffV cfgX al hashOf [] a b).tree =
      (diffV cfg al hashOf [] a b).tree.filter (fun e => !blockedBy H e.2.steps) := by
  have hk : ∀ t, keepReported cfgX t = t.filter (fun e => !H e.2.steps) := by
    intro t
    unfold keepReported
    congr 1
    funext e
    rw [hR.skip]
  rw [hk, hR.skip]
  by_cases h0 : H [] = true
  · simp only [h0, if_true, blockedBy, Bool.true_or, Bool.not_true]
    simp
  · have h0' : H [] = false := by simpa using h0
    simp only [h0', Bool.false_eq_true, if_false, blockedBy, Bool.false_or]
    exact filt_V hp he0 hR al hashOf a b [] h0'

/-- **Anchored `exclude_regex_paths` (`^<path>(\[|$)`), alone or together with `exclude_paths`, is a pure filter**
(positional mode, threshold 0): the restricted result is the unrestricted result minus the entries that have, on their
way from the root, a level whose path text is one of the patterns' paths or continues one with `[`, or is one of the
literally excluded paths. -/
theorem C13_exclude_regex_is_filter (cfg : DCfg) (hp : Pos cfg) (he0 : cfg.exclude = []) (E R : List String) (al : Align)
    (hashOf : PyVal → String) (a b : PyVal) :
    keepReported (withBoth cfg E R) (if skipSteps (withBoth cfg E R) [] then ({} : Result) else diffV (withBoth cfg E R) al hashOf [] a b).tree =
      (diffV cfg al hashOf [] a b).tree.filter (fun e => !blockedBy (fun st => hitR R st || hit E st) e.2.steps) :=
  C13_restriction_is_filter cfg hp he0 (restrict_both hp E R) al hashOf a b

/-- the same for the complete result (`report_repetition=True`) -/
theorem C13_exclude_regex_is_filter_deepDiff (cfg : DCfg) (hp : Pos cfg) (he0 : cfg.exclude = []) (hr : cfg.reportRepetition = true)
    (E R : List String) (al : Align) (hashOf : PyVal → String) (a b : PyVal) :
    (deepDiff (withBoth cfg E R) al hashOf a b).tree =
      (deepDiff cfg al hashOf a b).tree.filter (fun e => !blockedBy (fun st => hitR R st || hit E st) e.2.steps) := by
  have hr' : (withBoth cfg E R).reportRepetition = true := hr
  have hk : keepReported cfg (diffV cfg al hashOf [] a b).tree = (diffV cfg al hashOf [] a b).tree := by
    unfold keepReported
    rw [List.filter_eq_self]
    intro e _
    simp [skipSteps_none hp he0]
  unfold deepDiff
  simp only [hr, hr', if_true, skipSteps_none hp he0, Bool.false_eq_true, if_false, hk]
  exact C13_exclude_regex_is_filter cfg hp he0 E R al hashOf a b

/-- content under a matched path never shows -/
theorem C13_nothing_below_matched (cfg : DCfg) (hp : Pos cfg) (he0 : cfg.exclude = []) (E R : List String) (al : Align)
    (hashOf : PyVal → String) (a b : PyVal) :
    ∀ e ∈ keepReported (withBoth cfg E R) (if skipSteps (withBoth cfg E R) [] then ({} : Result) else diffV (withBoth cfg E R) al hashOf [] a b).tree,
      blockedBy (fun st => hitR R st || hit E st) e.2.steps = false := by
  intro e he
  rw [C13_exclude_regex_is_filter cfg hp he0 E R al hashOf a b] at he
  simpa using (List.mem_filter.1 he).2

/-! Non-vacuity: a positional configuration. -/
example : Pos { zip := true, thrNum := 0 } := ⟨rfl, rfl, rfl, rfl⟩

/-- **Negative witness (finding F10a / F10c).** `_skip_this_key` renders every key as `['key']`: for
the int key `1` of the root dict it tests `root['1']`, so with `include_paths=['root[1]']` the key is
skipped although its own path is the included one. -/
theorem C13_N_include_int_key : skipKey { incl := ["root[1]"] } [] (.int 1) = true := by
  simp [skipKey, pathStr, pathChars, Path.rootChars, isSubstr, isSubstr.go]
  decide

/-- **Negative witness (finding F10b).** At the default threshold an excluded key changes the
"diff deeper?" decision: two added keys against an empty dict give ratio 0/2 < 0.33 (the whole dict is
reported as changed), while with one of them excluded the union has one element and the shortcut
does not fire — content under the excluded path decides what is reported elsewhere. -/
theorem C13_N_threshold_leak : belowThreshold {} 0 2 = true ∧ belowThreshold {} 0 1 = false := by
  decide

end Diff
