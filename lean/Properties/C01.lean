import Proofs.Delta
import Proofs.DeltaRoot
import Proofs.DeltaFlat
import Proofs.DeltaList
import Proofs.DeltaNested
import Proofs.DeltaOpcodes
import Proofs.DeltaSet
import Properties.C02
/-!
# C01 — applying `Delta(DeepDiff(t1, t2))` to `t1` reproduces `t2`

Model: `Model/Delta/Build.lean` (payload from the diff tree), `Model/Delta/Apply.lean` (the phases of
`Delta.__add__`, in the order regenerated from the source into `Gen.deltaPhases`).
The statement for every pair is established here for the parts listed below; the full round trip is
checked on the implementation and against the model by the harness (`C01_roundtrip_partial`).
-/
namespace Delta
open Py Diff

/-- **Opcode replay.** For every pair of item lists and every opcode list that tiles them (what
`difflib.SequenceMatcher.get_opcodes` returns: consecutive ranges, `equal` blocks that agree),
rebuilding from the old items and the recorded new slices gives exactly the new items. -/
theorem C01_opcode_replay (xs ys : List PyVal) (ops : List Opcode) (h : TilesO xs ys 0 0 ops) :
    replayOps xs (withValues xs ys ops) = ys :=
  replayOps_tiles xs ys ops h

/-- the opcode phase on a root list (and on a root tuple, which keeps its type) -/
theorem C01_opcodes_root_list (xs ys : List PyVal) (ops : List Opcode) (h : TilesO xs ys 0 0 ops) :
    applyOpcodes { root := .list xs } ([], withValues xs ys ops) = { root := .list ys } := by
  simp [applyOpcodes, getAt, replaceAt, replayOps_tiles xs ys ops h]

theorem C01_opcodes_root_tuple (xs ys : List PyVal) (ops : List Opcode) (h : TilesO xs ys 0 0 ops) :
    applyOpcodes { root := .tuple xs } ([], withValues xs ys ops) = { root := .tuple ys } := by
  simp [applyOpcodes, getAt, replaceAt, replayOps_tiles xs ys ops h]

/-- **An empty payload is the identity**, in every phase order. -/
theorem C01_empty_identity (bidir : Bool) (base : PyVal) : applyDelta bidir {} base = { root := base } :=
  applyDelta_empty bidir base

/-- **Round trip on the diagonal.** For every well-formed value and every ordered configuration the
delta of a value with (a copy of) itself is empty and applying it returns the value, with no error. -/
theorem C01_self (cfg : DCfg) (al : Align) (hashOf : PyVal → String) (hal : AlignRefl al)
    (hc : cfg.thrNum ≤ cfg.thrDen) (t : PyVal) (hw : wf t = true) (directed always bidir : Bool) :
    applyDelta bidir (buildDelta directed always t t (deepDiff cfg al hashOf t t)) t = { root := t } := by
  obtain ⟨h1, h2, _⟩ := C02_copy_empty cfg al hashOf hal hc t hw 0
  have : buildDelta directed always t t (deepDiff cfg al hashOf t t) = {} := by
    unfold buildDelta
    simp [h1, h2, groupSet]
  rw [this]
  exact applyDelta_empty bidir t

/-- **A written value is read back.** Whatever a phase writes at a path with `replaceAt` is what the
result holds at that path. -/
theorem C01_write_read (p : DPath) (r v r' : PyVal) (h : replaceAt r p v = some r') : getAt r' p = some v :=
  getAt_replaceAt p r v r' h

/-- **Negative witness (finding F4b).** A set edited inside a tuple: the new set cannot be assigned
into the tuple; the error is logged and the base comes back unchanged. -/
theorem C01_N_set_in_tuple :
    applyDelta false { setAdded := [([.int 0, .int 1], [.str "b"])] } (.list [.tuple [.list [], .set [.int 1]]])
      = { root := .list [.tuple [.list [], .set [.int 1]]], errs := 1 } := by
  simp [applyDelta, Gen.deltaPhases, phase, applySetItems, getAt, getItem, isMutableContainer, postProcess, sortPaths]

/-- **Negative witness (finding F4c).** A tuple edited inside another tuple: only the inner tuple is
made mutable, it cannot be re-attached to the enclosing tuple, and the change is lost. -/
theorem C01_N_tuple_in_tuple :
    (applyDelta false { valuesChanged := [{ path := [.int 0, .int 0, .int 1], newValue := some (.int 3) }] }
      (.list [.tuple [.tuple [.int 1, .int 2], .int 0]])).root ≠ .list [.tuple [.tuple [.int 1, .int 3], .int 0]] := by
  simp [applyDelta, Gen.deltaPhases, phase, applyChange, getAt, getItem, setNewValue, withContainer, isTuple,
    isMutableContainer, postProcess, sortPaths, addPost, seqItems, setElem, castTo, replaceAt]

/-! ### the root case of the round trip, end to end -/

theorem leafDiff_shape (steps : List Step) (a b : PyVal) :
    leafDiff steps a b = [] ∨ ∃ ud, leafDiff steps a b = [(.valuesChanged, { steps := steps, t1 := some a, t2 := some b, udiff := ud })] := by
  unfold leafDiff
  split
  all_goals first
    | (split
       · exact Or.inl rfl
       · exact Or.inr ⟨_, rfl⟩)
    | exact Or.inl rfl

theorem mutualAddRemoves_single (c : Cat) (l : Level) (hc : c = .valuesChanged ∨ c = .typeChanges) :
    mutualAddRemoves [(c, l)] = [(c, l)] := by
  rcases hc with rfl | rfl <;> simp [mutualAddRemoves]

theorem pyEq_refl_basic (b : PyVal) (h : isBasic b = true) : pyEq b b = true := by
  cases b <;> simp [isBasic] at h <;> simp [pyEq, numEq, numOf]

/-- **Round trip for every pair of scalars** (`None`, `bool`, `int`, `float`, `str`, `bytes`; equal or not, of the
same type or not), every ordered configuration without path restrictions, directed or not, with or
without `always_include_values`: applying the delta built from the diff to `t1` gives a value `== t2`,
with no error logged and nothing raised. -/
theorem C01_scalars_roundtrip (cfg : DCfg) (hp : Diff.Plain cfg) (al : Align) (hashOf : PyVal → String) (directed always : Bool)
    (a b : PyVal) (ha : isBasic a = true) (hb : isBasic b = true) :
    ∃ r, applyDelta false (buildDelta directed always a b (deepDiff cfg al hashOf a b)) a = { root := r } ∧ pyEq r b = true := by
  have hk : ∀ t, keepReported cfg t = t := keepReported_plain hp
  have hd : (if skipSteps cfg [] then ({} : Result) else diffV cfg al hashOf [] a b) = diffV cfg al hashOf [] a b := by
    simp [skipSteps_plain hp]
  -- the diff of two scalars
  have hleaf : diffV cfg al hashOf [] a b =
      if typeName a != typeName b then ⟨[(.typeChanges, { steps := [], t1 := some a, t2 := some b })], []⟩ else ⟨leafDiff [] a b, []⟩ := by
    cases a <;> simp [isBasic] at ha <;> simp only [diffV]
  by_cases ht : (typeName a != typeName b) = true
  · -- a change of type at the root
    have hdd : deepDiff cfg al hashOf a b = ⟨[(.typeChanges, { steps := [], t1 := some a, t2 := some b })], []⟩ := by
      unfold deepDiff
      rw [hd, hleaf]
      simp only [ht, if_true, hk]
      split
      · rfl
      · simp only [mutualAddRemoves_single _ _ (Or.inr rfl)]
    rw [hdd]
    obtain ⟨r, h1, h2⟩ := roundtrip_root_type directed always a b
    refine ⟨r, h1, ?_⟩
    rcases h2 with rfl | h2
    · exact pyEq_refl_basic _ hb
    · exact h2
  · have ht' : (typeName a != typeName b) = false := by simpa using ht
    rcases leafDiff_shape [] a b with hl | ⟨ud, hl⟩
    · -- nothing to report: the scalars are equal
      have hdd : deepDiff cfg al hashOf a b = {} := by
        unfold deepDiff
        rw [hd, hleaf]
        simp only [ht', Bool.false_eq_true, if_false, hl, hk]
        split <;> simp [mutualAddRemoves] <;> rfl
      rw [hdd]
      have : buildDelta directed always a b {} = {} := by simp [buildDelta, groupSet]
      rw [this, applyDelta_empty]
      exact ⟨a, rfl, leafDiff_nil [] a b ha (by simpa using ht') hl⟩
    · -- one change of value at the root
      have hdd : deepDiff cfg al hashOf a b = ⟨[(.valuesChanged, { steps := [], t1 := some a, t2 := some b, udiff := ud })], []⟩ := by
        unfold deepDiff
        rw [hd, hleaf]
        simp only [ht', Bool.false_eq_true, if_false, hl, hk]
        split
        · rfl
        · simp only [mutualAddRemoves_single _ _ (Or.inl rfl)]
      rw [hdd, roundtrip_root_value]
      exact ⟨b, rfl, pyEq_refl_basic _ hb⟩

/-- **Round trip whenever the whole difference is reported as one change at the root** — two values of
different types (a list against a dict, a scalar against a container), or two dictionaries that share
too few keys (`threshold_to_diff_deeper`) and are reported as one `values_changed`. -/
theorem C01_root_change_roundtrip (directed always : Bool) (t1 t2 : PyVal) (r : Result)
    (h : (∃ ud, r = ⟨[(.valuesChanged, { steps := [], t1 := some t1, t2 := some t2, udiff := ud })], []⟩) ∨
         r = ⟨[(.typeChanges, { steps := [], t1 := some t1, t2 := some t2 })], []⟩) :
    ∃ v, applyDelta false (buildDelta directed always t1 t2 r) t1 = { root := v } ∧ (v = t2 ∨ pyEq v t2 = true) := by
  rcases h with ⟨ud, rfl⟩ | rfl
  · exact ⟨t2, roundtrip_root_value directed always t1 t2 ud, Or.inl rfl⟩
  · exact roundtrip_root_type directed always t1 t2

/-! ### flat dictionaries (a JSON object of scalars), end to end -/

/-- **Round trip for every pair of flat dictionaries**: string keys (no key twice), values that are scalars
(`None`, `bool`, `int`, `float`, `str`, `bytes`), any number of keys added, removed, changed in value or changed in type
at once, every ordered configuration without path restrictions (any `threshold_to_diff_deeper`, so including the
"too different" shortcut), directed or not, with or without `always_include_values`: the four phases that are used
(`values_changed`, `type_changes`, `dictionary_item_added`, `dictionary_item_removed`) write pairwise different keys and
the result is a dictionary `== t2`, with no error logged. -/
theorem C01_flat_dict_roundtrip (cfg : DCfg) (hp : Diff.Plain cfg) (al : Align) (hashOf : PyVal → String) (directed always : Bool)
    (kvs1 kvs2 : List (PyVal × PyVal))
    (hs1 : StrKeys kvs1) (hs2 : StrKeys kvs2) (hn1 : (kvs1.map (·.1)).Nodup) (hn2 : (kvs2.map (·.1)).Nodup)
    (hb1 : ∀ p ∈ kvs1, isBasic p.2 = true) (hb2 : ∀ p ∈ kvs2, isBasic p.2 = true)
    (hpriv : ∀ k, k ∈ kvs1.map (·.1) ∨ k ∈ kvs2.map (·.1) → (cfg.ignorePrivate && isPrivate k) = false) :
    ∃ r, applyDelta false (buildDelta directed always (.dict kvs1) (.dict kvs2) (deepDiff cfg al hashOf (.dict kvs1) (.dict kvs2))) (.dict kvs1)
        = { root := r } ∧ pyEq r (.dict kvs2) = true :=
  flat_dict_roundtrip cfg hp al hashOf directed always kvs1 kvs2 hs1 hs2 hn1 hn2 hb1 hb2 hpriv

/-- the hypotheses are met by a pair that has an added key, a removed key, a changed value and a changed type -/
example : let kvs1 : List (PyVal × PyVal) := [(.str "a", .int 1), (.str "b", .str "x"), (.str "c", .none), (.str "gone", .bool true)]
    let kvs2 : List (PyVal × PyVal) := [(.str "a", .int 2), (.str "b", .int 7), (.str "c", .none), (.str "new", .float 25 1)]
    StrKeys kvs1 ∧ StrKeys kvs2 ∧ (kvs1.map (·.1)).Nodup ∧ (kvs2.map (·.1)).Nodup ∧
    (∀ p ∈ kvs1, isBasic p.2 = true) ∧ (∀ p ∈ kvs2, isBasic p.2 = true) := by
  simp [StrKeys, isBasic]

/-! ### lists of scalars compared position by position, end to end -/

/-- **Round trip for every pair of lists of scalars in positional mode** (`zip_ordered_iterables=True`): any lengths,
any mix of changed values, changed types, a removed tail or an appended tail, every configuration without path
restrictions, directed or not, with or without `always_include_values`.  The changes are item assignments at pairwise
different indexes, the removed items are deleted from the largest index down (`Delta` sorts their paths in reverse)
and the added ones appended from the smallest index up; the result is a **list** whose items are `==` those of `t2`,
with no error logged. -/
theorem C01_list_positional_roundtrip (cfg : DCfg) (hp : Diff.Plain cfg) (hz : cfg.zip = true) (al : Align) (hashOf : PyVal → String)
    (directed always : Bool) (xs ys : List PyVal) (hbx : ∀ x ∈ xs, isBasic x = true) (hby : ∀ y ∈ ys, isBasic y = true) :
    ∃ r, applyDelta false (buildDelta directed always (.list xs) (.list ys) (deepDiff cfg al hashOf (.list xs) (.list ys))) (.list xs)
        = { root := .list r } ∧ pyEqL r ys = true :=
  list_roundtrip cfg hp al hashOf directed always xs ys hbx hby (list_diffV_zip cfg hp hz al hashOf xs ys hbx)

/-- **The same in the default mode whenever the pairwise pass is the one DeepDiff keeps**: the difflib pass reports at
least one entry and at least as many as the pairwise pass (and, when it reports exactly one, the pairwise pass reports
none), whatever opcodes the alignment oracle returns. -/
theorem C01_list_pairwise_roundtrip (cfg : DCfg) (hp : Diff.Plain cfg) (hz : cfg.zip = false) (al : Align) (hashOf : PyVal → String)
    (directed always : Bool) (xs ys : List PyVal) (hbx : ∀ x ∈ xs, isBasic x = true) (hby : ∀ y ∈ ys, isBasic y = true)
    (h1 : 1 ≤ (opcodeEntries [] xs ys (al xs ys)).length)
    (h2 : (opcodeEntries [] xs ys (al xs ys)).length = 1 → (listT 0 xs ys).length = 0)
    (h3 : (listT 0 xs ys).length ≤ (opcodeEntries [] xs ys (al xs ys)).length) :
    ∃ r, applyDelta false (buildDelta directed always (.list xs) (.list ys) (deepDiff cfg al hashOf (.list xs) (.list ys))) (.list xs)
        = { root := .list r } ∧ pyEqL r ys = true :=
  list_roundtrip cfg hp al hashOf directed always xs ys hbx hby (list_diffV_pairwise cfg hp hz al hashOf xs ys hbx hby h1 h2 h3)

/-- the hypotheses of the default-mode statement are met: `[1, 2, 3]` against `[4, 5, 6]` with one `replace` opcode -/
example : let xs : List PyVal := [.int 1, .int 2, .int 3]
    let ys : List PyVal := [.int 4, .int 5, .int 6]
    let ops : List Opcode := [{ tag := "replace", i1 := 0, i2 := 3, j1 := 0, j2 := 3 }]
    1 ≤ (opcodeEntries [] xs ys ops).length ∧ ((opcodeEntries [] xs ys ops).length = 1 → (listT 0 xs ys).length = 0) ∧
    (listT 0 xs ys).length ≤ (opcodeEntries [] xs ys ops).length := by
  intro xs ys ops
  have e1 : (opcodeEntries [] xs ys ops).length = 3 := by
    simp [xs, ys, ops, opcodeEntries, pairBasic, leafDiff, typeName, pyEq, numEq, numOf, pow10]
  have e2 : (listT 0 xs ys).length = 3 := by
    simp [xs, ys, listT, childTreeI, leafDiff, typeName, numEq, numOf, pow10]
  rw [e1, e2]
  omega

/-! ### nested dictionaries, end to end -/

/-- **Round trip for every pair of nested dictionaries** — string keys at every level (no key twice in one dictionary; with
`ignore_private_variables` on, no key starting with `__`), scalar leaves, any depth and width — under every ordered
configuration without path restrictions and every `threshold_to_diff_deeper` (so including "too different" sub-dictionaries
replaced as a whole), directed or not, with or without `always_include_values`: whatever mix of keys added, removed,
changed in value or in type, at whatever levels, `t1 + Delta(DeepDiff(t1, t2))` is a value `== t2`, with no error logged.
`J ip v` is that universe (`Proofs/DeltaNested.lean`); the proof is an induction on the nesting in which a payload entry
whose path starts with a key acts on the child under that key. -/
theorem C01_nested_dict_roundtrip (cfg : DCfg) (hp : Diff.Plain cfg) (al : Align) (hashOf : PyVal → String) (directed always : Bool)
    (v1 v2 : PyVal) (j1 : J cfg.ignorePrivate v1) (j2 : J cfg.ignorePrivate v2) :
    ∃ r, applyDelta false (buildDelta directed always v1 v2 (deepDiff cfg al hashOf v1 v2)) v1 = { root := r } ∧ pyEq r v2 = true :=
  nested_roundtrip cfg hp al hashOf false directed always (fun h => by cases h) v1 v2 j1 j2

/-- the universe is inhabited by values of depth three with every kind of difference between them -/
example : J false (.dict [(.str "a", .dict [(.str "x", .int 1), (.str "y", .dict [(.str "deep", .str "v")])]), (.str "b", .none)]) ∧
    J false (.dict [(.str "a", .dict [(.str "x", .str "1"), (.str "z", .dict [])]), (.str "c", .float 25 1)]) := by
  have hb : ∀ v, isBasic v = true → J false v := fun v h => J.basic h
  constructor
  · refine J.dict (by simp [StrKeys]) (by simp) (fun _ _ => rfl) ?_
    intro p hp; simp at hp
    rcases hp with rfl | rfl
    · refine J.dict (by simp [StrKeys]) (by simp) (fun _ _ => rfl) ?_
      intro p hp; simp at hp
      rcases hp with rfl | rfl
      · exact hb _ rfl
      · refine J.dict (by simp [StrKeys]) (by simp) (fun _ _ => rfl) ?_
        intro p hp; simp at hp; subst hp; exact hb _ rfl
    · exact hb _ rfl
  · refine J.dict (by simp [StrKeys]) (by simp) (fun _ _ => rfl) ?_
    intro p hp; simp at hp
    rcases hp with rfl | rfl
    · refine J.dict (by simp [StrKeys]) (by simp) (fun _ _ => rfl) ?_
      intro p hp; simp at hp
      rcases hp with rfl | rfl
      · exact hb _ rfl
      · exact J.dict (by simp [StrKeys]) (by simp) (fun _ _ => rfl) (by intro p hp; simp at hp)
    · exact hb _ rfl

/-! ### lists of scalars in the default mode, with recorded opcodes -/

/-- **Round trip for lists of scalars in the default mode when the difflib pass is kept and its opcodes are recorded**
(it reports at least two entries and fewer than the pairwise pass): for every alignment that tiles the two lists with
monotone blocks (what `difflib.SequenceMatcher.get_opcodes` returns; checked on every observed opcode list), directed or
not, with or without `always_include_values`, bidirectional or not, `t1 + Delta(DeepDiff(t1, t2))` is exactly the list `t2`
and nothing escapes: the change entries only write inside blocks that are not `equal`, and the rebuild from the opcodes
only reads the `equal` blocks.  Together with `C01_list_pairwise_roundtrip` this covers the default mode for lists of
scalars except when the difflib pass reports a single entry. -/
theorem C01_list_opcodes_roundtrip (cfg : DCfg) (hp : Diff.Plain cfg) (hz : cfg.zip = false) (al : Align) (hashOf : PyVal → String)
    (bidir directed always : Bool) (xs ys : List PyVal) (hbx : ∀ x ∈ xs, isBasic x = true) (hby : ∀ y ∈ ys, isBasic y = true)
    (htiles : TilesO xs ys 0 0 (al xs ys)) (hmono : ∀ o ∈ al xs ys, o.i1 ≤ o.i2)
    (h1 : 2 ≤ (opcodeEntries [] xs ys (al xs ys)).length)
    (h2 : (opcodeEntries [] xs ys (al xs ys)).length < (pairBasic [] 0 0 xs ys).length) :
    (applyDelta bidir (buildDelta directed always (.list xs) (.list ys) (deepDiff cfg al hashOf (.list xs) (.list ys))) (.list xs)).root = .list ys ∧
    (applyDelta bidir (buildDelta directed always (.list xs) (.list ys) (deepDiff cfg al hashOf (.list xs) (.list ys))) (.list xs)).raised = none :=
  list_opcodes_roundtrip cfg hp hz al hashOf bidir directed always xs ys hbx hby htiles hmono h1 h2

/-- the hypotheses are met: `[1, 2, 3, 4]` against `[1, 3, 4, 5, 6]` with difflib's opcodes (equal, delete, equal, insert) -/
example : let xs : List PyVal := [.int 1, .int 2, .int 3, .int 4]
    let ys : List PyVal := [.int 1, .int 3, .int 4, .int 5, .int 6]
    let ops : List Opcode := [{ tag := "equal", i1 := 0, i2 := 1, j1 := 0, j2 := 1 }, { tag := "delete", i1 := 1, i2 := 2, j1 := 1, j2 := 1 },
      { tag := "equal", i1 := 2, i2 := 4, j1 := 1, j2 := 3 }, { tag := "insert", i1 := 4, i2 := 4, j1 := 3, j2 := 5 }]
    TilesO xs ys 0 0 ops ∧ (∀ o ∈ ops, o.i1 ≤ o.i2) ∧ 2 ≤ (opcodeEntries [] xs ys ops).length ∧
    (opcodeEntries [] xs ys ops).length < (pairBasic [] 0 0 xs ys).length := by
  intro xs ys ops
  have e1 : (opcodeEntries [] xs ys ops).length = 3 := by
    simp [xs, ys, ops, opcodeEntries]
  have e2 : (pairBasic [] 0 0 xs ys).length = 4 := by
    simp [xs, ys, pairBasic, leafDiff, typeName, pyEq, numEq, numOf, pow10]
  refine ⟨?_, ?_, by omega, by omega⟩
  · simp [xs, ys, ops, TilesO]
  · intro o ho
    simp [ops] at ho
    rcases ho with rfl | rfl | rfl | rfl <;> simp

/-! ### sets of scalars, end to end -/

/-- **Round trip for every pair of sets** whose members are told apart consistently: no two different members are `==`
(`1` next to `True` is finding F45) and the item hash is injective on them (C07).  `t1 + Delta(DeepDiff(t1, t2))` is a set
`== t2` — union with the added members, then difference with the removed ones — for every configuration without path
restrictions, plain or bidirectional. -/
theorem C01_set_roundtrip (cfg : DCfg) (hp : Diff.Plain cfg) (al : Align) (hashOf : PyVal → String) (bidir directed always : Bool)
    (xs ys : List PyVal) (h : SetDom hashOf xs ys) :
    ∃ r, applyDelta bidir (buildDelta directed always (.set xs) (.set ys) (deepDiff cfg al hashOf (.set xs) (.set ys))) (.set xs) = { root := .set r } ∧
      pyEq (.set r) (.set ys) = true :=
  (set_roundtrip cfg hp al hashOf bidir directed always xs ys h).1

/-- the hypotheses are met by two overlapping sets of strings under a hash that is injective on strings -/
example : SetDom (fun v => match v with | .str s => s | _ => "") [.str "a", .str "b"] [.str "b", .str "c"] := by
  refine ⟨by simp, by simp, ?_, ?_⟩
  · intro a ha b hb
    simp at ha hb
    rcases ha with rfl | rfl | rfl | rfl <;> rcases hb with rfl | rfl | rfl | rfl <;> simp
  · intro a ha b hb
    simp at ha hb
    rcases ha with rfl | rfl | rfl | rfl <;> rcases hb with rfl | rfl | rfl | rfl <;> simp [keyEq]

end Delta
