import Proofs.Delta
import Properties.C02
/-!
# C01 — applying `Delta(DeepDiff(t1, t2))` to `t1` reproduces `t2`

Model: `Model/Delta/Build.lean` (payload from the diff tree), `Model/Delta/Apply.lean` (the phases of
`Delta.__add__`, in the order regenerated from the source into `Gen.deltaPhases`).
The statement for every pair is established here for the parts listed below; the full round trip is
checked on the implementation and against the model by the harness (`C01_roundtrip_partial`).
-/
namespace Delta
open Py Diff

/-- **Opcode replay.** For every pair of item lists and every opcode list that tiles them (what
`difflib.SequenceMatcher.get_opcodes` returns: consecutive ranges, `equal` blocks that agree),
rebuilding from the old items and the recorded new slices gives exactly the new items. -/
theorem C01_opcode_replay (xs ys : List PyVal) (ops : List Opcode) (h : TilesO xs ys 0 0 ops) :
    replayOps xs (withValues xs ys ops) = ys :=
  replayOps_tiles xs ys ops h

/-- the opcode phase on a root list (and on a root tuple, which keeps its type) -/
theorem C01_opcodes_root_list (xs ys : List PyVal) (ops : List Opcode) (h : TilesO xs ys 0 0 ops) :
    applyOpcodes { root := .list xs } ([], withValues xs ys ops) = { root := .list ys } := by
  simp [applyOpcodes, getAt, replaceAt, replayOps_tiles xs ys ops h]

theorem C01_opcodes_root_tuple (xs ys : List PyVal) (ops : List Opcode) (h : TilesO xs ys 0 0 ops) :
    applyOpcodes { root := .tuple xs } ([], withValues xs ys ops) = { root := .tuple ys } := by
  simp [applyOpcodes, getAt, replaceAt, replayOps_tiles xs ys ops h]

/-- **An empty payload is the identity**, in every phase order. -/
theorem C01_empty_identity (bidir : Bool) (base : PyVal) : applyDelta bidir {} base = { root := base } :=
  applyDelta_empty bidir base

/-- **Round trip on the diagonal.** For every well-formed value and every ordered configuration the
delta of a value with (a copy of) itself is empty and applying it returns the value, with no error. -/
theorem C01_self (cfg : DCfg) (al : Align) (hashOf : PyVal → String) (hal : AlignRefl al)
    (hc : cfg.thrNum ≤ cfg.thrDen) (t : PyVal) (hw : wf t = true) (directed always bidir : Bool) :
    applyDelta bidir (buildDelta directed always t t (deepDiff cfg al hashOf t t)) t = { root := t } := by
  obtain ⟨h1, h2, _⟩ := C02_copy_empty cfg al hashOf hal hc t hw 0
  have : buildDelta directed always t t (deepDiff cfg al hashOf t t) = {} := by
    unfold buildDelta
    simp [h1, h2, groupSet]
  rw [this]
  exact applyDelta_empty bidir t

/-- **A written value is read back.** Whatever a phase writes at a path with `replaceAt` is what the
result holds at that path. -/
theorem C01_write_read (p : DPath) (r v r' : PyVal) (h : replaceAt r p v = some r') : getAt r' p = some v :=
  getAt_replaceAt p r v r' h

/-- **Negative witness (finding F4b).** A set edited inside a tuple: the new set cannot be assigned
into the tuple; the error is logged and the base comes back unchanged. -/
theorem C01_N_set_in_tuple :
    applyDelta false { setAdded := [([.int 0, .int 1], [.str "b"])] } (.list [.tuple [.list [], .set [.int 1]]])
      = { root := .list [.tuple [.list [], .set [.int 1]]], errs := 1 } := by
  simp [applyDelta, Gen.deltaPhases, phase, applySetItems, getAt, getItem, isMutableContainer, postProcess, sortPaths]

/-- **Negative witness (finding F4c).** A tuple edited inside another tuple: only the inner tuple is
made mutable, it cannot be re-attached to the enclosing tuple, and the change is lost. -/
theorem C01_N_tuple_in_tuple :
    (applyDelta false { valuesChanged := [{ path := [.int 0, .int 0, .int 1], newValue := some (.int 3) }] }
      (.list [.tuple [.tuple [.int 1, .int 2], .int 0]])).root ≠ .list [.tuple [.tuple [.int 1, .int 3], .int 0]] := by
  simp [applyDelta, Gen.deltaPhases, phase, applyChange, getAt, getItem, setNewValue, withContainer, isTuple,
    isMutableContainer, postProcess, sortPaths, addPost, seqItems, setElem, castTo, replaceAt]

end Delta
