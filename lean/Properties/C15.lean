import Proofs.Pickle
/-!
# C15 — loading a delta dump never resolves a global outside the allow-list

Model: `Model/Pickle/VM.lean`.  `c.safe` is `SAFE_TO_IMPORT ∪ safe_to_import`; the theorems hold
for every such list (in particular for the regenerated `Gen.safeToImport` plus any caller list),
every program (any length, any nesting, any opcode mix of protocols 0–5), every resolution
environment and every extension registry.
-/
namespace Pickle

/-- `find_class` lets a name through iff the *exact* joined string is a member of the allow-list
(no prefix, module-only or case-folded match); what it returns is that very global. -/
theorem C15_exact_membership (safe : List String) (env : Env) (m n : String) :
    ((m ++ "." ++ n) ∉ safe → findClass safe env m n = .error (.forbidden m n)) ∧
    (∀ o, findClass safe env m n = .ok o → (m ++ "." ++ n) ∈ safe ∧ o = .glob m n) :=
  ⟨findClass_forbidden, fun _ h => findClass_ok h⟩

/-! `hc` below is the one fact about the process the gate depends on: the copyreg extension
cache (which CPython consults for EXT opcodes *before* `find_class`) holds nothing outside the
allow-list.  It is empty unless the application registered pickle extensions and some unpickler
already resolved them; `C15_N_ext_cache` shows the hypothesis is necessary. -/

/-- The gate is an invariant of the whole run: in every state the machine passes through —
stack, metastack, memo — every resolved global is on the allow-list, every resolution event names
an allowed global and every call event has a callee built only from allowed globals. -/
theorem C15_gate (c : Cfg) (cache : List (Int × PObj)) (hc : ∀ p ∈ cache, allowed c.safe p.2 = true)
    (prog : List Op) : ∀ st ∈ states c { extCache := cache } prog, StOK c.safe st :=
  states_ok (init_ok c.safe cache hc)

/-- A successful load returns an object in which every global is allowed. -/
theorem C15_result_allowed (c : Cfg) (cache : List (Int × PObj)) (hc : ∀ p ∈ cache, allowed c.safe p.2 = true)
    (prog : List Op) (o : PObj) (s : St)
    (h : run c { extCache := cache } prog = .ok (o, s)) : allowed c.safe o = true ∧ StOK c.safe s := by
  have := run_ok (init_ok c.safe cache hc) h
  exact ⟨this.2, this.1⟩

/-- A `ForbiddenModule` outcome names a global that really is outside the list, and — by
`C15_gate` — at no point before the rejection did any state or event mention it: nothing was
constructed from it. -/
theorem C15_reject_first (c : Cfg) (cache : List (Int × PObj)) (hc : ∀ p ∈ cache, allowed c.safe p.2 = true)
    (prog : List Op) (m n : String)
    (h : run c { extCache := cache } prog = .error (.forbidden m n)) :
    (m ++ "." ++ n) ∉ c.safe ∧
      ∀ st ∈ states c { extCache := cache } prog, allowedL c.safe st.stack = true ∧
        (∀ e ∈ st.events, e ≠ .resolved m n ∧ e ≠ .called (.glob m n)) := by
  have hn := run_forbidden h
  refine ⟨hn, ?_⟩
  intro st hst
  have hok := C15_gate c cache hc prog st hst
  refine ⟨hok.stack, ?_⟩
  intro e he
  have := hok.events e he
  constructor
  · rintro rfl; simp [evAllowed] at this; exact hn this
  · rintro rfl; simp [evAllowed, allowed] at this; exact hn this

/-- Conversely the first global-resolving opcode that names a pair outside the list stops the
run with `forbidden` for exactly that pair (shown for GLOBAL; STACK_GLOBAL, INST and EXT resolve
through the same `findClass`). -/
theorem C15_global_rejected (c : Cfg) (s : St) (m n : String) (rest : List Op)
    (h : (m ++ "." ++ n) ∉ c.safe) : run c s (.global m n :: rest) = .error (.forbidden m n) := by
  simp [run, step, findClass, h, bind, Except.bind]

theorem C15_stack_global_rejected (c : Cfg) (s : St) (m n : String)
    (below : List PObj) (ops : List Op) (hs : s.stack = .str n :: .str m :: below)
    (h : (m ++ "." ++ n) ∉ c.safe) : run c s (.stackGlobal :: ops) = .error (.forbidden m n) := by
  simp [run, step, hs, findClass, h, bind, Except.bind]

/-- The shipped allow-list admits no name through a module-only, prefix or case-folded match:
these concrete neighbours of allowed names are all rejected (table regenerated from the source). -/
theorem C15_table_neighbours (env : Env) :
    findClass Gen.safeToImport env "builtins" "eval" = .error (.forbidden "builtins" "eval") ∧
    findClass Gen.safeToImport env "builtins" "Set" = .error (.forbidden "builtins" "Set") ∧
    findClass Gen.safeToImport env "builtins" "se" = .error (.forbidden "builtins" "se") ∧
    findClass Gen.safeToImport env "builtins" "set.add" = .error (.forbidden "builtins" "set.add") ∧
    findClass Gen.safeToImport env "os" "system" = .error (.forbidden "os" "system") ∧
    findClass Gen.safeToImport env "datetime" "datetime.now" = .error (.forbidden "datetime" "datetime.now") := by
  refine ⟨?_, ?_, ?_, ?_, ?_, ?_⟩ <;> (apply findClass_forbidden; decide)

/-- **Negative witness (finding F22).**  With a warmed extension cache the machine hands out a
global that is not on the allow-list and never consults `findClass` — exactly what the real
restricted unpickler does after `copyreg.add_extension('os','system',300)` and one plain
`pickle.loads` of `EXT2 300`. -/
theorem C15_N_ext_cache :
    (run { safe := Gen.safeToImport, env := fun _ _ => .ok, ext := [(300, ("os", "system"))] }
         { extCache := [(300, .glob "os" "system")] } [.proto 2, .ext 300, .stop]).toOption.map (·.1)
      = some (.glob "os" "system") ∧ "os.system" ∉ Gen.safeToImport := by
  constructor
  · simp [run, step, push, Except.toOption]
  · decide

/-- **Negative witness (finding F21).**  The global a dump of a `bytearray` value refers to is not
on the shipped allow-list, so the VM rejects Delta's own dump. -/
theorem C15_N_bytearray_dump_rejected (env : Env) :
    run { safe := Gen.safeToImport, env := env, ext := [] } {}
      [.proto 4, .frame, .str "builtins", .memoize, .str "bytearray", .memoize, .stackGlobal, .memoize,
       .bytes "a", .memoize, .tuple1, .memoize, .reduce, .memoize, .stop]
      = .error (.forbidden "builtins" "bytearray") := by
  have h : ("builtins" ++ "." ++ "bytearray") ∉ Gen.safeToImport := by decide
  have hf := findClass_forbidden (safe := Gen.safeToImport) (env := env) h
  simp only [run, step, push, hf, bind, Except.bind]
  simp

/-- `datetime.date` and `datetime.timezone` are on the allow-list (repaired by the `fix:` commit;
this obligation fails to build if they are dropped again). -/
theorem C15_date_timezone_allowed :
    "datetime.date" ∈ Gen.safeToImport ∧ "datetime.timezone" ∈ Gen.safeToImport := by decide

/-! Non-vacuity: a program that is rejected, one that loads. -/
example : run { safe := Gen.safeToImport, env := fun _ _ => .ok, ext := [] } {}
    [.proto 4, .mark, .int 1, .str "os", .str "system", .stackGlobal, .list, .stop]
    = .error (.forbidden "os" "system") := by
  simp [run, step, findClass, bind, Except.bind, Gen.safeToImport, push]
example : (run { safe := Gen.safeToImport, env := fun _ _ => .ok, ext := [] } {}
    [.proto 4, .str "builtins", .str "int", .stackGlobal, .str "7", .tuple1, .reduce, .stop]).toOption.map (·.1)
    = some (.call (.glob "builtins" "int") (.tuple [.str "7"])) := by
  simp [run, step, findClass, bind, Except.bind, Gen.safeToImport, pure, Except.pure, push, callable, Except.toOption]

end Pickle
