#!/usr/bin/env python3
"""Regenerates MANIFEST.json from the table below (kept valid at all times)."""
import json, os
HERE = os.path.dirname(os.path.abspath(__file__))
props = [json.loads(l) for l in open(os.path.join(HERE, 'properties.jsonl'))]

CLAIMED = {
    'C18': dict(
        text='Lean 4 theorems over the bucket-list model of lfucache.py: invariant for every reachable state (any capacity, any history), '
             'refinement of every step to an abstract bounded-LFU-map specification (value returned, one use per successful get, victim = '
             'fewest uses then oldest), history-level "get returns the last value set unless evicted". The model is tied to the code by a '
             'correspondence check that walks the real heap after every operation and compares with the compiled model, and get/set '
             'atomicity is read from the source each run.',
        design='5/C18',
        note='Trusted: Lean kernel; heap-walk abstraction; threading.Lock/GIL. Thread schedules are covered only as atomic-step interleavings '
             '(real threads are exercised, not proved). set(report_type=...) variant not modelled (unused by DeepDiff).',
        technique='Lean 4 proof (invariant + refinement by induction over histories) + differential correspondence with heap walk'),
}
CLAIMED['C15'] = dict(
    text='Lean 4 theorems over a stack-machine model of the restricted unpickler (all global-resolving opcodes GLOBAL, STACK_GLOBAL, INST, EXT*, and the callers '
         'REDUCE/NEWOBJ/NEWOBJ_EX/OBJ/BUILD): the allow-list gate is an invariant of every state of every run of every program (any length/nesting/protocol), a '
         'ForbiddenModule outcome names a global outside the list and nothing was resolved or called from it before; find_class admits exactly the joined string. '
         'SAFE_TO_IMPORT and the source of find_class/__init__/persistent_load are regenerated from /repo each run; correspondence runs every (module, attribute) name '
         'of the loaded modules and crafted programs for protocols 0-5 through the real unpickler and the compiled model.',
    design='5/C15',
    note='Trusted: Lean kernel; CPython routes global resolution through find_class except for the copyreg extension cache (modelled; finding F22); what allowed '
         'callables do when called is outside the model; memo sharing of mutable containers not modelled.',
    technique='Lean 4 proof (state invariant by induction over opcode steps) + differential correspondence against the real unpickler')
CLAIMED['C14'] = dict(
    text='Lean 4 theorem that the model unpickler inverts the model pickler on every payload of the delta vocabulary (any nesting/size: plain data, types as '
         'values, NoneType via persistent id, objects pickled through __reduce_ex__), hence every dump loads, re-dumping is stable and anything computed from the '
         'payload is unchanged; the globals such payloads name are on the regenerated allow-list. Tied to the code in both directions on every run: real '
         'Delta dumps are executed by the Lean VM and the model pickler output is loaded by the real restricted unpickler; payload, behaviour on several bases, '
         'bytes/file/path/JSON channels and second dumps are compared on the implementation.',
    design='5/C14',
    note='Trusted: Lean kernel; CPython pickler/unpickler and json (modelled, cross-validated, not verified). JSON text validity and numpy payloads are observed only. '
         'Known finding F11 (JSON + opcodes with builtin json).',
    technique='Lean 4 proof (decode . encode = id by mutual structural induction) + two-way differential correspondence')
CLAIMED['C09'] = dict(
    text='Lean 4 theorems over a character-level model of _path_to_elements/_add_to_elements/stringify_element/stringify_path: for key sequences of any length '
         'over SafeKeys (strings with arbitrary characters except both quote kinds together or U+1D1C0; ints, floats, None, bools) the parser recovers exactly the '
         'key sequence with GET actions, extract reaches the denoted location, and stringify_path (GET root) inverts parse_path. literal_eval/repr are parameters '
         '(assumptions LE/RE); the driver instance is proved to satisfy LE and compared with the real literal_eval. Correspondence: real reported paths, parse results '
         'and stringify results vs the compiled model on exhaustive short hostile strings and random deep sequences; boundary witnesses are Lean theorems + known findings.',
    design='5/C09',
    note='Trusted: Lean kernel; ast.literal_eval/repr (assumptions LE/RE, checked on the alphabet). The tree list-form path and object identity are observed on the implementation only.',
    technique='Lean 4 proof (fold induction over the character machine) + differential correspondence')
CLAIMED['C19'] = dict(
    text='Lean 4 theorems (over exact rationals, any operands, any positive maximum): the number distance lies in [0, max] and is 0 only for equal numbers; the same for '
         'datetimes, dates, timedeltas and times (all four fields, microseconds included - finding F24 was repaired in /repo) through the regenerated dispatch table, with a '
         'Lean negative witness for the datetime-vs-date case. Correspondence: the real _get_numbers_distance against the exact model on ints, short decimals and Decimals, and '
         'get_numeric_types_distance against the typed model on datetimes, dates, timedeltas and times. The '
         'deep_distance clauses (range, 0 when equal, positive when the default diff is non-empty) are evaluated on the implementation over generated nested pairs inside '
         'the stated domain; their model (delta view + DeepHash counts) is part of the diff-model work and is not yet a theorem.',
    design='5/C19',
    note='Trusted: Lean kernel + Mathlib order/field lemmas; IEEE rounding is outside the rational model (float findings F13c/F13d). deep_distance: modelled (Model/Distance/Deep.lean, op DDIST: the reported number is the model numerator over the model denominator on the ordered universe); '
         'its range is a theorem for nested dictionaries of any depth and for lists of scalars compared position by position, without a type change (C19_deep_distance_nested_dicts, C19_deep_distance_positional_lists: numerator <= denominator + number of type changes), the property is refuted in the model '
         'where the code refutes it (C19_N_deep_distance_exceeds_one = F13a); the positivity clause is a theorem for nested dictionaries all of whose parts are countable (C19_deep_distance_positive_nested_dicts; F17a-c are exactly the excluded inputs) and for lists of scalars other than None compared position by position (C19_deep_distance_positive_positional_lists); for two sets / frozensets of scalars the numerator, the denominator and the gap of 2 between them are theorems for any item hash (C19_deep_distance_sets, C19_deep_distance_frozensets, C19_deep_distance_positive_sets, C19_N_set_of_none); the distance is taken on the tree before added / removed pairs are folded (diffUnmerged), as in DeepDiff.__init__; '
         'lists in the default (difflib) mode, mixed nestings and ignore_order are observed, not proved. '
         'Known findings F13a, F13b, F17a, F17b, F17c, F25; F24, F49, F53, F54, F60 fixed in /repo.',
    technique='Lean 4 proof (rational arithmetic; induction over nested dictionaries for deep_distance) + differential correspondence; deep_distance outside the proved domain by evaluation')
CLAIMED['C20'] = dict(
    text='Lean 4 theorems over a file-system state machine of save_content_to_path/_save_content: for every file system, path, content and every fault point (open, '
         'serialise, write with any partial text, close) a failed save leaves the target with its original content, no stray .bak and no other path touched; a successful '
         'save writes the serialised content and keeps the backup exactly when asked. Correspondence: the real CLI (click CliRunner, scratch directory) with faults injected '
         'in-process vs the compiled model. The end-to-end clause (diff --create-patch, then patch => A loads equal to B, A.bak iff asked, A restored on any fault) is the composition '
         'theorem C20_patch_reproduces_at over a model of the two commands (Model/Cli/Patch.lean): for every codec that reads back what it writes (JSON text, persisted delta = C14), every '
         'fault point and every pair of documents on which the round trip of C01 holds; instantiated where C01 is a theorem (nested JSON objects of any depth; lists with recorded opcodes) '
         'and evaluated on the real CLI over generated documents elsewhere.',
    design='5/C20',
    note='Trusted: Lean kernel; POSIX rename/remove; OS-level partial writes; the restoring rename not failing. The text layers of the composition theorem (JSON reading / writing, '
         'pickle persistence of the delta) are parameters assumed to read back what they write; outside the domains where C01 is a theorem the end-to-end clause is observed, not proved.',
    technique='Lean 4 proof (case analysis over fault points of a state machine) + differential correspondence with in-process fault injection')
CLAIMED['C06'] = dict(
    text='Lean 4 theorems over a pure model of DeepHash._hash (every hasher, every value size/nesting): the hash of a dict does not depend on insertion order in any mode; '
         'of a set/frozenset on its listing (hence on PYTHONHASHSEED) and of a list/tuple on item order in the order-insensitive modes; a container depends on its children '
         'only through their hashes (permutations at any depth propagate). Sharing or pre-seeding the hash table: over a model of _hash with self.hashes threaded through (lookup by == '
         'before, store after), for every table that only holds right answers, every history of values hashed into it and every value of a universe on which keys the table identifies '
         'hash equally (NoNumAlias), the digest through the table is the digest computed from scratch (C06_memo_transparent, C06_shared_table_history, C06_preseeded); Lean negative '
         'witness outside that universe (F6: 1.0 answered with the digest of 1). Negative witness in Lean for sets in the ordered mode (F19). The model is tied to the code by '
         'bit-for-bit digest and count comparison (own SHA-256) over generated values x 4 modes, incl. apply_hash=False serialisations; deep copies, re-inserted dicts, '
         'permuted lists, shared / pre-seeded / long-lived tables and 3-16 PYTHONHASHSEED subprocesses are evaluated on the implementation; the table model is compared digest for digest with '
         'DeepHash(w) followed by DeepHash(v, hashes=table), aliasing pairs included.',
    design='5/C06',
    note='Trusted: Lean kernel; hashlib.sha256 (parameter). Unhashable objects are stored under their id and never found again in a tree-shaped value (recycled ids of freed '
         'objects and in-place edits between calls are exercised on the implementation only). PYTHONHASHSEED subprocesses: evaluation. Known findings F6, F19.',
    technique='Lean 4 proof (permutation invariance via sorted-permutation uniqueness) + bit-exact differential correspondence')
CLAIMED['C07'] = dict(
    text='Lean 4 theorem (set and multiset modes, i.e. order ignored, the default): for every injective hasher whose digests are non-empty and free of the framing characters , | : ; '
         '(hex digests are), inside NoSpoof (no str leaf spelling a serialisation), with canonical floats and scalar dictionary keys on which == is identity (NoNumAlias), two values of any '
         'size and nesting with equal digests are equivalent: same type; lists / tuples with the same set of item digests (same multiplicities when repetition counts); sets with the same '
         'member digests; dictionaries with the same keys and, recursively, equivalent values; equal scalars (C07_equal_digests_equivalent, C07_different_content_differs, '
         'C07_scalar_injective, C07_list_members). The proof is the unique decodability of the framing (joinWith_inj, append_sep_str_inj), the injectivity of int / float rendering '
         '(reprInj is proved, not assumed) and a one-entry-per-digest invariant of the item table. The hypotheses on the hasher are shown satisfiable (escH). Negative witnesses as '
         'theorems for what the domain excludes: strings spelling a serialisation (F5), repeats in the ordered mode (F7), apply_hash=False framing. PARTIAL: the ordered mode '
         '(ignore_iterable_order=False) has no positive theorem; there and for datetimes / numpy / objects the property is decided by evaluation (all pairs of a near-collision pool x 3 modes '
         'against an independent reference equivalence). The model is tied to the code by bit-exact digest comparison (own SHA-256).',
    design='5/C07',
    note='Trusted: Lean kernel; SHA-256 collision freedom (the theorem assumes an injective hasher). Ordered mode: evaluation only. Known findings F5a-e, F7.',
    technique='Lean 4 proof (unique decodability of the hash framing, mutual structural induction) + negative-witness theorems + bit-exact correspondence + near-collision pool')
_DIFFMODEL = ('Model = Lean port of DeepDiff._diff and its _diff_* family (dispatch, dict key sets and threshold shortcut, difflib pass vs pairwise pass, moved items, '
              'set diff by DeepHash, add/remove fold) plus TextResult; tied to the code on every run by comparing the complete text view and the recorded opcodes of the real '
              'DeepDiff with the compiled model (own difflib port and SHA-256) over generated pairs. ')
CLAIMED['C02'] = dict(
    text='Lean 4 theorem: for every well-formed value of any size/nesting, every ordered configuration (both alignment modes, every threshold in [0,1], private keys, '
         'exclude/include paths), every reflexive alignment oracle and every hasher, the diff of a value with a structural copy is empty in every view and verbosity. '
         'Conversely (C02_empty_implies_equal): without path restrictions, for both alignment modes, every threshold, any size and nesting, an empty result implies t1 == t2 '
         '(Python equality, pyEq) - for every difflib oracle whose all-equal answers are right (AlignSound, checked against the real difflib on every run), dictionary keys from a '
         'universe on which == is identity and that holds no ignored private key, sets without repeated members whose item hash is injective (proved for the DeepHash model and '
         'every injective hasher inside NoSpoof: C02_set_members_deephash). Lean negative witness for the spoofed-set case. ' + _DIFFMODEL + 'On the implementation the converse '
         'is also evaluated over single-edit neighbours, random edits and rich leaf types x view x verbosity x threshold x zip x cache_size x max_passes (and ignore_order for copies).',
    design='5/C02',
    note='Trusted: Lean kernel; difflib reflexivity and soundness of all-equal answers (both checked by the harness on the real difflib); SHA-256 collision freedom for the set case. Input non-mutation, numpy, datetimes and the tree view observed only. Known findings F5e, F39.',
    technique='Lean 4 proof (mutual structural induction over the value, both directions) + differential correspondence')
CLAIMED['C03'] = dict(
    text='Lean 4 theorem (C03_model_eq_spec): in positional mode with threshold 0, for every pair of values of any size and nesting (dictionaries with pairwise different hashable keys '
         'from a universe on which == is identity), the entries of the model tree - category, path steps, both values, text-diff flag - are exactly the entries of specV, a Lean copy of '
         'the recursive definition of structural difference (nothing missing, nothing extra, nothing at another path; as a multiset, the definition being a dictionary keyed by path). '
         'Lemmas: the model never takes the dictionary shortcut, never consults the alignment oracle and records no opcodes. ' + _DIFFMODEL + 'The complete verbose text view of the '
         'implementation is compared with the same definition written in Python (~70 lines) on every generated pair (types, values, paths, unified diffs recomputed and compared verbatim).',
    design='5/C03',
    note='Trusted: Lean kernel; the Python copy of the specification and the canonicaliser; difflib.unified_diff (the text-diff flag is modelled, the diff text is compared on the implementation). The final merge of add/remove pairs is outside the theorem (stated for report_repetition=True, or for the tree before the merge).',
    technique='Lean 4 proof (model = recursive specification up to permutation, mutual induction) + differential correspondence + executable specification')
CLAIMED['C04'] = dict(
    text='Lean 4 theorem: for every alignment oracle (valid or not), both modes, every threshold, whichever pass wins, any size/nesting, every non-set entry of the diff of '
         'two well-formed values extends the root, its t1 is what the t1-side params lead to in t1 and its t2 what the t2-side params lead to in t2 (changed values/types, '
         'added/removed dict and iterable items, moved items); set items are members; a folded add+remove takes t1/steps from the removed and t2 from an added entry with the same '
         'rendered path; changed leaves differ. keyEq is proved an equivalence (dict lookup = Python semantics). Lean witness for finding F15. ' + _DIFFMODEL +
         'On the implementation every entry is resolved with extract() against the inputs.',
    design='5/C04',
    note='Trusted: Lean kernel; path strings are tied to params by C09. Partial: "the two really differ" is proved for leaves, not for type_changes/threshold entries and not for folds (F15).',
    technique='Lean 4 proof (mutual structural induction with index-offset invariants) + differential correspondence')
CLAIMED['C10'] = dict(
    text='Lean 4 theorems: the text view is exactly the tree filtered by the documented visibility table (one entry per visible tree entry, same categories, same path and payload), '
         'at verbose_level 2 nothing is hidden, pretty() has one statement per change, and every node is backed by the inputs along its chain from the root (C04 theorem). '
         + _DIFFMODEL + 'On the implementation the real tree is walked (object identity of t1/t2 with input sub-objects, up/down symmetry, root), to_dict(view_override) both ways, '
         'json.loads(to_json()) categories/paths, pretty() statements counted, for ignore_order x report_repetition x verbosity.',
    design='5/C10',
    note='Trusted: Lean kernel; heap identity/pointers and JSON text validity are observed, not proved; ignore_order rows are implementation-only until that model is registered.',
    technique='Lean 4 proof (list induction over the tree) + heap walk abstraction + differential correspondence')
CLAIMED['C13'] = dict(
    text='PARTIAL. Lean 4 theorem (C13_exclude_is_filter): in positional mode with threshold 0, for every pair of values of any size and nesting and every list E of exclude_paths, '
         'the restricted result is exactly the unrestricted result minus the entries whose path has an excluded path on the way from the root (the entry itself included): nothing else '
         'is dropped, added or changed; corollary: nothing below an excluded path is ever reported. The equation is proved once for every restriction of the exclusion kind (C13_restriction_is_filter: any skip test H, same keys and mode) and instantiated for anchored exclude_regex_paths ^<path>(\\[|$), alone or together with exclude_paths (C13_exclude_regex_is_filter, C13_nothing_below_matched). Lemmas: literal exclusion is exact membership of the level path, anchored regexes '
         'skip exactly at-or-below, an excluded child contributes nothing; Lean witnesses for include with non-string keys (F10a/c) and the threshold leak (F10b). ' + _DIFFMODEL.replace('over generated pairs', 'under the same path options over generated pairs') +
         'For general regular expressions, include_paths and the default alignment mode (dict-key paths) the filter equation is decided on the implementation for every existing path, singles and pairs.',
    design='5/C13',
    note='Trusted: Lean kernel; re module. Partial: the theorems cover exclude_paths and anchored exclude_regex_paths in positional mode; general regex / include / default alignment rest on evaluation. Known findings F10a, F10b, F10c.',
    technique='Lean 4 proof (mutual structural induction with a prefix invariant on entry paths) + differential correspondence; regex / include by evaluation over all existing paths')
_DELTAMODEL = ('Model = Lean port of DeepDiff._to_delta_dict (payload from the diff tree, incl. opcodes with old/new slices), Delta.__add__ (the phases in the order '
               'regenerated from the source each run, tuple coercion and post-processing, path sorting and its fallback comparator, closest-element search) and '
               '_get_reverse_diff / __rsub__; tied to the code on every run by comparing the canonical payload, t1 + delta and t2 - delta outcomes (value, logged error, escaped '
               'exception) of the real Delta with the compiled model over generated pairs. ')
CLAIMED['C01'] = dict(
    text='PARTIAL. Lean 4 theorems: the round trip end to end (diff model, payload, phases of Delta.__add__ in the regenerated order) for every pair of scalars - equal or not, of one type or two, directed or not, with or without always_include_values - and whenever the whole difference is one change at the root (values of different types, dictionaries below threshold_to_diff_deeper): the result is t2, or new_type(t1) == t2 when the delta leaves the values out (C01_scalars_roundtrip, C01_root_change_roundtrip), and for every pair of flat dictionaries - string keys, scalar values, any number of keys added, removed, changed in value and changed in type at once, any threshold_to_diff_deeper (C01_flat_dict_roundtrip: the four phases used are dictionary programs over pairwise different keys; the result is a dictionary == t2 with no error logged), for every pair of NESTED dictionaries - string keys at every level, scalar leaves, any depth, any mix of differences at any levels, sub-dictionaries replaced as a whole by the threshold shortcut included (C01_nested_dict_roundtrip: induction on the nesting; an entry whose path starts with a key acts on the child under that key, the lookup of every key after the four phases is the round trip of the child under it), and for every pair of lists of scalars compared position by position - any lengths, changed values and types, a removed or an appended tail - in positional mode and, in the default mode, whenever the pairwise pass is the one DeepDiff keeps (C01_list_positional_roundtrip, C01_list_pairwise_roundtrip: item assignments at different indexes, removals from the largest index down as Delta sorts them, additions appended in order; the result is a list with items == those of t2) and, in the default mode with recorded opcodes (the difflib pass kept: at least two entries, fewer than the pairwise pass), for every alignment that tiles the lists with monotone blocks the result is exactly the list t2 (C01_list_opcodes_roundtrip: the change entries write only inside blocks that are not equal, the rebuild reads only the equal blocks), and for every pair of sets whose members are told apart consistently by == and by the item hash (C01_set_roundtrip: union with the added members, difference with the removed ones); opcode replay over any tiling reproduces the new item list (lists and tuples, any length), an empty payload is the identity in every phase '
         'order, the delta of a well-formed value with its copy applies as the identity (every ordered configuration), a written location reads back the written value; Lean '
         'witnesses for the two open findings (set / tuple edited inside a tuple). ' + _DELTAMODEL + 'The round trip itself (t1 + Delta(DeepDiff(t1,t2)) == t2 with container types, inputs '
         'untouched) is decided on the implementation over generated pairs x zip x threshold x verbosity x view x always_include_values, chains of <= 6 edits, and '
         'ignore_order+report_repetition on lists of distinct scalars; its Lean theorem for arbitrary pairs is not proved yet.',
    design='5/C01',
    note='Trusted: Lean kernel; difflib returns a monotone tiling (checked on every observed opcode list). Round trip for arbitrary pairs rests on evaluation + model correspondence. '
         'Fixed in /repo: F1, F2, F3, F4a (C01), F23. Known findings F4b, F4c.',
    technique='Lean 4 lemmas (fold induction, tiling) + differential correspondence of payload and application; round trip by evaluation inside Dom_C01')
CLAIMED['C08'] = dict(
    text='PARTIAL. Lean 4 theorems: a non-bidirectional delta refuses subtraction; reversal is an involution on every ordered-mode payload and swaps the additive categories; a '
         'values_changed/type_changes entry whose location holds a value != the recorded old value adds an error in any state, errors are never forgotten through any later '
         'phase, hence (C08_detects) a corrupted base is never accepted silently by the values_changed phase; exact inversion end to end for every pair of flat dictionaries - string keys, scalar values, any threshold (C08_flat_dict_inverse: with the bidirectional payload t1 + delta == t2 and t2 - delta == t1, every recorded old value verified, no error logged), of nested dictionaries of any depth (C08_nested_dict_inverse: the reversed payload of a level is the family of the reversed payloads of the children, so the same level lemma applies with the two dictionaries exchanged) of sets (C08_set_inverse) and of lists of scalars in positional mode (C08_list_positional_inverse). ' + _DELTAMODEL + 'Exact inversion for the other shapes (t2 - delta == t1, re-adding, '
         '+,-,+ sequences <= 6) is decided on the implementation over generated pairs; every single-location corruption at a values_changed/type_changes path is applied with '
         'raise_errors True and False and compared with the model.',
    design='5/C08',
    note='Trusted: Lean kernel; logging. Exact inversion beyond nested dictionaries and positional lists of scalars rests on evaluation + model correspondence (its Lean theorem is not proved yet). Fixed in /repo: F23 '
         '(__rsub__ left the delta reversed after an exception). Known findings F4b, F4c.',
    technique='Lean 4 proof (monotone error counter by induction over entries and phases) + differential correspondence incl. corrupted bases')
CLAIMED['C16'] = dict(
    text='Lean 4 theorems over a model of DeepSearch.__search and its __search_dict/__search_iterable/__search_str/__search_numbers/__skip_this (regular expressions as opaque '
         'predicates): for every object of any size and nesting, every scalar item, every mode (case, exact, regexp, strict/loose numbers) and every exclusion set, every matched_values '
         'hit is a leaf that matches under the mode at a location reachable without crossing an exclusion and carries that location\'s value (soundness, incl. the iterable equality '
         'shortcut), every such leaf is reported (completeness), matched_paths are exactly the non-excluded children of reachable dictionaries whose path text matches, and no '
         'reported location is excluded. Tied to the code by comparing the full result of the real DeepSearch / grep with the compiled model (own regex matcher for the pattern subset) '
         'and with an independent reference search over generated objects x items drawn from leaves, substrings, keys, absent values x the mode grid x exclusions; extract() is run on '
         'every matched_values path; the object is snapshotted.',
    design='5/C16',
    note='Trusted: Lean kernel; re (opaque in the theorems; the driver matcher is compared on every case); str.lower restricted to ASCII-cased strings; path text -> location is C09. '
         'Object non-mutation is observed, not proved. Fixed in /repo: F12a/b (exclusions tested against the item, matched_paths before the skip test), F12c (quotes in keys), '
         'F12d (walking str methods for a None item), F12e (loose numbers under case-insensitive search).',
    technique='Lean 4 proof (mutual structural induction for soundness, induction over reachability derivations for completeness) + differential correspondence + independent reference')
CLAIMED['C11'] = dict(
    text='PARTIAL. Lean 4 theorem over an option-aware port of the ordered _diff family (type groups, _diff_str, _diff_numbers with number_to_string / isclose on exact decimals, key '
         'cleaning in _diff_dict, exclude_types, the DeepHash pre-image of set members): values that are similar under the options (position by position, dict keys by cleaned key: '
         'letter case, str/bytes, int/float of equal value, equal significant-digit rendering, within math_epsilon, excluded types, private keys) give an empty diff, for every option set, '
         'threshold, size and nesting, both alignment modes and every alignment oracle; each normaliser is proved to land in '
         'the similarity relation; the relation is reflexive on well-formed values, so a copy gives an empty diff under every option set, colliding cleaned keys included (C11_copy_empty_all_options). The model is tied to the code by comparing the complete text view under random option '
         'sets. Clauses (2) plain-empty => option-empty and (3) no option makes DeepDiff raise, and the datetime / nan / enum options, are decided on the implementation over generated '
         'values x single options and all pairs; their Lean theorems are not proved.',
    design='5/C11',
    note='Trusted: Lean kernel; binary floating point rounding in number_to_string and isclose (the model uses exact decimals; inexact ties are outside the '
         'universe); datetime / zoneinfo. truncate_datetime, default_timezone, ignore_nan_inequality, use_enum_value: observed only. Fixed in /repo: F9, F26, F27.',
    technique='Lean 4 proof (mutual structural induction over a similarity relation) + differential correspondence under options; monotonicity and totality by evaluation')
_IOMODEL = ('Model = Lean port of _diff with ignore_order=True (_create_hashtable, added / removed hash sets, pairing consumption in get_other_pair, recursive diff of a pair, '
            'iterable_item_added / removed, repetition_change, dict / set / leaf handling as in the ordered model); the pairing decisions (rough distances, cutoffs, passes, distance '
            'cache) are an oracle: the theorems quantify over every pairing, the driver receives the pairs observed in the real run (two methods wrapped in the harness process). ')
CLAIMED['C05'] = dict(
    text='PARTIAL. Lean 4 theorem: for every pairing oracle (hence every cutoff_distance_for_pairs, cutoff_intersection_for_pairs, max_passes, cache_size), report_repetition setting, '
         'threshold in [0,1], size and nesting, the ignore-order result is empty exactly when the pairing-free verdict holds (dicts key by key, lists/tuples by the set of item hashes - '
         'and equal multiplicities with report_repetition -, sets by member hashes, leaves by type and value); corollary: the emptiness verdict is knob independent. The only property '
         'of the item hash used is HashSound (values the diff cannot tell apart hash equally), which is proved for the DeepHash model for every hasher (C05_verdict_deephash); no injectivity. ' + _IOMODEL + 'Tied to the code by comparing the complete result of '
         'the real DeepDiff with the compiled model over shuffles, duplications, near-duplicates and edits at every depth x the knob grid. That the hash-level verdict is '
         'nested set / multiset equality of the items up to the verdict is a theorem too (C05_list_is_nested_set_equality in Properties/C12.lean, from the injectivity of the hash framing, C07); on the implementation it is decided against an independent reference equality.',
    design='5/C05',
    note='Trusted: Lean kernel; pairing observed, not modelled. The semantic reading '
         '(hash verdict = nested set equality) needs an injective hasher (SHA-256 collision freedom). Domain: NoSpoof, NoNumAlias jointly.',
    technique='Lean 4 proof (mutual structural induction, fold invariants) + differential correspondence with observed pairing + independent reference equality')
CLAIMED['C12'] = dict(
    text='PARTIAL. Lean 4 theorems: every normalisation option the two engines share is handed from DeepDiff to DeepHash (over the table regenerated from DEEPHASH_PARAM_KEYS and '
         '_get_deephash_params on every run); in the ignore-order model, for every pairing, the diff is empty exactly when at every list both sides have the same set of item hashes '
         '(same multiplicities with report_repetition = not ignore_repetition), dictionaries agree key by key and leaves are equal; that the DeepHash model respects this verdict '
         '(HashSound) is proved for every hasher - lists, tuples, sets, dictionaries, leaves - on the domain NoNumAlias keys / distinct member hashes / canonical floats, so '
         '"empty order-ignoring diff => equal DeepHash digests" is a theorem with no assumption about the hash. ' + _IOMODEL + 'The equivalence DeepHash(a)[a] == DeepHash(b)[b] <=> DeepDiff(a, b, ignore_order=True) == {} itself is decided on the '
         'implementation for each shared option (string case / type, numeric type, significant digits f and e, truncate_datetime, default_timezone, use_enum_value), pairs of options, '
         'both report_repetition settings, over structural pairs and pairs that differ only in what the option ignores. Without options the equivalence is a theorem of the model: '
         'C12_equal_deephash_iff_empty_diff (every pairing, report_repetition setting, threshold; injective hasher with separator-free digests; NoSpoof, NoNumAlias, canonical floats) - the '
         'direction equal digests => empty diff is the injectivity of the hash framing (C07).',
    design='5/C12',
    note='Trusted: Lean kernel; SHA-256 (a parameter; the direction equal digests => empty diff assumes it injective). Options are not part of the ignore-order Lean model (observed only). '
         'Fixed in /repo: F28 (truncate_datetime was not forwarded). Known finding F18 (1 vs 1.0 through the shared hashes table).',
    technique='Lean 4 proof (table membership by decide; C05 induction) + evaluation of the equivalence under every shared option')
CLAIMED['C17'] = dict(
    text='PARTIAL. Lean 4 theorems: the memoisation of _get_rough_distance_of_hashed_objs over the LFU cache model of C18 (membership test, get, computation, set - the shape is '
         'regenerated from the source each run) returns exactly the directly computed values for every capacity, every history of queries, every on/off schedule of the auto-tuner and '
         'every coherent shared cache state, provided the memoised value is a function of the cache key; the ignore-order result depends on the caches only through the pairing and its '
         'emptiness not at all. Tied to the code by replaying the recorded cache traffic of real runs in the compiled model (hit / miss sequences) and checking the query grammar. '
         'Identity of the complete result across cache_size x cache_tuning_sample_size x cache_purge_level x repeated runs x a pre-seeded hashes table, and of DeepDiff / DeepHash / Delta '
         'results under 8-16 threads with switch interval 1e-6, is decided on the implementation.',
    design='5/C17',
    note='Trusted: Lean kernel; CPython thread scheduling (sampled); that a rough distance / a pairing is a function of its cache key (assumption; finding F16 is where it shows). '
         'cache_purge_level, hashes tables and threads are observed, not modelled.',
    technique='Lean 4 proof (invariant over LFU steps, refinement from C18) + cache-traffic replay + evaluation across cache settings and threads')
NA = {}

checks = []
for p in props:
    i = p['id']
    if i in CLAIMED:
        c = CLAIMED[i]
        checks.append({
            'property_id': i,
            'quick_cmd': '/venv/bin/python check.py %s --tier quick' % i,
            'thorough_cmd': '/venv/bin/python check.py %s --tier thorough' % i,
            'evidence_file': 'evidence/%s.json' % i,
            'replay_cmd_template': '/venv/bin/python check.py %s --replay {path}' % i,
            'engine': 'lean4-proof+correspondence',
            'level_claimed': {'category': 'proof', 'text': c['text'], 'design_ref': c['design']},
            'level_note': c['note'],
            'technique': c['technique'],
        })
na = [{'property_id': p['id'], 'reason': NA.get(p['id'], 'not built yet in this revision (model and theorems planned in DESIGN.md section 5); nothing is claimed for it')}
      for p in props if p['id'] not in CLAIMED]
m = {
    'version': 1,
    'setup_cmd': 'cd /verif && /venv/bin/python -m harness.tables && cd lean && lake build',
    'hooks': {'guard': 'DEEPDIFF_VERIF', 'enable': 'no source hooks are used; wrappers are installed by the harness in its own process',
              'baseline_off_cmd': 'cd /repo && /venv/bin/python -m pytest -q -p no:cacheprovider --timeout=900 --continue-on-collection-errors',
              'source_commits': [], 'add_only': True},
    'engines': [{'name': 'lean4-proof+correspondence', 'path': 'check.py', 'serves_properties': sorted(CLAIMED),
                 'kind_free_text': 'Lean 4 theorems about hand-written executable models (lean/), tied to /repo by a differential correspondence check (harness/) and tables regenerated from the source'}],
    'checks': checks,
    'notes': 'See DESIGN.md. exit 2 = machinery failure (never a VIOLATION).',
    'not_applicable': na,
}
json.dump(m, open(os.path.join(HERE, 'MANIFEST.json'), 'w'), indent=1)
print('claimed', sorted(CLAIMED), 'na', len(na))
