"""Source -> Lean tables.  Parses /repo/deepdiff/*.py with `ast` on every run and rewrites
lean/Model/Generated/Tables.lean.  Returns True when the generated text differs from the committed
reference (lean/Model/Generated/Tables.ref), i.e. when the source's tabular content changed."""
import ast, os
from . import core

OUT = os.path.join(core.LEAN, 'Model', 'Generated', 'Tables.lean')
REF = os.path.join(core.LEAN, 'Model', 'Generated', 'Tables.ref')


def _src(name):
    return open(os.path.join(core.REPO, 'deepdiff', name), encoding='utf-8').read()


def lean_str(s):
    return '"' + s.replace('\\', '\\\\').replace('"', '\\"').replace('\n', '\\n') + '"'


def lean_list(xs):
    return '[' + ', '.join(xs) + ']'


def lfu_locked_methods():
    """Methods of LFUCache whose whole body is a single `with self.lock:` block."""
    t = ast.parse(_src('lfucache.py'))
    res = {}
    for node in t.body:
        if isinstance(node, ast.ClassDef) and node.name == 'LFUCache':
            for fn in node.body:
                if isinstance(fn, ast.FunctionDef):
                    body = [b for b in fn.body if not (isinstance(b, ast.Expr) and isinstance(getattr(b, 'value', None), ast.Constant))]
                    locked = (len(body) == 1 and isinstance(body[0], ast.With) and
                              any(ast.unparse(i.context_expr) == 'self.lock' for i in body[0].items))
                    res[fn.name] = locked
    return res


def safe_to_import():
    t = ast.parse(_src('serialization.py'))
    for node in t.body:
        if isinstance(node, ast.Assign) and any(isinstance(x, ast.Name) and x.id == 'SAFE_TO_IMPORT' for x in node.targets):
            vals = sorted(ast.literal_eval(node.value))
            return ['/-- `deepdiff.serialization.SAFE_TO_IMPORT` -/',
                    'def safeToImport : List String := ' + lean_list([lean_str(v) for v in vals]), '']
    raise ValueError('SAFE_TO_IMPORT literal not found in serialization.py')


def find_class_shape():
    """The shape facts about _RestrictedUnpickler the model relies on, read from the AST:
    (1) find_class tests membership of '{}.{}'.format(module, name) in self.safe_to_import before any lookup,
    (2) the only `raise ForbiddenModule` is in find_class, (3) __init__ only ever unions safe_to_import with SAFE_TO_IMPORT."""
    t = ast.parse(_src('serialization.py'))
    facts = {}
    for node in t.body:
        if isinstance(node, ast.ClassDef) and node.name == '_RestrictedUnpickler':
            for fn in node.body:
                if isinstance(fn, ast.FunctionDef) and fn.name == 'find_class':
                    facts['find_class_src'] = ast.unparse(fn)
                if isinstance(fn, ast.FunctionDef) and fn.name == '__init__':
                    facts['init_src'] = ast.unparse(fn)
                if isinstance(fn, ast.FunctionDef) and fn.name == 'persistent_load':
                    facts['persistent_load_src'] = ast.unparse(fn)
    import hashlib
    out = ['/-- normalised source (ast.unparse) of the three methods of _RestrictedUnpickler the VM model was written after; a change here is a correspondence break to be re-examined -/']
    for k in ('find_class_src', 'init_src', 'persistent_load_src'):
        if k not in facts:
            raise ValueError('_RestrictedUnpickler.%s not found' % k)
        out.append('def restrictedUnpickler_%s : String := %s' % (k, lean_str(facts[k])))
    out.append('')
    return out


def types_to_dist_func():
    t = ast.parse(_src('distance.py'))
    for node in t.body:
        if isinstance(node, ast.Assign) and any(isinstance(x, ast.Name) and x.id == 'TYPES_TO_DIST_FUNC' for x in node.targets):
            rows = [(ast.unparse(e.elts[0]), ast.unparse(e.elts[1])) for e in node.value.elts]
            out = ['/-- `deepdiff.distance.TYPES_TO_DIST_FUNC` (type, function), in dispatch order -/',
                   'def typesToDistFunc : List (String × String) := ' + lean_list(['(%s, %s)' % (lean_str(a), lean_str(b)) for a, b in rows]), '']
            fns = {}
            for n2 in t.body:
                if isinstance(n2, ast.FunctionDef) and n2.name in ('_get_numbers_distance', '_get_datetime_distance', '_get_date_distance',
                                                                     '_get_timedelta_distance', '_get_time_distance', 'get_numeric_types_distance'):
                    src = ast.unparse(n2)
                    # drop the docstring so that comment edits do not count
                    if n2.body and isinstance(n2.body[0], ast.Expr) and isinstance(getattr(n2.body[0], 'value', None), ast.Constant):
                        n3 = ast.FunctionDef(name=n2.name, args=n2.args, body=n2.body[1:] or [ast.Pass()], decorator_list=n2.decorator_list, returns=n2.returns, type_comment=None, lineno=0, col_offset=0)
                        src = ast.unparse(ast.fix_missing_locations(n3))
                    fns[n2.name] = src
            out.append('/-- normalised source of the distance functions the model was written after -/')
            for k in sorted(fns):
                out.append('def distanceSrc_%s : String := %s' % (k.strip('_'), lean_str(fns[k])))
            out.append('')
            return out
    raise ValueError('TYPES_TO_DIST_FUNC not found')


def delta_phases():
    """the `self._do_*()` calls inside Delta.__add__, in order"""
    t = ast.parse(_src('delta.py'))
    for node in t.body:
        if isinstance(node, ast.ClassDef) and node.name == 'Delta':
            for fn in node.body:
                if isinstance(fn, ast.FunctionDef) and fn.name == '__add__':
                    calls = []
                    for st in ast.walk(fn):
                        if isinstance(st, ast.Expr) and isinstance(st.value, ast.Call) and isinstance(st.value.func, ast.Attribute) \
                                and isinstance(st.value.func.value, ast.Name) and st.value.func.value.id == 'self' and st.value.func.attr.startswith('_do_'):
                            calls.append((st.lineno, st.value.func.attr))
                    calls.sort()
                    out = ['/-- the phases of `Delta.__add__`, in call order -/',
                           'def deltaPhases : List String := ' + lean_list([lean_str(c) for _, c in calls]), '']
                    rs = None
                    for fn2 in node.body:
                        if isinstance(fn2, ast.FunctionDef) and fn2.name == '_get_reverse_diff':
                            for st in ast.walk(fn2):
                                if isinstance(st, ast.Assign) and any(isinstance(x, ast.Name) and x.id == 'SIMPLE_ACTION_TO_REVERSE' for x in st.targets) and isinstance(st.value, ast.Dict):
                                    rs = sorted(ast.literal_eval(st.value).items())
                    if rs is None:
                        raise ValueError('SIMPLE_ACTION_TO_REVERSE not found')
                    out += ['/-- `SIMPLE_ACTION_TO_REVERSE` as written (it is then closed under inversion) -/',
                            'def simpleActionToReverse : List (String × String) := ' + lean_list(['(%s, %s)' % (lean_str(a), lean_str(b)) for a, b in rs]), '']
                    return out
    raise ValueError('Delta.__add__ not found')


def _diff_class():
    t = ast.parse(_src('diff.py'))
    for node in t.body:
        if isinstance(node, ast.ClassDef) and node.name == 'DeepDiff':
            return t, node
    raise ValueError('class DeepDiff not found')


def deephash_forwarding():
    """the option names DeepDiff hands to DeepHash: DEEPHASH_PARAM_KEYS plus the keys _get_deephash_params sets itself"""
    t, cls = _diff_class()
    keys = None
    for node in t.body:
        if isinstance(node, ast.Assign) and any(isinstance(x, ast.Name) and x.id == 'DEEPHASH_PARAM_KEYS' for x in node.targets):
            keys = list(ast.literal_eval(node.value))
    if keys is None:
        raise ValueError('DEEPHASH_PARAM_KEYS not found')
    extra = []
    for fn in cls.body:
        if isinstance(fn, ast.FunctionDef) and fn.name == '_get_deephash_params':
            for st in ast.walk(fn):
                if isinstance(st, ast.Assign) and len(st.targets) == 1 and isinstance(st.targets[0], ast.Subscript) \
                        and isinstance(st.targets[0].value, ast.Name) and st.targets[0].value.id == 'result' and isinstance(st.targets[0].slice, ast.Constant):
                    extra.append(st.targets[0].slice.value)
    return ['/-- the parameters `DeepDiff` passes on to `DeepHash` (`DEEPHASH_PARAM_KEYS` and what `_get_deephash_params` adds) -/',
            'def deephashForwarded : List String := ' + lean_list([lean_str(k) for k in keys + extra]), '']


def memo_shape():
    """the memoisation in _get_rough_distance_of_hashed_objs, normalised: which cache calls it makes, in order"""
    t, cls = _diff_class()
    for fn in cls.body:
        if isinstance(fn, ast.FunctionDef) and fn.name == '_get_rough_distance_of_hashed_objs':
            events = []
            for st in ast.walk(fn):
                if isinstance(st, ast.Compare) and any(isinstance(o, ast.In) for o in st.ops) and 'self._distance_cache' in ast.unparse(st):
                    events.append((st.lineno, st.col_offset, 'contains'))
                if isinstance(st, ast.Call) and isinstance(st.func, ast.Attribute) and ast.unparse(st.func.value) == 'self._distance_cache':
                    events.append((st.lineno, st.col_offset, st.func.attr))
                if isinstance(st, ast.Call) and ast.unparse(st.func) == 'DeepDiff':
                    events.append((st.lineno, st.col_offset, 'compute'))
            events.sort()
            guards = [ast.unparse(st.test) for st in ast.walk(fn) if isinstance(st, ast.If)]
            return ['/-- `_get_rough_distance_of_hashed_objs`: the cache operations and the computation, in source order, and the `if` guards -/',
                    'def memoEvents : List String := ' + lean_list([lean_str(e[2]) for e in events]),
                    'def memoGuards : List String := ' + lean_list([lean_str(g) for g in guards]), '']
    raise ValueError('_get_rough_distance_of_hashed_objs not found')


GENERATORS = [safe_to_import, find_class_shape, types_to_dist_func, delta_phases, deephash_forwarding, memo_shape]


def generate():
    parts = ['/- GENERATED by /verif/harness/tables.py from /repo/deepdiff on every run. Do not edit. -/',
             'namespace Gen', '']
    lm = lfu_locked_methods()
    parts.append('/-- methods of LFUCache whose whole body runs under `with self.lock` -/')
    parts.append('def lfuLockedMethods : List String := ' + lean_list([lean_str(k) for k in sorted(lm) if lm[k]]))
    parts.append('')
    for g in GENERATORS:
        parts.extend(g())
    parts.append('end Gen')
    return '\n'.join(parts) + '\n'


def regenerate(ctx=None):
    text = generate()
    os.makedirs(os.path.dirname(OUT), exist_ok=True)
    with core.LakeLock():
        old = open(OUT).read() if os.path.exists(OUT) else None
        if old != text:
            with open(OUT, 'w') as f:
                f.write(text)
    ref = open(REF).read() if os.path.exists(REF) else None
    return ref != text


if __name__ == '__main__':
    import sys
    regenerate()
    if '--ref' in sys.argv:
        open(REF, 'w').write(open(OUT).read())
    print(open(OUT).read())
