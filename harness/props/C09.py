"""C09 — path strings round-trip: report -> extract / parse_path -> same location."""
import itertools, ast
from .. import core
from ..pkl import enc_str

ID = 'C09'
LEAN_TARGETS = ['Properties.C09']
THEOREMS = ['Path.C09_roundtrip', 'Path.C09_parse_path', 'Path.C09_extract', 'Path.C09_stringify_inverts',
            'Path.C09_leImpl_ok', 'Path.C09_N_both_quotes', 'Path.C09_N_default_root']
RULE = ('key sequences of depth <= 4 over dictionary keys (hostile strings: quotes, brackets, dots, backslash, whitespace, newline, tab, '
        'non-ASCII, "root", "__", digits; ints, short floats, None, bools) and list indexes; exhaustive for strings up to a length bound over '
        'the hostile alphabet. distinct = distinct key sequence; non-trivial = contains a string key with a special character or a non-string key')
TRUSTED_BASE = ['ast.literal_eval and repr are parameters of the model (assumptions LE/RE); the driver instance leImpl is compared with the real literal_eval '
                'on every element text met, exhaustively for quoted strings <= 3 over the hostile alphabet']
ASSUMPTIONS = ['floats are short decimals identified with their repr', 'attribute (.x) steps are outside the property (dictionary keys and list indexes only)']

ESC = '\U0001D1C0'
ALPHA = ["'", '"', '[', ']', '.', '\\', ' ', '\n', '\t', 'é', 'a', '_', '0', '1']
WORDS = ['100%', 'a%%b', '%d', '%s%s', '%', 'root', '__', '__x', 'a', 'ab', "it's", 'say "x"', 'x y', 'a.b', 'a[0]', "a']['b", 'C:\\tmp', '\\', '', 'é', '0', '1.5', 'None', 'True',
         "'", '"', ']', '[', 'a]', '[a', "'a'", '"a"', 'root[1]', 'a\nb', 'tab\there', '\\"', "'\n", "x\\'", ' ', '  lead', 'trail ', '𝄞']
NONSTR = [0, 1, 2, 10, -1, 255, 1.5, 0.1, 2.25, -3.5, 100.0, 1.0, 0.0, None, True, False]


class Idx(int):
    """a list index (as opposed to an int dictionary key)"""
    def __repr__(self):
        return 'Idx(%d)' % int(self)


def safe_key(k):
    if isinstance(k, str):
        return not ("'" in k and '"' in k) and ESC not in k
    return True


def key_tok(k):
    if isinstance(k, bool):
        return 'T' if k else 'F'
    if k is None:
        return 'N'
    if isinstance(k, int):
        return 'i%d' % int(k)
    if isinstance(k, float):
        return 'f' + enc_str(repr(k))
    return 's' + enc_str(k)


def canon_float_toks(ans):
    """the model carries a parsed float as its source text, the implementation shows repr(float): compare by value ('0.' and '0.0' are one float)"""
    out = []
    for tok in ans.split(' '):
        if tok.startswith('f') and ':' in tok:
            body, act = tok[1:].rsplit(':', 1)
            try:
                text = ''.join(chr(int(c)) for c in body.split('.')) if body else ''
                tok = 'f' + enc_str(repr(float(text))) + ':' + act
            except (ValueError, OverflowError):
                pass
        out.append(tok)
    return ' '.join(out)


def elems_tok(elems):
    if not elems:
        return '-'
    return ' '.join(key_tok(e) + (':G' if a == 'GET' else ':A') for e, a in elems)


PADS = ['pad', None, 0, b'p', 2.5]          # what precedes the location inside a list: items of several types


def build(keys, leaf):
    obj = leaf
    for k in reversed(keys):
        if isinstance(k, Idx):
            obj = [PADS[i % len(PADS)] for i in range(int(k))] + [obj]
        else:
            obj = {k: obj}
    return obj


class Leaf:
    """distinct leaf objects so that extract() can be checked by identity"""
    def __init__(self, n):
        self.n = n

    def __eq__(self, o):
        return isinstance(o, Leaf) and o.n == self.n

    def __hash__(self):
        return hash(self.n)

    def __repr__(self):
        return 'Leaf(%d)' % self.n


def same_keys(a, b):
    return len(a) == len(b) and all(type(x) is type(y) or (isinstance(y, Idx) and type(x) is int) for x, y in zip(a, b)) and \
        all((x == y) or (x != x and y != y) for x, y in zip(a, b))


def observe(keys):
    """returns dict of impl observations for a key sequence"""
    from deepdiff import DeepDiff, extract, parse_path
    from deepdiff.path import stringify_path, _path_to_elements, GET
    l1, l2 = 'old-leaf', 'new-leaf'
    t1, t2 = build(keys, l1), build(keys, l2)
    out = {}
    d = DeepDiff(t1, t2, ignore_private_variables=False)
    paths = list(d.get('values_changed', {}))
    out['npaths'] = len(paths)
    if len(paths) != 1:
        out['path'] = None
        return out, t1
    path = paths[0]
    out['path'] = path
    try:
        got = extract(t1, path)
        out['extract_ok'] = got is l1 or got == l1
        out['extract'] = repr(got)
    except Exception as e:
        out['extract_ok'] = False
        out['extract'] = 'raised ' + type(e).__name__
    try:
        out['parsed'] = parse_path(path)
        out['elements'] = list(_path_to_elements(path, root_element=None))
    except Exception as e:
        out['parsed'] = 'raised ' + type(e).__name__
        out['elements'] = None
    tree = DeepDiff(t1, t2, view='tree', ignore_private_variables=False)
    lv = list(tree['values_changed'])
    out['tree_list'] = lv[0].path(output_format='list') if len(lv) == 1 else None
    if len(lv) == 1:
        # asking again (a second walk over the tree, string form in between) must give the same answers
        s_form = lv[0].path()
        again = lv[0].path(output_format='list')
        if not (type(again) is type(out['tree_list']) and again == out['tree_list']) or lv[0].path() != s_form:
            out['tree_list'] = ('UNSTABLE', out['tree_list'], again)
    try:
        from deepdiff import DeepSearch
        sp = list(DeepSearch(t1, l1, verbose_level=2, case_sensitive=False).get('matched_values', {}))
        out['search_paths'] = sp
        # the same search with the types of the padding items excluded: the location keeps its index
        sx = list(DeepSearch(t1, l1, verbose_level=2, case_sensitive=False, exclude_types=[int, bytes, float, type(None)]).get('matched_values', {}))
        if sx != sp:
            out['search_paths'] = ['with exclude_types: %r' % (sx,)] + sp
    except Exception as e:
        out['search_paths'] = 'raised ' + type(e).__name__
    if isinstance(out['parsed'], list):
        try:
            out['stringified'] = stringify_path(out['parsed'], root_element=('root', GET))
        except Exception as e:
            out['stringified'] = 'raised ' + type(e).__name__
    return out, t1


def simple_bytes(k):
    """a bytes key whose repr is the plain text between one kind of quotes: printable ASCII, no backslash, not both quote characters
    (outside: finding F57 -- the repr carries escapes the path reader does not undo -- and the both-quotes case F8a)"""
    r = repr(k)
    return '\\' not in r and not (b"'" in k and b'"' in k)


def simple_tuple(k):
    """a tuple key the path reader can read back: numbers, None and such tuples, no strings (a quote inside the parentheses ends the element: F57)"""
    return all((simple_tuple(x) if isinstance(x, tuple) else not isinstance(x, (str, bytes))) for x in k)


def bytes_keys(ctx):
    """bytes dictionary keys (outside the key universe of the Lean model: implementation only): the path DeepDiff reports is read back by
    parse_path and extract, stringify_path inverts parse_path, DeepSearch reports the same string, the tree view's list form is the key sequence"""
    pool = [b'x', b'', b'ab c', b"it's", b'say "x"', b'0', b'root', b'a.b', b'a[0]', b'__p', b'\xff\x00', b'a"b\'c', b'C:\\tmp', b'\n', 'é'.encode(),
            (1, 2), (), (0,), (1, (2, 3)), ('a', 'b'), (1.5, None), (True, 'x y'),
            1e-07, 3e-05, 1e+16, -1e+22, 2.5e-05, 1.5e+300, 2.0, -3.0, 100.0, 5e-324]        # floats whose repr is in exponent form, whole floats            # tuples as keys (finding F64: rendered item by item, root[1][2])
    others = ['a', "it's", 1, 1.5, None, True, Idx(0), Idx(2), '']
    n = 300 if ctx.thorough() else 60
    for _ in range(n):
        ks = [ctx.rng.choice(pool) if ctx.rng.random() < 0.6 else ctx.rng.choice(others) for _ in range(ctx.rng.randint(1, 3))]
        if not any(isinstance(k, (bytes, tuple, float)) for k in ks):
            ks.insert(ctx.rng.randrange(len(ks) + 1), ctx.rng.choice(pool))
        plain = [int(k) if isinstance(k, Idx) else k for k in ks]
        ctx.evaluations += 1
        case = {'keys': [repr(k) for k in ks]}
        try:
            o, _t1 = observe(ks)
        except Exception as e:
            ctx.violate(case, 'DeepDiff / extract / parse_path raised %s: %s on a value with bytes keys' % (type(e).__name__, str(e)[:80])); continue
        ctx.nontriv(('bytes keys', repr(ks)))
        if o.get('tree_list') is not None and not (isinstance(o['tree_list'], list) and same_keys(o['tree_list'], plain)):
            ctx.violate(case, 'tree list-form path = %r, expected %r' % (o['tree_list'], plain))
        if (not all(simple_bytes(k) for k in ks if isinstance(k, bytes)) or not all(simple_tuple(k) for k in ks if isinstance(k, tuple))
                or not all(safe_key(k) for k in ks if not isinstance(k, (bytes, tuple)))):
            ctx.count('bytes_keys:outside_string_domain'); continue
        ctx.count('bytes_keys')
        if o.get('path') is None:
            ctx.violate(case, 'no path reported (%s paths)' % o.get('npaths')); continue
        if not o['extract_ok']:
            ctx.violate(case, 'extract(t1, %r) gave %s, not the object at that location' % (o['path'], o['extract']))
        if not (isinstance(o['parsed'], list) and same_keys(o['parsed'], plain)):
            ctx.violate(case, 'parse_path(%r) = %r, expected %r' % (o['path'], o['parsed'], plain))
        if o.get('stringified') != o['path']:
            ctx.violate(case, 'stringify_path(parse_path(%r)) = %r' % (o['path'], o.get('stringified')))
        if isinstance(o.get('search_paths'), list) and o['search_paths'] != [o['path']]:
            ctx.violate(case, 'DeepSearch reports %r for the location DeepDiff reports as %r' % (o['search_paths'], o['path']))


def shifted_lists(ctx):
    """the t2-side location of an entry (new_path at verbose_level=2, path(use_t2=True) in the tree view, the path of an added item) leads to
    that object in t2, also where an insertion or deletion in front of a replaced chunk makes the t1 and t2 indexes differ; the string and the
    list form of each path agree"""
    from deepdiff import DeepDiff, extract, parse_path
    fixed = [([0, 1, 2, 3], [1, 2, 9, 8]), (['a', 'b', 'c'], ['x', 'a', 'b', 'q', 'r']), ([1, 2, 3, 4, 5, 6], [0, 1, 2, 9, 4, 5, 6, 7]), (('p', 'q', 'r', 's'), ('q', 'Z', 's', 't')),
             ({'k': [10, 20, 30, 40]}, {'k': [20, 30, 41, 42]}), ([5, 6, 7, 8, 9], [6, 7, 'x', 'y', 'z', 9, 10]), ({"it's": ['a', 'b', 'c', 'd']}, {"it's": ['b', 'X', 'Y', 'd', 'e']})]
    for _ in range(40 if ctx.thorough() else 8):
        base = ctx.rng.sample(range(100), ctx.rng.randint(4, 8))
        new = list(base)
        del new[ctx.rng.randrange(2)]
        i = ctx.rng.randrange(1, len(new)); new[i:i + 1] = [ctx.rng.randint(200, 300) for _ in range(ctx.rng.randint(1, 3))]
        fixed.append((base, new))
    for t1, t2 in fixed:
        ctx.evaluations += 1
        case = {'keys': ['shifted list'], 't1': repr(t1), 't2': repr(t2)}
        ctx.nontriv(('shifted', repr(t1), repr(t2)))
        tree = DeepDiff(t1, t2, view='tree')
        text = DeepDiff(t1, t2, verbose_level=2)
        for cat, levels in tree.items():
            for lv in levels:
                p2 = lv.path(use_t2=True)
                l2 = lv.path(use_t2=True, output_format='list')
                if p2 is None:
                    continue
                if parse_path(p2) != l2:
                    ctx.violate(case, '%s: the t2-side path %r parses to %r, its list form is %r' % (cat, p2, parse_path(p2), l2))
                if cat in ('values_changed', 'type_changes', 'iterable_item_added'):
                    try:
                        got = extract(t2, p2)
                    except Exception as e:
                        ctx.violate(case, '%s: extract(t2, %r) raised %s' % (cat, p2, type(e).__name__)); continue
                    if not (got is lv.t2 or (got == lv.t2 and type(got) is type(lv.t2))):
                        ctx.violate(case, '%s: the t2-side path %r leads to %r, the entry is about %r' % (cat, p2, got, lv.t2))
        for path, d in text.get('values_changed', {}).items():
            p2 = d.get('new_path', path)
            try:
                if extract(t2, p2) != d['new_value'] or extract(t1, path) != d['old_value']:
                    ctx.violate(case, 'values_changed %s -> %s: the paths lead to %r / %r, the entry says %r / %r' % (path, p2, extract(t1, path), extract(t2, p2), d['old_value'], d['new_value']))
            except Exception as e:
                ctx.violate(case, 'values_changed %s -> %s: extract raised %s' % (path, p2, type(e).__name__))
        for path, v in text.get('iterable_item_added', {}).items():
            try:
                if extract(t2, path) != v:
                    ctx.violate(case, 'iterable_item_added %s: t2 holds %r there, the entry says %r' % (path, extract(t2, path), v))
            except Exception as e:
                ctx.violate(case, 'iterable_item_added %s: extract raised %s' % (path, type(e).__name__))
        ctx.count('shifted_lists')


def fresh_keys(ctx):
    """many comparisons in one process, each over non-string keys and indexes built at run time and dropped afterwards (floats, integers beyond the small-integer
    cache, long lists): the path of each comparison names its own key -- nothing is remembered from the objects of an earlier one"""
    import gc
    from deepdiff import DeepDiff, DeepSearch, extract
    from deepdiff.path import parse_path, _path_to_elements
    n = 600 if ctx.thorough() else 150
    for i in range(n):
        r = ctx.rng.random()
        if r < 0.4:
            k = ctx.rng.randint(1, 4000) / 8.0 + i            # a float made now
        elif r < 0.7:
            k = 1000 + ctx.rng.randint(0, 10 ** 6) * 3 + i     # an int object of its own
        elif r < 0.85:
            k = -(ctx.rng.randint(300, 10 ** 5))
        else:
            k = float(ctx.rng.randint(2, 500))                 # a whole float: root[7.0], not root[7]
        case = {'key': repr(k), 'iteration': i, 'clause': 'fresh keys, many comparisons in one process'}
        ctx.evaluations += 1
        t1 = {k: [i, 'x'], 'other': 0}
        t2 = {k: [i, 'y'], 'other': 0}
        try:
            dd = DeepDiff(t1, t2)
            (path,) = list(dd['values_changed'])
            tr = DeepDiff(t1, t2, view='tree')
            (lv,) = list(tr['values_changed'])
            if lv.path() != path:
                ctx.violate(case, 'tree path %r differs from text path %r' % (lv.path(), path)); continue
            if lv.path(output_format='list') != [k, 1]:
                ctx.violate(case, 'list-form path %r is not the location [%r, 1]' % (lv.path(output_format='list'), k)); continue
            if extract(t1, path) != 'x' or extract(t2, path) != 'y':
                ctx.violate(case, 'the path %r leads to another value' % path); continue
            el = parse_path(path)
            if not (len(el) == 2 and type(el[0]) is type(k) and el[0] == k and el[1] == 1):
                ctx.violate(case, 'parse_path(%r) = %r, not the key %r' % (path, el, k)); continue
            ds = DeepSearch({k: 'needle %d' % i, 'z': [0]}, 'needle %d' % i)
            (sp,) = list(ds['matched_values'])
            if extract({k: 'needle %d' % i, 'z': [0]}, sp) != 'needle %d' % i:
                ctx.violate(case, 'the search path %r leads to another value' % sp); continue
        except Exception as e:
            ctx.violate(case, 'raised %s: %s' % (type(e).__name__, str(e)[:100])); continue
        ctx.count('fresh_keys')
        ctx.nontriv((repr(k), i))
        del t1, t2, dd, tr, lv, k, ds
        if i % 25 == 0:
            gc.collect()


def gen_sequences(ctx):
    seqs = []
    L = 3 if ctx.thorough() else 2
    for n in range(0, L + 1):
        for tup in itertools.product(ALPHA, repeat=n):
            seqs.append([''.join(tup)])
    ctx.extra['exhaustive_string_len'] = L
    for w in WORDS:
        seqs.append([w])
    for k in NONSTR:
        seqs.append([k])
    for k in (float('inf'), float('-inf'), float('nan')):
        seqs.append([k]); seqs.append(['top', k, 'v']); seqs.append([k, Idx(1)]); seqs.append(['inf', k]); seqs.append([Idx(0), k, "it's"])
    for i in (0, 1, 3):
        seqs.append([Idx(i)])
    n = 6000 if ctx.thorough() else 700
    pool = WORDS + [''.join(ctx.rng.choice(ALPHA) for _ in range(ctx.rng.randint(1, 4))) for _ in range(60)]
    for _ in range(n):
        depth = ctx.rng.randint(2, 4)
        ks = []
        for _ in range(depth):
            r = ctx.rng.random()
            if r < 0.55:
                ks.append(ctx.rng.choice(pool))
            elif r < 0.8:
                ks.append(ctx.rng.choice(NONSTR))
            else:
                ks.append(Idx(ctx.rng.randint(0, 3)))
        seqs.append(ks)
    return seqs


def literal_eval_outcome(text):
    import warnings
    try:
        with warnings.catch_warnings():
            warnings.simplefilter('ignore')
            v = ast.literal_eval(text)
    except (ValueError, SyntaxError):
        return 'raises'
    except Exception as e:
        return 'raises-other:' + type(e).__name__
    if isinstance(v, (str, bool, int, float)) or v is None:
        return key_tok(v)
    return 'other:' + type(v).__name__


def check_le(ctx):
    """assumption LE/RE: the driver's leImpl against the real literal_eval on quoted element texts"""
    texts = []
    L = 3 if ctx.thorough() else 2
    for q in ("'", '"'):
        for n in range(0, L + 1):
            for tup in itertools.product(ALPHA + ['\r', '\x00'], repeat=n):
                body = ''.join(tup)
                if q in body:
                    continue
                texts.append(q + body + q)
    for k in NONSTR + [12345, -7, 1e15, 0.0001, 123.456]:
        texts.append(repr(k))
    for t in list(texts[-6:]) + ["'x'", '"y z"', "''"]:
        for pre in (' ', '\t', '  '):
            for post in ('', ' ', '\n'):
                texts.append(pre + t + post)
        texts.append(t + ' ')
    if not ctx.build_ok:
        return
    ans = core.run_model(['PLE ' + enc_str(t) for t in texts])
    for t, a in zip(texts, ans):
        ctx.evaluations += 1
        real = literal_eval_outcome(t)
        if '\\' in t:
            ctx.count('le_backslash_not_consulted')
            continue       # _add_to_elements never calls literal_eval on these
        if real != a:
            # LE only demands: returns the body or raises.  A difference in *which* of the two is harmless for the theorem
            body = t[1:-1]
            harmless = t[0] in '\'"' and {real, a} <= {'raises', key_tok(body)}
            if harmless:
                ctx.count('le_raise_vs_value_harmless')
            else:
                ctx.diverge({'kind': 'literal_eval', 'text': t}, real, a, op='PLE')
        ctx.count('le_checked')


def known(ctx):
    return {f['id']: f for f in core.load_findings(ID) if f.get('status') == 'open'}


def run(ctx, impl_only=False):
    from deepdiff.path import stringify_path
    seqs = gen_sequences(ctx)
    obs = []
    for ks in seqs:
        try:
            o, t1 = observe(ks)
        except Exception as e:
            o, t1 = {'path': None, 'crash': type(e).__name__ + ': ' + str(e)[:80], 'npaths': 0}, None
        obs.append(o)
    lines_r, lines_p, lines_s, idx = [], [], [], []
    for i, (ks, o) in enumerate(zip(seqs, obs)):
        plain = [int(k) if isinstance(k, Idx) else k for k in ks]
        dom = all(safe_key(k) for k in ks) and not any(isinstance(k, float) and (k != k or k in (float('inf'), float('-inf'))) for k in ks)
        case = {'keys': [repr(k) for k in ks], 'path': o.get('path')}
        ctx.evaluations += 1
        ctx.count('in_domain' if dom else 'out_of_domain')
        if any((isinstance(k, str) and any(c in k for c in '\'"[].\\ \n\t')) or not isinstance(k, str) for k in ks):
            ctx.nontriv(repr(ks))
        if dom:
            # ---- the property on the implementation
            if 'crash' in o:
                ctx.violate(case, 'DeepDiff raised ' + o['crash'])
                continue
            if o['path'] is None:
                ctx.violate(case, 'no path reported for the changed location (npaths=%d)' % o['npaths'])
                continue
            if not o['extract_ok']:
                ctx.violate(case, 'extract(t1, %r) gave %s, not the object at that location' % (o['path'], o['extract']))
            if not (isinstance(o['parsed'], list) and same_keys(o['parsed'], plain)):
                ctx.violate(case, 'parse_path(%r) = %r, expected %r' % (o['path'], o['parsed'], plain))
            if not (isinstance(o['tree_list'], list) and same_keys(o['tree_list'], plain)):
                ctx.violate(case, 'tree list-form path = %r, expected %r' % (o['tree_list'], plain))
            if o.get('stringified') != o['path']:
                ctx.violate(case, 'stringify_path(parse_path(%r)) = %r' % (o['path'], o.get('stringified')))
            # the path DeepSearch reports for the same location (a case-insensitive search for the leaf) is the same string
            if all(isinstance(k, (str, Idx)) or k is None or isinstance(k, (int, float, bool)) for k in ks) and isinstance(o.get('search_paths'), list):
                if o['search_paths'] != [o['path']]:
                    if not any(isinstance(k, str) and 'old-leaf' in k for k in ks):
                        ctx.violate(case, 'DeepSearch reports %r for the location DeepDiff reports as %r' % (o['search_paths'], o['path']))
        nonfinite = any(isinstance(k, float) and (k != k or k in (float('inf'), float('-inf'))) for k in ks)
        if not dom and 'crash' not in o:
            # outside the domain of the string form (a key with both quote kinds, finding F8a; a non-finite float key, which DeepDiff declares
            # unrepresentable by reporting no path): the tree view's list-form path never goes through a string and is still exactly the key sequence
            if o.get('tree_list') is not None and not (isinstance(o['tree_list'], list) and same_keys(o['tree_list'], plain)):
                ctx.violate(case, 'tree list-form path = %r, expected %r' % (o['tree_list'], plain))
            ctx.count('list_form_outside_string_domain')
            if nonfinite and all(safe_key(k) for k in ks) and o.get('path') is not None:
                # a path was reported after all: then it has to work like any other
                if not o['extract_ok']:
                    ctx.violate(case, 'extract(t1, %r) gave %s, not the object at that location' % (o['path'], o['extract']))
                if not (isinstance(o['parsed'], list) and same_keys(o['parsed'], plain)):
                    ctx.violate(case, 'parse_path(%r) = %r, expected %r' % (o['path'], o['parsed'], plain))
        if o.get('path') is not None and not impl_only and not nonfinite:
            lines_r.append('PRENDER ' + ' '.join(key_tok(k) for k in plain))
            lines_p.append('PPARSE ' + enc_str(o['path']))
            lines_s.append('PSTRINGIFY G ' + ' '.join(key_tok(k) for k in o['parsed'])) if isinstance(o['parsed'], list) and o['parsed'] and all(k is None or isinstance(k, (str, int, float, bool)) for k in o['parsed']) else lines_s.append(None)     # literal_eval can also yield bytes / tuples: outside the key universe
            idx.append(i)
        if i % 499 == 0:
            ctx.sample({'keys': [repr(k) for k in ks], 'path': o.get('path'), 'parsed': repr(o.get('parsed'))})
    if ctx.build_ok and not impl_only:
        ar = core.run_model(lines_r)
        ap = core.run_model(lines_p)
        ls = [l for l in lines_s if l]
        as_ = iter(core.run_model(ls))
        for j, i in enumerate(idx):
            o, ks = obs[i], seqs[i]
            case = {'keys': [repr(k) for k in ks], 'path': o['path']}
            ctx.traces += 1
            if ar[j] != enc_str(o['path']):
                ctx.diverge(case, enc_str(o['path']), ar[j], op='PRENDER')
            in_universe = o['elements'] is not None and all(e is None or isinstance(e, (str, int, float, bool)) for e, _ in o['elements'])
            if o['elements'] is not None and not in_universe:
                ctx.count('parse_out_of_universe')        # a broken rendering (F8a) can leave an element text such as b'x' or (1, 2): literal_eval gives a type outside the key universe
            elif o['elements'] is not None and canon_float_toks(ap[j]) != elems_tok(o['elements']):
                ctx.diverge(case, elems_tok(o['elements']), ap[j], op='PPARSE')
            if lines_s[j]:
                a = next(as_)
                if isinstance(o.get('stringified'), str) and not o['stringified'].startswith('raised') and a != enc_str(o['stringified']):
                    ctx.diverge(case, enc_str(o['stringified']), a, op='PSTRINGIFY')
        check_le(ctx)
    bytes_keys(ctx)
    shifted_lists(ctx)
    fresh_keys(ctx)
    # ---- known findings (boundary witnesses outside SafeKey)
    kf = known(ctx)
    wit = {
        'F8a': lambda: (lambda o: isinstance(o['parsed'], list) and same_keys(o['parsed'], ["a'b\"c"]) and o['extract_ok'])(observe(["a'b\"c"])[0]),
        'F8b': lambda: (lambda o: o.get('path') is not None and o['extract_ok'] and same_keys(o['parsed'], ['a' + ESC]))(observe(['a' + ESC])[0]),
        'F8c': lambda: observe([float('inf')])[0].get('path') is not None,
        'F8d': lambda: stringify_path([1, 2, 'age']) == "root[1][2]['age']",
        'F57': lambda: (lambda o: isinstance(o['parsed'], list) and same_keys(o['parsed'], [b'\xff\x00']) and o['extract_ok'])(observe([b'\xff\x00'])[0]),
        'F55': lambda: (lambda o: o.get('path') == "root[b'x']['a']" and o['extract_ok'] and same_keys(o['parsed'], [b'x', 'a']))(observe([b'x', 'a'])[0]),      # repaired
        'F56': lambda: observe([b'x', 'a'])[0].get('search_paths') == ["root[b'x']['a']"],
        'F64': lambda: (lambda o: o.get('path') == "root[(1, 2)]['a']" and o['extract_ok'] and same_keys(o['parsed'], [(1, 2), 'a']))(observe([(1, 2), 'a'])[0]),     # repaired                                                                    # repaired
    }
    for fid, f in kf.items():
        if fid in wit:
            ctx.evaluations += 1
            try:
                ok = wit[fid]()
            except Exception:
                ok = False
            if ok:
                ctx.known_not_reproduced.append(fid)
            else:
                ctx.known_reproduced.append('%s: %s' % (fid, f['what_fails']))
    for fid in wit:
        if fid not in kf:
            try:
                ok = wit[fid]()
            except Exception:
                ok = False
            if not ok:
                ctx.violate({'witness': fid}, 'boundary witness %s fails and is not a listed finding' % fid)


def search(ctx):
    c2 = core.Ctx(ctx.pid, 'thorough', ctx.seed + 1)
    c2.build_ok = False
    run(c2, impl_only=True)
    return c2.violations


def replay(ctx, payload):
    ok = True
    for c in payload.get('cases', []):
        ks = [eval(k, {'Idx': Idx, 'inf': float('inf')}) for k in c['case'].get('keys', [])]
        o, _ = observe(ks)
        plain = [int(k) if isinstance(k, Idx) else k for k in ks]
        good = o.get('path') is not None and o['extract_ok'] and isinstance(o['parsed'], list) and same_keys(o['parsed'], plain) and o.get('stringified') == o['path']
        print('  keys=%r path=%r parsed=%r extract=%s -> %s' % (ks, o.get('path'), o.get('parsed'), o.get('extract'), 'holds' if good else 'FAILS'))
        ok = ok and good
    return ok
