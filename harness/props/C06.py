"""C06 — DeepHash: equal content hashes equally."""
import copy, os, sys, json, subprocess, random
from .. import core, hashing as HS
from ..gen import Gen
from ..wire import val_tokens, OutOfUniverse

ID = 'C06'
LEAN_TARGETS = ['Properties.C06']
THEOREMS = ['Hash.C06_dict_order', 'Hash.C06_set_order', 'Hash.C06_list_perm', 'Hash.C06_congr', 'Hash.C06_inner_perm',
            'Hash.C06_N_set_ordered_mode', 'Hash.C06_memo_transparent', 'Hash.C06_shared_table_history', 'Hash.C06_preseeded', 'Hash.C06_noAlias_of_strict',
            'Hash.C06_N_table_alias']
RULE = ('nested values (dict/list/tuple/set/frozenset/scalars, repeated sub-objects, numerically equal numbers only where NoNumAlias holds) x the four '
        '(ignore_repetition, ignore_iterable_order) modes: digests and counts of the real DeepHash vs the compiled model with SHA-256; on the implementation: '
        'deep copies, re-inserted dicts, permuted lists (order-insensitive modes), shared and pre-seeded hashes tables, subprocesses with different PYTHONHASHSEED. '
        'distinct = distinct (value, mode); non-trivial = the value is a container')
TRUSTED_BASE = ['hashlib.sha256 (the driver has its own SHA-256 so digests are compared bit for bit; the theorems hold for every hasher)',
                'the memo-table transparency clause is checked on the implementation and by N-witness; its Lean theorem (C06_memo_transparent) is not proved yet']
ASSUMPTIONS = ['NoNumAlias: no two hashable sub-values that are == but differ in type (finding F6)', 'tree-shaped values', 'floats are short decimals']


def shuffled_dict(d, rng):
    items = list(d.items())
    rng.shuffle(items)
    return dict(items)


def reinsert(v, rng):
    """same content, different dict insertion order / list object identity at every depth"""
    if isinstance(v, dict):
        return {k: reinsert(x, rng) for k, x in shuffled_dict(v, rng).items()}
    if isinstance(v, list):
        return [reinsert(x, rng) for x in v]
    if isinstance(v, tuple):
        return tuple(reinsert(x, rng) for x in v)
    return v


def permute_lists(v, rng):
    if isinstance(v, dict):
        return {k: permute_lists(x, rng) for k, x in v.items()}
    if isinstance(v, (list, tuple)):
        items = [permute_lists(x, rng) for x in v]
        rng.shuffle(items)
        return type(v)(items)
    return v


SEED_SCRIPT = r'''
import sys, json
sys.path.insert(0, %r)
from deepdiff import DeepHash
vals = eval(sys.stdin.read())
out = []
for v, kw in vals:
    try:
        d = DeepHash(v, **kw)
        out.append(d[v])
    except Exception as e:
        out.append('raised ' + type(e).__name__)
print(json.dumps(out))
'''


def under_seeds(values_kw, seeds):
    """hash every (value, kwargs) in fresh interpreters with different PYTHONHASHSEED"""
    res = {}
    payload = repr(values_kw)
    for s in seeds:
        env = dict(os.environ, PYTHONHASHSEED=str(s))
        p = subprocess.run(['/venv/bin/python', '-c', SEED_SCRIPT % core.REPO], input=payload, capture_output=True, text=True, env=env, timeout=600)
        if p.returncode != 0:
            raise core.ToolFailure('seed subprocess failed: ' + p.stderr[-300:])
        res[s] = json.loads(p.stdout.strip().split('\n')[-1])
    return res


HISTORY_SCRIPT = r'''
import sys, json
sys.path.insert(0, %r)
from decimal import Decimal
from deepdiff import DeepHash
out = []
for src, kw in json.loads(sys.stdin.read()):
    v = eval(src)
    try:
        out.append(DeepHash(v, **kw)[v])
    except Exception as e:
        out.append('raised ' + type(e).__name__)
print(json.dumps(out))
'''

TWINS = [('0.0', '-0.0'), ("Decimal('2.5')", "Decimal('2.50')"), ("Decimal('1000')", "Decimal('1E+3')"), ('complex(0, 0.0)', 'complex(0, -0.0)'),
         ("Decimal('0')", "Decimal('-0')"), ("Decimal('0')", "Decimal('0.0')"), ('complex(0.0, 1)', 'complex(-0.0, 1)'), ("Decimal('1.10')", "Decimal('1.1')")]


def history_independence(ctx):
    """the digest of a value does not depend on what the process hashed before, in other DeepHash runs with tables of their own: numbers of
    one type that are == and print differently (0.0 / -0.0, Decimal('2.5') / Decimal('2.50')) are hashed one after the other here, and in
    the opposite order in a fresh interpreter; every value must get the same digest in both"""
    from decimal import Decimal
    from deepdiff import DeepHash
    wraps = ['%s', '[%s]', "{'k': %s}", '(%s, 1)', "[1, {'a': [%s]}]"]
    jobs = []
    for a, b in TWINS:
        for w in wraps:
            for (rep, order) in HS.MODES.values():
                kw = dict(ignore_repetition=rep, ignore_iterable_order=order)
                jobs.append((w % a, kw)); jobs.append((w % b, kw))
    ctx.rng.shuffle(jobs)
    here = []
    for src, kw in jobs:
        v = eval(src, {'Decimal': Decimal})
        try:
            here.append(DeepHash(v, **kw)[v])
        except Exception as e:
            here.append('raised ' + type(e).__name__)
    rev = list(reversed(jobs))
    p = subprocess.run(['/venv/bin/python', '-c', HISTORY_SCRIPT % core.REPO], input=json.dumps(rev), capture_output=True, text=True, timeout=600)
    if p.returncode != 0:
        raise core.ToolFailure('history subprocess failed: ' + p.stderr[-300:])
    there = list(reversed(json.loads(p.stdout.strip().split('\n')[-1])))
    for (src, kw), h1, h2 in zip(jobs, here, there):
        ctx.evaluations += 1
        ctx.count('history_independence')
        ctx.nontriv((src, repr(sorted(kw.items())), 'history'))
        if h1 != h2:
            ctx.violate({'value': src, 'kwargs': kw, 'scenario': 'the same value hashed in this process after other values, and in a fresh interpreter after the same values in the opposite order'},
                        'the digest of a value depends on what was hashed before it in other DeepHash runs: %s here, %s there' % (h1[:16], h2[:16]))
    # the two twins of a pair print differently, so their digests differ (not part of C06; counted to show that the family is not vacuous)
    by = dict(zip([(s_, repr(sorted(k_.items()))) for s_, k_ in jobs], here))
    ctx.count('history_twins_with_different_digests', sum(1 for a, b in TWINS for (rep, order) in [(True, True)]
              if by.get((a, repr(sorted(dict(ignore_repetition=rep, ignore_iterable_order=order).items())))) != by.get((b, repr(sorted(dict(ignore_repetition=rep, ignore_iterable_order=order).items()))))))


def cyclic_and_deep(ctx):
    """values that contain themselves (the back-reference in every position among the other entries) and values under more than a hundred
    containers: the digest does not depend on insertion order / item order there either (implementation only)"""
    from deepdiff import DeepHash
    def cyc(order, top=None):
        d = {}
        for k in order:
            if k == 'self':
                d['self'] = d if top is None else top
            elif k == 'sub':
                d['sub'] = cyc(['x', 'self', 'y'], top=d)
            else:
                d[k] = k.upper()
        return d
    def wrap(v, n):
        for i in range(n):
            v = [v] if i % 2 else {'k': v}
        return v
    for mname, (rep, order) in HS.MODES.items():
        kw = dict(ignore_repetition=rep, ignore_iterable_order=order)
        groups = [[cyc(['a', 'self', 'b']), cyc(['b', 'a', 'self']), cyc(['self', 'a', 'b'])],
                  [cyc(['a', 'sub', 'b']), cyc(['sub', 'b', 'a'])],
                  [wrap({'p': 1, 'q': 'z', 'r': None}, 120), wrap({'r': None, 'q': 'z', 'p': 1}, 120)],
                  [wrap({'p': 1, 'q': {'u': 1, 'v': 2}}, 105), wrap({'q': {'v': 2, 'u': 1}, 'p': 1}, 105)]]
        if order:
            groups.append([wrap([3, 1, 2, 'a'], 120), wrap(['a', 2, 3, 1], 120)])
            groups.append([wrap((1, [2, 3]), 110), wrap(([3, 2], 1), 110)])
        for grp in groups:
            ctx.evaluations += 1
            hs = []
            for v in grp:
                try:
                    hs.append(DeepHash(v, **kw)[v])
                except Exception as e:
                    hs.append('raised ' + type(e).__name__)
            ctx.count('cyclic_and_deep')
            ctx.nontriv((mname, len(grp), repr(grp[0])[:40]))
            if len(set(hs)) > 1:
                ctx.violate({'value': repr(grp[0])[:200], 'mode': mname, 'scenario': 'self-containing / deeply nested value listed in another order'},
                            'the same content in another insertion / item order hashes differently: %r' % [h[:12] for h in hs])


def run(ctx, impl_only=False):
    from deepdiff import DeepHash
    findings = {f['id']: f for f in core.load_findings(ID) if f.get('status') == 'open'}
    g = Gen(ctx.rng, max_depth=3, max_width=4, bytes_=True,
            keys=['a', 'b', 'c', 'dd', 'x y', 'é', (1, 2), (2, 1), ('a', 'b'), ('b', 'a'), (1, 1, 2), 5, 7, None])
    n = 1500 if ctx.thorough() else 220
    vals = [{(1, 2): 'x', (2, 1): 'y'}, {(2, 1): 'y', (1, 2): 'x'}, [{('a', 'b'): 1, ('b', 'a'): 2}], {'k': {(1, 2): [1], (2, 1): [2]}},
            {(1, 1, 2): 0, (1, 2): 1, (2, 1, 1): 2}]
    # one tuple as a dictionary key and as an ordinary item of the same value (whichever role is met first must not decide the digest)
    for t in [(1, 2), (2, 1), ('a', 'b'), (1, 'a', None), ((1, 2), 3)]:
        vals += [{'origin': t, t: 'start'}, [t, {t: 1}], [{t: 1}, t], {'k': [t, t], t: [t]}, [{t: t}, [t]]]
    # an int leaf that equals the id() of a container of the same value (containers are entered in the table under their id, leaves under their value)
    for mk in (lambda: [1, 2], lambda: {'a': 1}, lambda: {1, 2}, lambda: [[1], 'x']):
        x = mk()
        vals += [{'payload': x, 'address': id(x)}, [x, id(x)], [id(x), x], {'address': id(x), 'payload': x}]
        y = mk()
        vals.append({'a': y, 'b': [id(y), y], 'c': {'id': id(y)}})
    for _ in range(n * 3):
        v = g.value()
        if HS.no_num_alias(v):
            vals.append(v)
        if len(vals) >= n:
            break
    # (appended after the generated values: the PYTHONHASHSEED subprocesses take the first values only)
    # hostile keys, edge-case leaves, one object at two places (implementation only where outside the model universe)
    from . import _difffam as FAM
    vals += [p_[0] for p_ in FAM.hostile_pairs(ctx, 60 if ctx.thorough() else 20) if HS.no_num_alias(p_[0])]
    lines, metas = [], []
    for i, v in enumerate(vals):
        for mname, (rep, order) in HS.MODES.items():
            kw = dict(ignore_repetition=rep, ignore_iterable_order=order)
            ctx.evaluations += 1
            case = {'value': repr(v), 'mode': mname}
            try:
                h, c = HS.deephash(v, **kw)
            except Exception as e:
                ctx.violate(case, 'DeepHash raised %r' % e); continue
            ctx.count('mode:' + mname)
            if isinstance(v, (dict, list, tuple, set, frozenset)):
                ctx.nontriv((repr(v), mname))
            # ---- the property on the implementation
            if not order and HS.has_set(v):
                ctx.count('out_of_domain:set_in_ordered_mode')      # region of finding F19 (witness below); model correspondence still runs
                in_dom = False
            else:
                in_dom = True
            if not in_dom:
                pass
            elif HS.deephash(copy.deepcopy(v), **kw)[0] != h:
                ctx.violate(case, 'deep copy hashes differently')
            r = reinsert(v, ctx.rng)
            if in_dom and HS.deephash(r, **kw)[0] != h:
                ctx.violate(dict(case, variant=repr(r)), 'changing dict insertion order changes the hash')
            if order:
                p = permute_lists(v, ctx.rng)
                if HS.deephash(p, **kw)[0] != h:
                    ctx.violate(dict(case, variant=repr(p)), 'permuting list/tuple items changes the hash in an order-insensitive mode')
            # shared / pre-seeded table: hash some other values first into the same table
            others = [vals[(i * 7 + j) % len(vals)] for j in range(1, 4)]
            if not in_dom:
                pass
            elif HS.no_num_alias(v, *others):
                table = {}
                for o in others:
                    DeepHash(o, hashes=table, **kw)
                d = DeepHash(v, hashes=table, **kw)
                if d[v] != h:
                    ctx.violate(dict(case, preseeded_with=repr(others)), 'a shared / pre-seeded hashes table changes the hash')
                d2 = DeepHash(v, hashes=d, **kw)
                if d2[v] != h:
                    ctx.violate(case, 'passing a previous DeepHash as hashes changes the hash')
            else:
                ctx.count('preseed_skipped_alias')
            if not impl_only:
                try:
                    lines.append(HS.hash_line(v, **kw)); metas.append((case, h, c, True))
                    if i % 5 == 0:
                        s2, c2 = HS.deephash(v, apply_hash=False, **kw)
                        lines.append(HS.hash_line(v, apply_hash=False, **kw)); metas.append((dict(case, apply_hash=False), s2, c2, False))
                except OutOfUniverse:
                    ctx.count('out_of_universe')
        if i % 61 == 0:
            ctx.sample({'value': repr(v)[:160], 'hash': HS.deephash(v)[0][:16] + '…'})
    # ---- a long-lived shared table: temporaries whose ids get recycled, and in-place edits between calls
    for mname, (rep, order) in HS.MODES.items():
        kw = dict(ignore_repetition=rep, ignore_iterable_order=order)
        table = {}
        for k in range(300 if ctx.thorough() else 60):
            tmp = [k, [k + 1, {'t': k}], {'u': [k]}]
            DeepHash(tmp, hashes=table, **kw)
            del tmp
            v = [k + 1000, [k], {'w': [k, k + 1]}] if order else [k + 1000, [k], {'w': [k, k + 1]}]
            ctx.evaluations += 1
            if DeepHash(v, hashes=table, **kw)[v] != HS.deephash(v, **kw)[0]:
                ctx.violate({'value': repr(v), 'mode': mname, 'scenario': 'long-lived shared table, earlier values freed'},
                            'a shared hashes table changes the hash (stale entry reused)'); break
        # an unhashable value (entered in the table under its id) is freed and a hashable one (entered under its value) is allocated in its
        # place: reading the digest of the second must not find the entry of the first
        for k in range(200 if ctx.thorough() else 60):
            tmp = {k, 'a', (k, 1)}
            DeepHash(tmp, hashes=table, **kw)
            del tmp
            fs = frozenset([k + 5000, 'b'])
            ctx.evaluations += 1
            try:
                got = DeepHash(fs, hashes=table, **kw)[fs]
            except Exception as e:
                got = 'raised ' + type(e).__name__
            if got != HS.deephash(frozenset([k + 5000, 'b']), **kw)[0]:
                ctx.violate({'value': repr(fs), 'mode': mname, 'scenario': 'long-lived shared table: a set hashed and freed, then a frozenset allocated in its place'},
                            'a shared hashes table changes the hash (the entry of a freed object answers for a new one)'); break
        lst = [1, 2, ['x']]
        DeepHash(lst, hashes=table, **kw)
        lst[2].append('y'); lst.append(3)
        ctx.evaluations += 1
        if DeepHash(lst, hashes=table, **kw)[lst] != HS.deephash([1, 2, ['x', 'y'], 3], **kw)[0]:
            ctx.violate({'value': repr(lst), 'mode': mname, 'scenario': 'shared table, container edited in place between calls'},
                        'a shared hashes table changes the hash (stale entry reused)')
    history_independence(ctx)
    cyclic_and_deep(ctx)
    # ---- PYTHONHASHSEED
    seeds = list(range(1, 17)) if ctx.thorough() else [1, 2, 4]
    sv = [(v, dict(ignore_repetition=rep, ignore_iterable_order=order)) for v in vals[: (200 if ctx.thorough() else 60)]
          for (rep, order) in HS.MODES.values()]
    res = under_seeds(sv, seeds)
    ctx.extra['hash_seeds'] = seeds
    f19 = findings.get('F19')
    for j, (v, kw) in enumerate(sv):
        hs = {res[s][j] for s in seeds}
        ctx.evaluations += 1
        if len(hs) > 1:
            in_f19_region = (not kw['ignore_iterable_order']) and HS.has_set(v)
            if in_f19_region:
                ctx.count('seed_dependent_set_in_ordered_mode')        # region of F19; represented by its witness below
            else:
                ctx.violate({'value': repr(v), 'kwargs': kw, 'seeds': seeds}, 'hash depends on PYTHONHASHSEED: %d different digests' % len(hs))
    # ---- boundary witnesses
    wit = {}
    w = under_seeds([({'a', 'b', 'c'}, dict(ignore_iterable_order=False))], [1, 2, 4])
    wit['F19'] = len({w[s][0] for s in (1, 2, 4)}) == 1
    a = {'a': 0.0, 0: 0.1}; b = {0: 0.1, 'a': 0.0}
    wit['F6'] = HS.deephash(a)[0] == HS.deephash(b)[0]
    for fid, ok in wit.items():
        ctx.evaluations += 1
        if fid in findings:
            (ctx.known_not_reproduced if ok else ctx.known_reproduced).append(fid if ok else '%s: %s' % (fid, findings[fid]['what_fails']))
        elif not ok:
            ctx.violate({'witness': fid}, 'boundary witness %s fails and is not a listed finding' % fid)
    # ---- correspondence
    if ctx.build_ok and not impl_only:
        ans = core.run_model(lines)
        for (case, h, c, hashed), a_ in zip(metas, ans):
            ctx.traces += 1
            try:
                mh, mc = a_.split(' ')
                mh = ''.join(chr(int(x)) for x in mh.split('.')) if mh != '_' else ''
            except Exception:
                ctx.diverge(case, '%s %s' % (h, c), a_, op='HASH'); continue
            if mh != h or int(mc) != c:
                ctx.diverge(case, '%s %s' % (h, c), '%s %s' % (mh, mc), op='HASH')
        memo_correspondence(ctx, vals)


def memo_correspondence(ctx, vals):
    """the memo-table model (Model/Hash/Memo.lean): DeepHash(w) followed by DeepHash(v, hashes=<the same table>) against the model's threaded
    table, digests and counts bit for bit - including the pairs where the table aliases two different values (1 / 1.0, tuples and frozensets
    that are == but of different item types), which is the boundary of the transparency theorem (finding F6)"""
    from deepdiff import DeepHash
    alias = [1, 1.0, 0, 0.0, True, False, (1,), (1.0,), (True,), (0, 'a'), (False, 'a'), frozenset({1}), frozenset({1.0}), frozenset({2, 3}), 'a', b'a', None, 2, 2.5, '',
             (1, (2.0, 'x')), (1.0, (2, 'x'))]
    fixed = [(1, 1.0), (1.0, 1), (0, 0.0), (0.0, 0), ((1,), (1.0,)), ((True,), (1,)), ((1,), (True,)), ((0, 'a'), (False, 'a')), (frozenset({1}), frozenset({1.0})), (True, 1), (1, True),
             ((1, (2.0, 'x')), (1.0, (2, 'x'))), ([1, 2], [1.0, 2]), ({'a': 1}, {'a': 1.0}), ({1: 'x'}, {1.0: 'x'}), ([(1, 2)], [(1.0, 2.0)]), ('a', b'a'), (2, 2.5)]
    pairs = list(fixed) + [(v, w) for (w, v) in fixed[:6]]
    n = 400 if ctx.thorough() else 80
    for _ in range(n):
        r = ctx.rng.random()
        if r < 0.5:
            w, v = ctx.rng.choice(alias), ctx.rng.choice(alias)
        elif r < 0.7:
            a, b = ctx.rng.choice(alias), ctx.rng.choice(alias)
            w, v = [a, 'k', b], {'k': b, 'j': [a, b]}
        elif r < 0.85:
            w, v = ctx.rng.choice(vals), ctx.rng.choice(vals)
        else:
            w = ctx.rng.choice(vals)
            v = [copy.deepcopy(w), ctx.rng.choice(alias)]
        pairs.append((w, v))
    lines, metas = [], []
    for (w, v) in pairs:
        for mname, (rep, order) in HS.MODES.items():
            if not order and (HS.has_set(w) or HS.has_set(v)):
                continue                      # region of finding F19
            kw = dict(ignore_repetition=rep, ignore_iterable_order=order)
            case = {'w': repr(w), 'value': repr(v), 'mode': mname, 'scenario': 'shared table'}
            try:
                t = {}
                d1 = DeepHash(w, hashes=t, **kw)
                r1 = (d1[w], d1.get(w, extract_index=1))
                d2 = DeepHash(v, hashes=t, **kw)
                r2 = (d2[v], d2.get(v, extract_index=1))
                lines.append('HASHM ' + HS.cfg_tok(**kw) + ' ' + ' '.join(val_tokens(w, iter_sets=True)) + ' ' + ' '.join(val_tokens(v, iter_sets=True)))
                metas.append((case, r1, r2))
                ctx.evaluations += 1
                ctx.count('memo_table:' + ('aliasing' if not HS.no_num_alias(w, v) else 'plain'))
            except OutOfUniverse:
                ctx.count('out_of_universe')
            except Exception as e:
                ctx.count('memo_raised:' + type(e).__name__)
    ans = core.run_model(lines)
    dec = lambda x: ''.join(chr(int(y)) for y in x.split('.')) if x != '_' else ''
    for (case, r1, r2), a_ in zip(metas, ans):
        ctx.traces += 1
        try:
            h1, c1, h2, c2 = a_.split(' ')
            got = ((dec(h1), int(c1)), (dec(h2), int(c2)))
        except Exception:
            ctx.diverge(case, repr((r1, r2)), a_, op='HASHM'); continue
        if got != (r1, r2):
            ctx.diverge(case, repr((r1, r2)), repr(got), op='HASHM')


def search(ctx):
    c2 = core.Ctx(ctx.pid, 'thorough', ctx.seed + 1)
    c2.build_ok = False
    run(c2, impl_only=True)
    return c2.violations


def replay(ctx, payload):
    ok = True
    for c in payload.get('cases', []):
        case = c['case']
        if 'value' in case and 'mode' in case:
            v = eval(case['value'])
            rep, order = HS.MODES[case['mode']]
            kw = dict(ignore_repetition=rep, ignore_iterable_order=order)
            h = HS.deephash(v, **kw)[0]
            variant = eval(case['variant']) if 'variant' in case else copy.deepcopy(v)
            good = HS.deephash(variant, **kw)[0] == h
            print('  ', case, '->', 'holds' if good else 'FAILS')
            ok = ok and good
        else:
            print('  ', case, c.get('why')); ok = False
    return ok
