"""C01 — applying Delta(DeepDiff(t1,t2)) to t1 reproduces t2."""
import copy, itertools
from .. import core, diffing as DF, hashing as HS, deltas as DL
from ..gen import Gen, strict_eq
from ..wire import OutOfUniverse
from . import _difffam as FAM

ID = 'C01'
LEAN_TARGETS = ['Properties.C01']
THEOREMS = ['Delta.C01_opcode_replay', 'Delta.C01_opcodes_root_list', 'Delta.C01_opcodes_root_tuple', 'Delta.C01_empty_identity', 'Delta.C01_self', 'Delta.C01_write_read', 'Delta.C01_N_set_in_tuple', 'Delta.C01_N_tuple_in_tuple',
            'Delta.C01_scalars_roundtrip', 'Delta.C01_root_change_roundtrip', 'Delta.C01_flat_dict_roundtrip', 'Delta.C01_list_positional_roundtrip', 'Delta.C01_list_pairwise_roundtrip', 'Delta.C01_nested_dict_roundtrip', 'Delta.C01_list_opcodes_roundtrip', 'Delta.C01_set_roundtrip']
RULE = ('tree-shaped pairs (generated values with 1-3 edits, flat lists with insert/delete/replace/move/duplicate, tuples edited in place, numeric arrays, flat and nested dictionaries with string keys and scalar leaves, keys added / removed / changed in value / changed in type at every level) x '
        'zip_ordered_iterables x threshold_to_diff_deeper in {0,0.33,0.9} x verbose_level in {0,1,2} x view in {text,tree} x always_include_values, mutate=False; '
        'chains of <= 6 successive edits; ignore_order+report_repetition on lists of distinct scalars. t1 + Delta(DeepDiff(t1,t2)) is compared with t2 (== plus container '
        'types), inputs are snapshotted; the delta payload and the result are compared with the Lean model. distinct = distinct (t1, t2, config); non-trivial = t1 != t2')
TRUSTED_BASE = ['copy.deepcopy and input non-mutation are observed by snapshots, not proved', 'numpy arrays are exercised on the implementation only', 'difflib is an oracle (own port in the driver)']
ASSUMPTIONS = ['Dom_C01 (evaluated on the diff): no structural edit or leaf change whose tuple container sits inside another tuple, no set edited inside a tuple (findings F4b, F4c)']


def shares_mutable(v):
    """one mutable container object at two places of the value (finding F67: a Delta writes through both)"""
    seen = set()

    def walk(x):
        if isinstance(x, (list, dict, set)):
            if id(x) in seen:
                return True
            seen.add(id(x))
        if isinstance(x, dict):
            return any(walk(y) for y in x.values())
        if isinstance(x, (list, tuple)):
            return any(walk(y) for y in x)
        return False
    return walk(v)


def in_domain(t1, t2, **kw):
    """Dom_C01, evaluated on the diff tree (see ASSUMPTIONS)"""
    from deepdiff import DeepDiff
    if shares_mutable(t1):
        return False, 'F67: the base holds one mutable object at two places'
    tree = DeepDiff(t1, t2, view='tree', **kw)
    for cat, levels in tree.items():
        if not hasattr(levels, '__iter__') or cat == 'deep_distance':
            continue
        for lv in levels:
            up = lv.up
            if up is None:
                continue                       # the root itself is replaced
            cont1, cont2 = up.t1, up.t2
            gp = up.up
            if cat in ('set_item_added', 'set_item_removed'):
                if gp is not None and isinstance(gp.t1, tuple):
                    return False, 'F4b: set edited inside a tuple'
                continue
            if isinstance(cont1, tuple) or isinstance(cont2, tuple):
                if gp is not None and isinstance(gp.t1, tuple):
                    return False, 'F4c: tuple edited inside a tuple'
    return True, ''


def set_member_alias(t1, t2):
    """two members of sets of the inputs that are == but of different types (1 / True / 1.0): DeepDiff tells them apart, Python's set
    operations in Delta do not (finding F45)"""
    mem = []

    def walk(v):
        if isinstance(v, (set, frozenset)):
            mem.extend(v)
        elif isinstance(v, dict):
            for x in v.values():
                walk(x)
        elif isinstance(v, (list, tuple)):
            for x in v:
                walk(x)
    walk(t1); walk(t2)
    nums = [x for x in mem if isinstance(x, (bool, int, float))]
    return any(a == b and type(a) is not type(b) for i, a in enumerate(nums) for b in nums[i + 1:])


def cfgs(ctx, full):
    grid = list(itertools.product((False, True), (0, 0.33, 0.9), (0, 1, 2), ('text', 'tree'), (False, True)))
    if full:
        return grid
    return [grid[ctx.rng.randrange(len(grid))] for _ in range(4)]


def special_pairs():
    import decimal as _dc, uuid as _uuid
    out = [
        ([1, 2, 3, 4], [1, 3, 4, 5, 6]),
        ((1, 2, 3, 4), (1, 3, 4, 5, 6)),                       # fixed F2
        ((1, 2, 3), (1, 9, 2, 3)), ({'a': (1, 2, 3)}, {'a': (0, 1, 2, 3)}),   # fixed F4a
        ([(1, 2, 3, 4)], [(1, 3, 4, 5, 6)]),
        ({'a': {1: 1, 'b': 2, 'c': 5}}, {'a': {'c': 5}}),       # fixed F1
        ({None: 1, 'a': 2}, {'a': 2}),                         # fixed F3
        ([1], [1, {'old_value': 5, 'x': 1}]), ({'a': 1}, {'a': 1, 'b': {'old_value': 7}}),   # fixed F30 (t2 was modified)
        ({'a': {'old_value': 1, 'new_value': 2}}, {'a': {'old_value': 1, 'new_value': 3}, 'old_type': [{'old_value': 0}]}),
        # texts that differ only in their line terminators (the convenience line diff is empty, the values are not equal)
        ({'k': 'alpha\nBETA\ngamma'}, {'k': 'alpha\nBETA\ngamma\n'}), (['a\nb', 1], ['a\r\nb', 1]), (('x\ny\n',), ('x\ny',)), ({'k': [b'p\nq']}, {'k': [b'p\nq\n']}),
        ({'t': 'one\x0ctwo'}, {'t': 'one\ntwo'}), ([{'d': 'l1\nl2'}], [{'d': 'l1\u2028l2'}]),
        ({'a': (1, 2, 3)}, {'a': (1, 5, 3)}),
        ([{'x': [1, 2]}, {'y': {1, 2}}], [{'x': [2, 1, 3]}, {'y': {2, 3}}]),
        ({'k': 'multi\nline', 'n': None}, {'k': 'multi\nline2', 'n': 0}),
        ([0, False], [False, 0]),
        ({'rows': [('ann', 31), ('bob', 46)]}, {'rows': [('zed', 20), ('ann', 31), ('bob', 47)]}),
        ({7: [100], 'k': list(range(9))}, {7: [100, 101], 'k': list(range(12))}),
        ([1, 2, 3], [0, 1, 2, '3']),
        # tuples edited below keys / indexes that are == and of different types, one pair after the other in one process (finding F58: element
        # paths went through a cache that identifies 1.0, 1 and True)
        ({1.0: (1, 2)}, {1.0: (1, 3)}), ([0, (1, 2)], [0, (1, 3)]), ({True: (5, 6)}, {True: (5, 7)}), ({1: (1, 2), 'k': [0, (4, 5)]}, {1: (9, 2), 'k': [0, (4, 6)]}),
        ({0.0: [(1, 2)], False: 1}, {0.0: [(1, 3)], False: 1}), ([(1, 2), 0], [(1, 3), 0]),
        # flat sequences edited by deletions and insertions only (no replaced chunk), with a deletion and an insertion at one index
        ([10, 1, 2, 11, 3], [1, 2, 3, 12]), ([1, 2, 1], [3, 1, 3, 2]), (('a', 'b', 'c', 'd', 'e'), ('b', 'c', 'e', 'f')), ({'k': [5, 6, 7, 8, 9]}, {'k': [6, 7, 9, 10, 11]}),
        ([0, 1, 2, 3, 4, 5], [1, 2, 9, 3, 5]), ([1, 1, 2, 3], [2, 1, 3, 3]),
        # tuples as dictionary keys next to int keys and list indexes that spell the same path when a tuple is rendered item by item (finding F64)
        ({(1, 2): 5, 1: [0, 0, 7]}, {(1, 2): 6, 1: [0, 0, 7]}), ({(0,): 'a', 0: 'b'}, {(0,): 'c', 0: 'b'}), ([{(1, 1): [1]}, [0, [2]]], [{(1, 1): [1, 2]}, [0, [2]]]),
        ({(): {'k': 1}}, {(): {'k': 2}, (4,): 0}), ({(1, (2, 3)): 1}, {(1, (2, 3)): 2}),
        # a leaf changes type and the constructor of the new type fails on the old value in an unusual way (InvalidOperation, OverflowError, AttributeError)
        ({'a': 'abc', 'n': 1}, {'a': _dc.Decimal('1.5'), 'n': 1}), (['x y'], [_dc.Decimal('2')]), ({'a': float('inf')}, {'a': 5}), ([float('-inf'), 1], [7, 1]),
        ({'a': 10 ** 400}, {'a': 1.5}), ({'a': 3}, {'a': _uuid.UUID(int=3)}), ([5, 'k'], [_uuid.UUID(int=5), 'k']), ({'a': None}, {'a': _dc.Decimal('0')}), ({'a': [1]}, {'a': _dc.Decimal('1')}),
    ]
    # the second value is built from pieces of the first without copying: it holds, below the place of a container of t1 (or of t1 itself), that very
    # container -- each value is a tree on its own, the two share objects
    def _shared():
        a = [1, 2]; t1 = {'a': a}; yield t1, {'a': [1, a]}
        t1 = {'a': 1}; yield t1, {'a': 1, 'b': t1}
        t1 = [[1], [2]]; yield t1, [[1], [2, t1[0]]]
        t1 = {'x': {'y': [1]}}; yield t1, {'x': {'y': [1], 'z': t1['x']}}
        t1 = [1, [2, 3]]; yield t1, [1, [2, t1]]
        t1 = {'k': [0, {'m': 1}]}; yield t1, {'k': [0, {'m': t1['k']}]}
        t1 = ([1, 2], 'z'); yield t1, ([1, t1[0], 2], 'z')
    out += list(_shared())
    # several items of one tuple below the root change in one report kind
    out += [({'a': (1, 2, 3)}, {'a': (1, 5, 6)}), ([0, (1, 2, 3)], [0, (7, 2, 9)]), ({'a': {'b': (1, 'x', 2.5)}}, {'a': {'b': ('1', 'x', 2)}}), ([[('a', 'b', 'c')]], [[('A', 'B', 'c')]]),
            ({'a': (1, 2, 3), 'b': (4, 5)}, {'a': (9, 2, 8), 'b': (5, 4)})]
    try:
        import numpy as np
        out += [({'a': np.array([0.5, -7.25, 2.5]), 'b': np.array([1, 2, 3]), 'l': [1, 2]}, {'a': np.array([0.5, -7.25, 2.5]), 'b': np.array([1, 2, 3]), 'l': [1, 2, 3]}),
                ({'a': np.array([0.5, 1.5], dtype=np.float32), 'b': np.array([1, 2], dtype=np.int8), 'l': ['x']}, {'a': np.array([0.5, 2.5], dtype=np.float32), 'b': np.array([1, 3], dtype=np.int8), 'l': []}),
                ([np.array([1.5, 2.5]), np.array([1, 2]), [0]], [np.array([1.5, 3.5]), np.array([1, 2]), [0, 1]]),
                (np.array([1, 2, 3]), np.array([1, 5, 3])), ({'m': np.array([[1.0, 2.0], [3.0, 4.0]])}, {'m': np.array([[1.0, 2.5], [3.0, 4.0]])})]
    except Exception:
        pass
    return out


def equal_result(r, t2):
    try:
        import numpy as np
        if isinstance(t2, np.ndarray) or isinstance(r, np.ndarray):
            return isinstance(r, np.ndarray) and isinstance(t2, np.ndarray) and r.shape == t2.shape and bool((r == t2).all())
        if isinstance(t2, dict) and any(isinstance(v, np.ndarray) for v in t2.values()):
            return isinstance(r, dict) and set(r) == set(t2) and all(DL.py_eq_t(r[k], t2[k]) for k in t2)
    except Exception:
        pass
    return DL.py_eq_t(r, t2)


def check_pair(ctx, t1, t2, zip_, thr, vb, view, always, lines, metas, impl_only):
    from deepdiff import DeepDiff, Delta
    kw = dict(zip_ordered_iterables=zip_, threshold_to_diff_deeper=thr)
    case = {'t1': repr(t1), 't2': repr(t2), 'zip': zip_, 'thr': thr, 'verbose': vb, 'view': view, 'always_include_values': always}
    ctx.evaluations += 1
    s1, s2 = copy.deepcopy(t1), copy.deepcopy(t2)
    is_np = 'array(' in repr(t1)
    root_np = type(t1).__name__ == 'ndarray'
    try:
        ok_dom, why = (True, '') if is_np else in_domain(t1, t2, **kw)
    except Exception as e:
        ok_dom, why = True, ''
    if ok_dom and not is_np and set_member_alias(t1, t2):
        ok_dom, why = False, 'F45: set members that are == but of different types'
    try:
        dd = DeepDiff(t1, t2, verbose_level=vb, view=view, **kw)
        delta = Delta(dd, always_include_values=always)
        out, r = DL.apply_outcome((lambda: delta + t1) if root_np else (lambda: t1 + delta))     # numpy's own + wins over __radd__: documented, use delta + t1
    except Exception as e:
        out, r = 'RAISED:' + type(e).__name__, None
    if not out.startswith('RAISED') or True:
        try:
            for pth, ops in (delta.diff.get('_iterable_opcodes') or {}).items():
                i = j = 0
                for o in ops:
                    good = (o.t1_from_index == i and o.t2_from_index == j and o.t2_from_index <= o.t2_to_index and o.t1_from_index <= o.t1_to_index and o.tag in ('equal', 'replace', 'insert', 'delete')
                            and (o.tag != 'delete' or o.t2_from_index == o.t2_to_index))
                    if not good:
                        ctx.violate(case, 'assumption TilesO fails: the opcodes recorded at %s do not tile the two lists' % pth)
                        break
                    i, j = o.t1_to_index, o.t2_to_index
                ctx.count('opcode_lists_tiling_checked')
        except UnboundLocalError:
            pass
    if not is_np and not (strict_eq(t1, s1) and strict_eq(t2, s2)):
        ctx.violate(case, 'an input was modified')
    ctx.count('dom' if ok_dom else 'out_of_domain:' + why.split(':')[0])
    if is_np or not strict_eq_safe(t1, t2):
        ctx.nontriv((repr(t1), repr(t2), zip_, thr, vb, view, always))
    if ok_dom:
        if out.startswith('RAISED'):
            ctx.violate(case, 't1 + Delta(DeepDiff(t1, t2)) raised %s' % out[7:])
        elif not equal_result(r, t2):
            ctx.violate(case, 't1 + Delta(DeepDiff(t1, t2)) = %r, expected t2 = %r' % (r, t2))
    if not impl_only and not is_np and FAM.in_universe(t1, t2):
        try:
            payload = DL.canon_delta(delta.diff) if not out.startswith('RAISED') or True else ''
            lines.append(DL.delta_line(t1, t2, t1, t2, False, always, zip_, thr))
            metas.append((case, payload + ' ;; ' + out + ' ;; refused'))
        except (OutOfUniverse, Exception):
            ctx.count('out_of_universe')
    return ok_dom


def flat_dict_pairs(ctx, n):
    """flat dictionaries: string keys, scalar values, keys added / removed / changed in value / changed in type at once"""
    fk = ['a', 'b', 'c', 'dd', 'x y', 'old_value', 'new_value', '', 'A', '_p', '1', "q'r"]
    fv = [None, True, False, 0, 1, -3, 2.5, 0.0, 'a', '', 'line1\nline2', b'x', b'', 10**20]
    out = []
    for _ in range(n):
        d1 = {k: ctx.rng.choice(fv) for k in ctx.rng.sample(fk, ctx.rng.randint(0, 7))}
        d2 = dict(d1)
        for k in list(d2):
            c = ctx.rng.random()
            if c < 0.25:
                del d2[k]
            elif c < 0.6:
                d2[k] = ctx.rng.choice(fv)
        for k in ctx.rng.sample(fk, ctx.rng.randint(0, 3)):
            d2.setdefault(k, ctx.rng.choice(fv))
        if ctx.rng.random() < 0.3:
            d2 = dict(sorted(d2.items(), key=lambda kv: ctx.rng.random()))
        out.append((d1, d2))
        ctx.count('flat_dict_pairs')
    return out


def nested_dict_pairs(ctx, n):
    """nested dictionaries: string keys at every level, scalar leaves; keys added / removed / changed in value / in type (scalar <-> dict) at every level"""
    fk = ['a', 'b', 'c', 'dd', 'x y', 'old_value', 'new_value', '', 'A', '_p', '1', "q'r"]
    fv = [None, True, False, 0, 1, -3, 2.5, 'a', '', 'line1\nline2', b'x', 10**20]

    def gen(depth):
        if depth == 0 or ctx.rng.random() < 0.35:
            return ctx.rng.choice(fv)
        return {k: gen(depth - 1) for k in ctx.rng.sample(fk, ctx.rng.randint(0, 4))}

    def edit(v, depth):
        if not isinstance(v, dict):
            c = ctx.rng.random()
            return v if c < 0.5 else (ctx.rng.choice(fv) if c < 0.85 else gen(2))
        out = {}
        for k, x in v.items():
            c = ctx.rng.random()
            if c < 0.15:
                continue
            out[k] = edit(x, depth + 1) if c < 0.75 else (x if c < 0.9 else ctx.rng.choice(fv))
        for k in ctx.rng.sample(fk, ctx.rng.randint(0, 2)):
            out.setdefault(k, gen(2))
        if ctx.rng.random() < 0.25:
            out = dict(sorted(out.items(), key=lambda kv: ctx.rng.random()))
        return out

    res = []
    for _ in range(n):
        d1 = {k: gen(3) for k in ctx.rng.sample(fk, ctx.rng.randint(0, 5))}
        res.append((d1, edit(copy.deepcopy(d1), 0)))
        ctx.count('nested_dict_pairs')
    return res


def strict_eq_safe(a, b):
    try:
        return strict_eq(a, b)
    except Exception:
        return False


def run(ctx, impl_only=False):
    from deepdiff import DeepDiff, Delta
    findings = {f['id']: f for f in core.load_findings(ID) if f.get('status') == 'open'}
    n = 900 if ctx.thorough() else 110
    keys = ['a', 'b', 'c', 'dd', 1, 2, None, 'x y', 'old_value']
    pairs = special_pairs() + FAM.gen_pairs(ctx, n, keys=keys, flat_share=0.3, equal_share=0.03)
    # tuples of scalars edited in place / resized
    gt = Gen(ctx.rng, scalars=[0, 1, 2, 3, 'a', 'b', None, 1.5], kinds=('tuple',), max_depth=1, max_width=6, p_leaf=0)
    for _ in range(n // 5):
        t = gt.container(1)
        u = gt.edits(t, ctx.rng.randint(1, 3))
        w = ctx.rng.choice([lambda x: x, lambda x: [x, 0], lambda x: {'t': x}])
        pairs.append((w(t), w(u)))
    pairs += FAM.hostile_pairs(ctx, n // 3)        # hostile keys, edge-case leaves, shared sub-objects
    pairs += FAM.rich_pairs(ctx, n // 3)           # Decimal, bytes, aware datetimes, date, time, timedelta, UUID, complex, frozenset leaves
    pairs += flat_dict_pairs(ctx, n // 2)          # the domain of C01_flat_dict_roundtrip
    pairs += nested_dict_pairs(ctx, n // 2)        # the domain of C01_nested_dict_roundtrip
    lines, metas = [], []
    nsp = len(special_pairs())
    for i, (t1, t2) in enumerate(pairs):
        for (zip_, thr, vb, view, always) in cfgs(ctx, full=(i < nsp or ctx.thorough() and i % 10 == 0)):
            check_pair(ctx, t1, t2, zip_, thr, vb, view, always, lines, metas, impl_only)
        if len(ctx.samples) < 5 and i >= nsp:
            ctx.sample({'t1': repr(t1)[:120], 't2': repr(t2)[:120]})
    # ---- chains of successive edits
    g = Gen(ctx.rng, keys=['a', 'b', 'c', 1], max_depth=3, max_width=4, kinds=('dict', 'list', 'set'))
    for _ in range(60 if ctx.thorough() else 12):
        vals = [g.container()]
        for _k in range(ctx.rng.randint(2, 6)):
            vals.append(g.edit(vals[-1]))
        cur = copy.deepcopy(vals[0])
        okc = True
        for a, b in zip(vals, vals[1:]):
            ctx.evaluations += 1
            try:
                if not in_domain(a, b)[0] or set_member_alias(a, b):          # F45: set members that are == but of different types
                    okc = False; break
                cur = cur + Delta(DeepDiff(a, b))
            except Exception as e:
                ctx.violate({'chain': [repr(v) for v in vals]}, 'chain step raised %s' % type(e).__name__); okc = False; break
            if not DL.py_eq_t(cur, b):
                ctx.violate({'chain': [repr(v) for v in vals]}, 'after applying the deltas in turn the value is %r, expected %r' % (cur, b)); okc = False; break
        ctx.count('chain' + ('' if okc else '_stopped'))
    # ---- ignore_order + report_repetition on lists of distinct scalars: equal up to order
    for _ in range(200 if ctx.thorough() else 40):
        pool = [0, 1, 2, 3, 4, 5, 'a', 'b', 'c', 1.5, None]
        a = ctx.rng.sample(pool, ctx.rng.randint(0, 7)); b = ctx.rng.sample(pool, ctx.rng.randint(0, 7))
        if ctx.rng.random() < 0.4:
            a = {'l': a, 'z': 1}; b = {'l': b, 'z': 1}
        ctx.evaluations += 1
        try:
            r = copy.deepcopy(a) + Delta(DeepDiff(a, b, ignore_order=True, report_repetition=True))
        except Exception as e:
            ctx.violate({'t1': repr(a), 't2': repr(b), 'ignore_order': True}, 'raised %s' % type(e).__name__); continue
        ra = r['l'] if isinstance(r, dict) else r
        rb = b['l'] if isinstance(b, dict) else b
        if sorted(map(repr, ra)) != sorted(map(repr, rb)) or type(r) is not type(b):
            ctx.violate({'t1': repr(a), 't2': repr(b), 'ignore_order': True}, 'result %r is not t2 %r up to order' % (r, b))
        ctx.count('ignore_order_lists')
    # several lists of distinct scalars in one order-ignoring delta, where an item added to one list is an untouched member of another
    def up_to_order(x, y):
        if isinstance(x, dict) and isinstance(y, dict):
            return set(x) == set(y) and all(up_to_order(x[k], y[k]) for k in x)
        if isinstance(x, list) and isinstance(y, list):
            return sorted(map(repr, x)) == sorted(map(repr, y))
        return type(x) is type(y) and x == y
    for _ in range(120 if ctx.thorough() else 30):
        pool = list(range(12)) + ['a', 'b', 'c']
        names = ctx.rng.sample(['a', 'b', 'c', 'd'], ctx.rng.randint(2, 3))
        t1 = {k: ctx.rng.sample(pool, ctx.rng.randint(2, 5)) for k in names}
        t2 = {}
        for k in names:
            l = [x for x in t1[k] if ctx.rng.random() < 0.8]
            l += [x for x in ctx.rng.sample(pool, ctx.rng.randint(1, 3)) if x not in l]
            ctx.rng.shuffle(l)
            t2[k] = l
        if ctx.rng.random() < 0.3:
            t1, t2 = {'w': t1, 'z': 0}, {'w': t2, 'z': 0}
        ctx.evaluations += 1
        case = {'t1': repr(t1), 't2': repr(t2), 'ignore_order': True}
        ctx.nontriv(('io-multi', repr(t1), repr(t2)))
        try:
            r = copy.deepcopy(t1) + Delta(DeepDiff(t1, t2, ignore_order=True, report_repetition=True), raise_errors=True)
        except Exception as e:
            ctx.violate(case, 'raised %s: %s' % (type(e).__name__, str(e)[:80])); continue
        if not up_to_order(r, t2):
            ctx.violate(case, 'result %r is not t2 %r up to the order of the lists' % (r, t2))
        ctx.count('ignore_order_several_lists')
    # ---- boundary witnesses
    def same(t1, t2, **kw):
        try:
            return DL.py_eq_t(copy.deepcopy(t1) + Delta(DeepDiff(t1, t2, **kw)), t2)
        except Exception:
            return False
    import datetime as _dt
    wit = {
        'F42': lambda: same([_dt.datetime(2020, 1, 1, 2, 3)], [_dt.datetime(2021, 5, 6)]),
        'F45': lambda: same({1}, {True}) and same([{0, 'a'}], [{False, 'a'}]),
        'F4b': lambda: same([([], {1})], [([], {1, 'b'})]),
        'F4c': lambda: same([((1, 2), 0)], [((1, 3), 0)]),
        'F67': lambda: (lambda x: same([x, x], [[1], [2]]))([1]),
    }
    for fid, fn in wit.items():
        ctx.evaluations += 1
        ok = fn()
        if fid in findings:
            (ctx.known_not_reproduced if ok else ctx.known_reproduced).append(fid if ok else '%s: %s' % (fid, findings[fid]['what_fails']))
        elif not ok:
            ctx.violate({'witness': fid}, 'boundary witness %s fails and is not a listed finding' % fid)
    # ---- correspondence
    if ctx.build_ok and not impl_only and lines:
        ans = core.run_model(lines)
        for (case, a), m in zip(metas, ans):
            ctx.traces += 1
            if a != m:
                pa, pm = a.split(' ;; '), m.split(' ;; ')
                which = 'payload' if pa[0] != pm[0] else 'result'
                ctx.diverge(case, (pa[0] if which == 'payload' else pa[1])[:500], (pm[0] if which == 'payload' else pm[1])[:500], op='DELTA-' + which)


def search(ctx):
    c2 = core.Ctx(ctx.pid, 'thorough', ctx.seed + 1)
    c2.build_ok = False
    run(c2, impl_only=True)
    return c2.violations


def replay(ctx, payload):
    from deepdiff import DeepDiff, Delta
    ok = True
    for c in payload.get('cases', []):
        case = c['case']
        if 't1' not in case:
            print('  ', case, c.get('why')); ok = False; continue
        t1, t2 = eval(case['t1']), eval(case['t2'])
        kw = dict(zip_ordered_iterables=case.get('zip', False), threshold_to_diff_deeper=case.get('thr', 0.33))
        try:
            r = copy.deepcopy(t1) + Delta(DeepDiff(t1, t2, **kw), always_include_values=case.get('always_include_values', False))
            good = DL.py_eq_t(r, t2)
        except Exception as e:
            r, good = 'raised %r' % e, False
        print('  ', case, '->', r, 'holds' if good else 'FAILS')
        ok = ok and good
    return ok
