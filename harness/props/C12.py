"""C12 — DeepHash equality matches order-ignoring diff emptiness under the same options."""
import enum
import copy, datetime
from .. import core, hashing as HS
from ..gen import Gen, strict_eq
from . import C05, C11

ID = 'C12'
LEAN_TARGETS = ['Properties.C12']
THEOREMS = ['DiffIO.C12_forwarded', 'DiffIO.C12_diff_iff_verdict', 'DiffIO.C12_empty_implies_equal_hash', 'DiffIO.C12_hashSound_concrete', 'DiffIO.C12_empty_implies_equal_deephash', 'DiffIO.C05_verdict_deephash', 'DiffIO.C12_repetition_matches',
            'DiffIO.C12_equal_deephash_iff_verdict', 'DiffIO.C12_equal_deephash_iff_empty_diff', 'DiffIO.C05_list_is_nested_set_equality']
RULE = ('pairs of nested values: shuffles / duplications / near-duplicates / edits (the C05 generator) and pairs that differ only in what an option ignores (the C11 normalisers, '
        'dict keys included) x each shared option in {none, ignore_string_case, ignore_string_type_changes, ignore_numeric_type_changes, significant_digits (3, 0, and 2 in e notation), '
        'truncate_datetime, default_timezone, use_enum_value} and pairs of them x report_repetition (ignore_repetition = not report_repetition): '
        'DeepHash(a, **F)[a] == DeepHash(b, **F)[b] is compared with DeepDiff(a, b, ignore_order=True, **F) == {}. distinct = distinct (a, b, options, report_repetition); '
        'non-trivial = a and b are not identical')
TRUSTED_BASE = ['hashlib.sha256 collision freedom', 'datetime arithmetic of the standard library']
ASSUMPTIONS = ['NoSpoof and NoNumAlias jointly over (a, b) (findings F5, F18)', 'no two keys of one dict and no two members of one set collapse to the same item under the options (DeepDiff drops the later key with a warning; finding F29 for sets)', 'pairing knobs at their defaults (knob independence is C05)',
               'significant digits: values away from rounding ties']

OPTIONS = {
    'none': {},
    'ignore_string_case': dict(ignore_string_case=True),
    'ignore_string_type_changes': dict(ignore_string_type_changes=True),
    'ignore_numeric_type_changes': dict(ignore_numeric_type_changes=True),
    'significant_digits': dict(significant_digits=3),
    'significant_digits_e': dict(significant_digits=2, number_format_notation='e'),
    'significant_digits_0': dict(significant_digits=0),
    'truncate_datetime': dict(truncate_datetime='minute'),
    'default_timezone': dict(default_timezone=C11.TZ5),
    'use_enum_value': dict(use_enum_value=True),
}
OPTIONS_X = {
    'truncate_second': dict(truncate_datetime='second'),
    'sd1_e': dict(significant_digits=1, number_format_notation='e'),
    'truncate_day': dict(truncate_datetime='day'),
    'truncate_hour': dict(truncate_datetime='hour'),
    'tz_m5': dict(default_timezone=datetime.timezone(datetime.timedelta(hours=-5))),
    'tz_530': dict(default_timezone=datetime.timezone(datetime.timedelta(hours=5, minutes=30))),
}
ALLOPT = dict(OPTIONS, **OPTIONS_X)
NORMALISER_OF = {'ignore_string_case': 'ignore_string_case', 'ignore_string_type_changes': 'ignore_string_type_changes', 'ignore_numeric_type_changes': 'ignore_numeric_type_changes',
                 'significant_digits': 'significant_digits', 'significant_digits_e': 'significant_digits', 'significant_digits_0': 'significant_digits', 'truncate_datetime': 'truncate_datetime',
                 'default_timezone': 'default_timezone', 'use_enum_value': 'use_enum_value'}


class Level(enum.Enum):
    """a second Enum class whose members share values with C11.Color"""
    LOW = 1
    MID = 2.5
    NAME = 'green'


def both(a, b, rep, kw):
    from deepdiff import DeepDiff, DeepHash
    ha = DeepHash(a, ignore_repetition=not rep, **kw)[a]
    hb = DeepHash(b, ignore_repetition=not rep, **kw)[b]
    dd = DeepDiff(a, b, ignore_order=True, report_repetition=rep, **kw)
    return ha == hb, dd == {}, dd


def keys_collapse(v, kw):
    """two keys of one dict that become the same key once cleaned under the options (the later one is dropped with a warning)"""
    if isinstance(v, dict):
        seen = set()
        for k in v:
            c = k
            if isinstance(c, bytes) and kw.get('ignore_string_type_changes'):
                try:
                    c = c.decode('utf-8')
                except Exception:
                    pass
            if isinstance(c, str) and kw.get('ignore_string_case'):
                c = c.lower()
            if isinstance(c, (int, float)) and not isinstance(c, bool) and (kw.get('ignore_numeric_type_changes') or kw.get('significant_digits') is not None):
                c = ('num', round(float(c), kw.get('significant_digits') if kw.get('significant_digits') is not None else 12))
            key = (type(c).__name__ if not isinstance(c, tuple) else 'n', c)
            if key in seen:
                return True
            seen.add(key)
        return any(keys_collapse(x, kw) for x in v.values())
    if isinstance(v, (list, tuple)):
        return any(keys_collapse(x, kw) for x in v)
    return False


def clean_scalar(c, kw):
    if isinstance(c, bytes) and kw.get('ignore_string_type_changes'):
        try:
            c = c.decode('utf-8')
        except Exception:
            pass
    if isinstance(c, str) and kw.get('ignore_string_case'):
        c = c.lower()
    if isinstance(c, (int, float)) and not isinstance(c, bool) and kw.get('significant_digits') is not None:
        c = (type(c).__name__ if not kw.get('ignore_numeric_type_changes') else 'number', round(float(c), kw['significant_digits']))
    elif isinstance(c, (int, float)) and not isinstance(c, bool) and kw.get('ignore_numeric_type_changes'):
        c = ('number', round(float(c), 12))
    return (type(c).__name__, c) if not isinstance(c, tuple) else c


def set_members_collapse(v, kw):
    """two members of one set that become the same item once normalised under the options (finding F29)"""
    if isinstance(v, (set, frozenset)):
        cs = [clean_scalar(x, kw) for x in v]
        return len(set(map(repr, cs))) < len(cs)
    if isinstance(v, dict):
        return any(set_members_collapse(x, kw) for x in v.values())
    if isinstance(v, (list, tuple)):
        return any(set_members_collapse(x, kw) for x in v)
    return False


def bool_number_alias(a, b):
    """a bool and a number that are == somewhere in the two values: with ignore_numeric_type_changes DeepDiff compares them as numbers
    (True == 1), DeepHash keeps 'bool:true' apart from 'number:1' (finding F46)"""
    bools, nums = set(), set()

    def walk(v):
        if isinstance(v, bool):
            bools.add(v)
        elif isinstance(v, (int, float)):
            nums.add(v)
        elif isinstance(v, dict):
            for k, x in v.items():
                walk(k); walk(x)
        elif isinstance(v, (list, tuple, set, frozenset)):
            for x in v:
                walk(x)
    walk(a); walk(b)
    return any(x == y for x in bools for y in nums)


def datetime_alias(a, b):
    """two aware datetimes that are == (one instant) and carry different offsets somewhere in the two values: the shared hashes table of
    a DeepDiff run is keyed by ==/hash, so the second one reuses the digest of the first, while truncation to the hour or the day is done
    on each datetime's own clock and gives them different digests when hashed alone (finding F52, same root cause as F18)"""
    dts = []

    def walk(v):
        if isinstance(v, datetime.datetime):
            dts.append(v)
        elif isinstance(v, dict):
            for k, x in v.items():
                walk(k); walk(x)
        elif isinstance(v, (list, tuple, set, frozenset)):
            for x in v:
                walk(x)
    walk(a); walk(b)
    aware = [d for d in dts if d.utcoffset() is not None]
    return any(x == y and x.utcoffset() != y.utcoffset() for x in aware for y in aware)


def in_domain(a, b, kw=None, direct=False, rep=True):
    """direct: the two numbers are compared by _diff itself (root, dictionary value), never through one shared hashes table, so NoNumAlias
    (a restriction about that table) does not apply"""
    kw = kw or {}
    if kw.get('ignore_numeric_type_changes') and bool_number_alias(a, b):
        return False
    if not direct and kw.get('truncate_datetime') in ('hour', 'day') and datetime_alias(a, b):
        return False
    return ((direct or HS.no_num_alias(a, b)) and HS.no_spoof(a, b) and not keys_collapse(a, kw) and not keys_collapse(b, kw)
            and (not rep or (not set_members_collapse(a, kw) and not set_members_collapse(b, kw))))       # F29 needs report_repetition


def run(ctx, impl_only=False):
    findings = {f['id']: f for f in core.load_findings(ID) if f.get('status') == 'open'}
    n = 500 if ctx.thorough() else 70
    names = list(OPTIONS)
    cases = []
    # (1) structural pairs under every option
    for (a, b) in C05.gen_pairs(ctx, n):
        for nm in (names if ctx.thorough() else ['none'] + ctx.rng.sample(names[1:], 2)):
            cases.append((a, b, (nm,)))
        cases.append((a, b, tuple(ctx.rng.sample(names[1:], 2))))
    # (2) pairs that differ only in what the option ignores
    for nm in names[1:]:
        base = NORMALISER_OF[nm]
        fn, keys_too = C11.NORMALISERS[base]
        for _ in range(n // 2):
            x = C11.gen_value(ctx, base)
            if base == 'ignore_numeric_type_changes':
                pass
            stats = {'keys': 0, 'leaves': 0}
            y = C11.apply_normaliser(ctx.rng, x, fn, keys_too, p=0.6, stats=stats)
            if ctx.rng.random() < 0.25:
                g = Gen(ctx.rng, scalars=C11.STRS + C11.NUMS, keys=['a', 'b'], kinds=('dict', 'list', 'tuple'), max_depth=2, max_width=3)
                y = g.edit(y)
            if ctx.rng.random() < 0.3 and isinstance(y, list):
                y = list(y); ctx.rng.shuffle(y)
            cases.append((x, y, (nm,)))
            if ctx.rng.random() < 0.4:
                others = [o for o in names[1:] if o != nm and NORMALISER_OF[o] != base]
                other = others[len(cases) % len(others)]
                fn2, keys2 = C11.NORMALISERS[NORMALISER_OF[other]]
                y2 = C11.apply_normaliser(ctx.rng, y, fn2, keys2, p=0.6)          # altered in what either option ignores
                cases.append((x, y2, (nm, other)))
    # (3) pairs of options of one family, both normalisers applied everywhere they can be (keys included)
    families = [('ignore_string_case', 'ignore_string_type_changes'), ('ignore_string_type_changes', 'ignore_string_case'),
                ('ignore_numeric_type_changes', 'significant_digits'), ('significant_digits_0', 'ignore_numeric_type_changes'),
                ('ignore_string_case', 'use_enum_value'), ('truncate_datetime', 'default_timezone')]
    for (n1, n2) in families:
        f1, k1 = C11.NORMALISERS[NORMALISER_OF[n1]]; f2, k2 = C11.NORMALISERS[NORMALISER_OF[n2]]
        for _ in range(max(6, n // 8)):
            x = C11.gen_value(ctx, NORMALISER_OF[n1])
            y = C11.apply_normaliser(ctx.rng, C11.apply_normaliser(ctx.rng, x, f1, k1, p=0.9), f2, k2, p=0.9)
            cases.append((x, y, (n1, n2)))
    # letters whose case folding is not their lower case, and complex numbers with a zero imaginary part next to the equal real number:
    # compared directly (root, dictionary value), where DeepDiff does not go through the item hashes
    import decimal as _dc
    for (x, y) in [('Straße', 'STRASSE'), ('ς', 'Σ'), ('ſ', 'S'), ('ǅ', 'ǆ'), ('İ', 'i'), ('Straße', 'straße'), ('ΣΑΣ', 'σας')]:
        for w in (lambda v: v, lambda v: {'k': v}, lambda v: {'k': {'j': v}, 'z': 1}):
            cases.append((w(x), w(y), ('ignore_string_case',)))
            cases.append((w(x), w(y.encode()), ('ignore_string_case', 'ignore_string_type_changes')))
    for (x, y) in [(1, 1 + 0j), (_dc.Decimal('3'), 3 + 0j), (7.0, 7 + 0j), (2, 2.0), (0, 0j), (1.5, 1.5 + 0j), (1 + 0j, 1 + 1j)]:
        for w in (lambda v: v, lambda v: {'k': v}, lambda v: {'k': {'j': v}, 'z': 1}):
            for nm in ('ignore_numeric_type_changes', 'significant_digits', 'significant_digits_e'):
                cases.append((w(x), w(y), (nm,) if nm == 'ignore_numeric_type_changes' else ('ignore_numeric_type_changes', nm), 'direct'))
    # a str and its bytes, a number in two types, compared directly under the two type-ignoring options together (and each with a third option)
    for (x, y) in [('a', b'a'), ('héllo', 'héllo'.encode()), ('', b''), ('a', b'b'), (1, 1.0), (2.5, _dc.Decimal('2.5')), ('1', 1), (b'1', 1.0)]:
        for w in (lambda v: v, lambda v: {'k': v}, lambda v: {'k': {'j': v}, 'z': 1}, lambda v: [{'k': v}, 0]):
            for combo in (('ignore_string_type_changes', 'ignore_numeric_type_changes'), ('ignore_numeric_type_changes', 'ignore_string_type_changes'),
                          ('ignore_string_type_changes', 'significant_digits'), ('ignore_string_type_changes', 'use_enum_value'), ('ignore_numeric_type_changes', 'ignore_string_case')):
                cases.append((w(x), w(y), combo) + (() if isinstance(w(0), list) else ('direct',)))       # inside a list the two go through one hashes table (NoNumAlias applies)
    # the second value is itself a part of the first (a node against its successor, a tree against one of its branches), no cycle anywhere
    for val in ('a', 1, None):
        succ = {'val': val, 'next': None}
        node = {'val': val, 'next': succ}
        head = {'val': val, 'next': node}
        tree = {'val': val, 'kids': [{'val': val, 'kids': []}], 'next': None}
        branch = tree['kids'][0]
        for (x, y) in [(node, succ), (head, node), (head, succ), (succ, node), (tree, branch), ([node, 1], [succ, 1]), ({'k': node}, {'k': succ})]:
            for combo in (('none',), ('ignore_string_case',), ('ignore_numeric_type_changes',)):
                cases.append((x, y, combo))
    # members of two Enum classes with equal (or different) values, compared directly and inside a dictionary in a list
    for (x, y) in [(C11.Color.RED, Level.LOW), (Level.LOW, C11.Color.RED), (C11.Color.GREEN, Level.NAME), (C11.Color.RED, Level.MID), (Level.MID, 2.5), (Level.LOW, 1),
                   (C11.Color.GREEN, Level.LOW)]:
        for w in (lambda v: v, lambda v: {'k': v}, lambda v: [{'k': v}, 0], lambda v: {'k': {'j': v}, 'z': 1}):
            cases.append((w(x), w(y), ('use_enum_value',), 'direct'))
    # truncation happens on the datetime's own clock, at both sites: aware datetimes whose offset differs from default_timezone, in pairs
    # that share an hour / a day on one clock and not on another
    _tzs = [datetime.timezone(datetime.timedelta(hours=-5)), datetime.timezone(datetime.timedelta(hours=5, minutes=30)), datetime.timezone.utc,
            datetime.timezone(datetime.timedelta(hours=5, minutes=45)), None]
    _walls = [(2020, 1, 1, 23, 30), (2020, 1, 1, 1, 0), (2020, 1, 2, 0, 20), (2020, 1, 1, 23, 50), (2020, 1, 1, 18, 40), (2020, 1, 1, 18, 10), (2020, 1, 1, 19, 5)]
    for _ in range(max(20, n // 2)):
        tza, tzb = ctx.rng.choice(_tzs), ctx.rng.choice(_tzs)
        if ctx.rng.random() < 0.6:
            tzb = tza
        x = datetime.datetime(*ctx.rng.choice(_walls), tzinfo=tza)
        y = datetime.datetime(*ctx.rng.choice(_walls), tzinfo=tzb)
        if ctx.rng.random() < 0.3 and tza is not None:
            y = x.astimezone(ctx.rng.choice(_tzs[:4]))
        wi = ctx.rng.randrange(5)
        w = [lambda v: v, lambda v: {'k': v}, lambda v: [v, 'x'], lambda v: {'k': (v, 1)}, lambda v: [{'k': v}, 0]][wi]
        tr = ctx.rng.choice(['truncate_day', 'truncate_hour', 'truncate_datetime'])
        dz = ctx.rng.choice([None, 'tz_m5', 'tz_530', 'default_timezone'])
        cases.append((w(x), w(y), (tr,) if dz is None else (tr, dz)) + (('direct',) if wi < 2 else ()))      # root and dictionary value: compared by _diff_datetime itself
    # times of day (and dates, timedeltas) under truncation: values that differ only below the unit, and values that differ above it
    T_ = datetime.time
    for (x, y) in [(T_(1, 2, 3, 400), T_(1, 2, 3, 900)), (T_(1, 2, 3), T_(1, 2, 50)), (T_(1, 2, 3), T_(1, 3, 3)), (T_(5, 0, 0, 1), T_(5, 0, 0)), (T_(23, 59, 59, 999999), T_(23, 59, 0)),
                   (datetime.timedelta(seconds=5, microseconds=7), datetime.timedelta(seconds=5)), (datetime.date(2020, 1, 1), datetime.date(2020, 1, 2))]:
        for w in (lambda v: v, lambda v: {'k': v}, lambda v: [v, 'x'], lambda v: {'k': (v, 1)}, lambda v: [{'k': v}, 0], lambda v: [v, v, 'q']):
            for tr in ('truncate_datetime', 'truncate_hour', 'truncate_second', 'none'):
                cases.append((w(x), w(y), (tr,)))
    # sets that hold two members an option identifies, one of them shared with the other side (the difference of sets is taken on the
    # normalised digests), at the root and as dictionary values
    for (x, y, nm) in [({'a', 'A', 'b'}, {'a', 'b'}, 'ignore_string_case'), ({'a', 'A', 'b'}, {'A', 'b'}, 'ignore_string_case'), ({'a', 'A'}, {'a', 'b'}, 'ignore_string_case'),
                       ({1.001, 1.002, 5.0}, {1.001, 5.0}, 'significant_digits_e'), ({2.5, 2.5004, 7.0}, {2.5004, 7.0}, 'significant_digits'), ({'x', b'x', 'y'}, {'x', 'y'}, 'ignore_string_type_changes'),
                       ({1, 1.0 + 1e-9, 3}, {1, 3}, 'significant_digits'), (frozenset({'k', 'K'}), frozenset({'K'}), 'ignore_string_case')]:
        for w in (lambda v: v, lambda v: {'s': v, 'z': 1}, lambda v: {'a': {'s': v}}):
            cases.append((w(x), w(y), (nm,), 'direct'))
    # numeric dictionary keys under the 'e' notation: keys that agree at the precision of the notation are one key for DeepDiff and for DeepHash alike
    import decimal as _dc2
    for (x, y) in [({1000.04: 'a'}, {1040.0: 'a'}), ({_dc2.Decimal('123456'): 1}, {123499: 1}), ({1000.04: 'a'}, {2040.0: 'a'}), ({12345.0: [1]}, {12399: [1]}), ({0.00012345: 1}, {0.00012399: 1}), ({5.0: 'v'}, {5: 'v'})]:
        for w in (lambda v: v, lambda v: {'d': v}, lambda v: {'d': {'e': v}, 'z': 0}):
            cases.append((w(x), w(y), ('ignore_numeric_type_changes', 'sd1_e'), 'direct'))
            cases.append((w(x), w(y), ('ignore_numeric_type_changes', 'significant_digits_e'), 'direct'))
    # hostile keys, edge-case leaves and shared sub-objects (implementation only): each pair and the pair of a value with its deep copy
    from . import _difffam as FAM
    for (t1_, t2_) in FAM.hostile_pairs(ctx, 100 if ctx.thorough() else 20):
        cases.append((t1_, t2_, ('none',)))
        cases.append((t1_, copy.deepcopy(t1_), ('none',)))
        cases.append((t1_, t2_, (ctx.rng.choice(['ignore_string_case', 'ignore_numeric_type_changes', 'significant_digits', 'truncate_datetime']),)))
    for case_ in cases:
        a, b, combo = case_[:3]
        direct = len(case_) > 3
        kw = {}
        for nm in combo:
            kw.update(ALLOPT[nm])
        for rep in (False, True):
            if not in_domain(a, b, kw, direct, rep):
                ctx.count('out_of_domain'); continue
            case = {'a': repr(a), 'b': repr(b), 'options': list(combo), 'report_repetition': rep}
            ctx.evaluations += 1
            try:
                heq, empty, dd = both(a, b, rep, kw)
            except Exception as e:
                ctx.count('raised:' + type(e).__name__); continue          # totality under options is C11
            if not strict_eq(a, b):
                ctx.nontriv((repr(a), repr(b), combo, rep))
            ctx.count('%s/%s' % ('hash_equal' if heq else 'hash_differs', 'diff_empty' if empty else 'diff_not_empty'))
            ctx.count('options:' + '+'.join(combo))
            if heq != empty:
                ctx.violate(case, 'DeepHash says %s but the order-ignoring diff is %s' % ('equal' if heq else 'different', 'empty' if empty else 'not empty: ' + str(dd)[:120]))
        if len(ctx.samples) < 5 and len(combo) == 1 and combo[0] != 'none':
            ctx.sample({'a': repr(a)[:100], 'b': repr(b)[:100], 'options': list(combo)})
    # ---- boundary witnesses
    def f18():
        heq, empty, _ = both([1], [1.0], False, {})
        return heq == empty
    def f29():
        heq, empty, _ = both([{2.5}], [{1.5, 2.5}], True, dict(significant_digits=0))
        return heq == empty
    def f46():
        heq, empty, _ = both([1, 'x'], [True, 'x'], False, dict(ignore_numeric_type_changes=True))
        return heq == empty
    def f52():
        a_ = datetime.datetime(2020, 1, 1, 18, 10, tzinfo=datetime.timezone.utc)
        heq, empty, _ = both([a_], [a_.astimezone(datetime.timezone(datetime.timedelta(hours=5, minutes=45)))], False, dict(truncate_datetime='hour'))
        return heq == empty
    for fid, fn in {'F18': f18, 'F29': f29, 'F46': f46, 'F52': f52}.items():
        ctx.evaluations += 1
        try:
            ok = fn()
        except Exception:
            ok = False
        if fid in findings:
            (ctx.known_not_reproduced if ok else ctx.known_reproduced).append(fid if ok else '%s: %s' % (fid, findings[fid]['what_fails']))
        elif not ok:
            ctx.violate({'witness': fid}, 'boundary witness %s fails and is not a listed finding' % fid)


def search(ctx):
    c2 = core.Ctx(ctx.pid, 'thorough', ctx.seed + 1)
    c2.build_ok = False
    run(c2, impl_only=True)
    return c2.violations


def replay(ctx, payload):
    env = {'datetime': datetime, 'Color': C11.Color, 'Level': Level, 'nan': float('nan'), '__builtins__': {}}
    ok = True
    for c in payload.get('cases', []):
        case = c['case']
        if 'a' not in case:
            print('  ', case, c.get('why')); ok = False; continue
        fix = lambda s: (s.replace('<Color.RED: 1>', 'Color.RED').replace("<Color.GREEN: 'green'>", 'Color.GREEN').replace('<Level.LOW: 1>', 'Level.LOW')
                         .replace('<Level.MID: 2.5>', 'Level.MID').replace("<Level.NAME: 'green'>", 'Level.NAME'))
        a, b = eval(fix(case['a']), env), eval(fix(case['b']), env)
        kw = {}
        for nm in case['options']:
            kw.update(ALLOPT[nm])
        heq, empty, dd = both(a, b, case['report_repetition'], kw)
        print('  ', case, '-> hash equal: %s, diff empty: %s' % (heq, empty), 'holds' if heq == empty else 'FAILS')
        ok = ok and heq == empty
    return ok
