"""C04 — every reported entry is backed by the inputs (default alignment mode)."""
import difflib, copy
from .. import core, diffing as DF, hashing as HS
from ..gen import Gen, strict_eq
from ..wire import OutOfUniverse
from . import _difffam as FAM

ID = 'C04'
LEAN_TARGETS = ['Properties.C04']
THEOREMS = ['Diff.C04_faithful', 'Diff.C04_set_items', 'Diff.C04_merged', 'Diff.C04_leaf_differs', 'Diff.C04_fold_present', 'Diff.C04_N_fold_equal', 'Diff.C04_merged_has_path', 'Diff.C04_pathless_kept']
RULE = ('pairs of nested values; long flat lists of scalars edited by insert/delete/replace/move/duplicate so that both the difflib pass and the pairwise pass win on '
        'part of the sample (measured), x verbose_level in {1,2} x threshold_to_diff_deeper in {0,0.33,0.9}, default alignment; every entry of the text view is '
        'resolved with extract() against t1/t2; the full result is compared with the Lean model (own difflib port). distinct = distinct (t1, t2, verbose, thr); '
        'non-trivial = the diff is non-empty')
TRUSTED_BASE = ['difflib.SequenceMatcher: the driver uses its own port, compared with the real opcodes on every case; the theorems quantify over every valid alignment']
ASSUMPTIONS = ['FoldDiffers: an add and a remove folded into values_changed at one index carry different items (finding F15 otherwise)',
               'at verbose_level=1 the t2-side location is read from the tree view of the same inputs (the text view carries no new_path there)']


def resolve(obj, path):
    from deepdiff import extract
    return extract(obj, path)


def parent_and_index(path):
    from deepdiff.path import _path_to_elements
    els = _path_to_elements(path, root_element=None)
    return els[:-1], els[-1][0]


def get_at(obj, els):
    for e, a in els:
        obj = obj[e]
    return obj


def fold_pattern(t1, t2, path):
    """is `path` an index that a difflib alignment both deletes (in t1) and inserts (in t2)?"""
    try:
        par, idx = parent_and_index(path)
        l1, l2 = get_at(t1, par), get_at(t2, par)
        if not (isinstance(l1, (list, tuple)) and isinstance(l2, (list, tuple)) and isinstance(idx, int)):
            return False
        ops = difflib.SequenceMatcher(None, l1, l2, autojunk=False).get_opcodes()
        dele = any(tag in ('delete', 'replace') and i1 <= idx < i2 for tag, i1, i2, j1, j2 in ops)
        ins = any(tag in ('insert', 'replace') and j1 <= idx < j2 for tag, i1, i2, j1, j2 in ops)
        return dele and ins
    except Exception:
        return False


def same(a, b):
    return a is b or strict_eq(a, b)


def check_entries(ctx, case, t1, t2, dd, verbose, t2paths):
    """the faithfulness predicate on the implementation; returns number of entries checked"""
    n = 0
    for cat, body in dd.items():
        if cat in ('values_changed', 'type_changes'):
            for path, d in body.items():
                n += 1
                if verbose == 0:
                    continue
                if path is None:
                    ctx.count('entry_without_path'); continue         # a location with no string form (UUID / frozenset / non-finite key): no claim to check
                try:
                    old = resolve(t1, path)
                except Exception as e:
                    ctx.violate(case, '%s %s: path does not resolve in t1 (%s)' % (cat, path, type(e).__name__)); continue
                if 'old_value' in d and not same(old, d['old_value']):
                    ctx.violate(case, '%s %s: t1 holds %r there, reported old value %r' % (cat, path, old, d['old_value']))
                p2 = d.get('new_path') if verbose >= 2 else t2paths.get((cat, path))
                p2 = p2 or path
                try:
                    new = resolve(t2, p2)
                except Exception as e:
                    ctx.violate(case, '%s %s: t2-side path %s does not resolve in t2 (%s)' % (cat, path, p2, type(e).__name__)); continue
                if 'new_value' in d and not same(new, d['new_value']):
                    ctx.violate(case, '%s %s: t2 holds %r at %s, reported new value %r' % (cat, path, new, p2, d['new_value']))
                if 'old_value' in d and 'new_value' in d:
                    o, nw = d['old_value'], d['new_value']
                    if cat == 'type_changes':
                        if type(o) is type(nw):
                            ctx.violate(case, 'type_changes %s: old and new value have the same type' % path)
                    else:
                        try:
                            differ = (o != nw) or type(o) is not type(nw)
                        except Exception:
                            differ = True
                        if not differ:
                            if fold_pattern(t1, t2, path):
                                ctx.count('out_of_domain:fold_of_equal_items')     # region of finding F15, represented by its witness
                            else:
                                ctx.violate(case, 'values_changed %s: old and new value are equal (%r)' % (path, o))
        elif cat in ('iterable_item_added', 'dictionary_item_added'):
            items = body.items() if isinstance(body, dict) else [(p, None) for p in body]
            for path, v in items:
                n += 1
                if path is None:
                    ctx.count('entry_without_path'); continue
                try:
                    got = resolve(t2, path)
                except Exception as e:
                    ctx.violate(case, '%s %s: does not resolve in t2 (%s)' % (cat, path, type(e).__name__)); continue
                if isinstance(body, dict) and not same(got, v):
                    ctx.violate(case, '%s %s: t2 holds %r, reported %r' % (cat, path, got, v))
                if cat == 'dictionary_item_added':
                    try:
                        resolve(t1, path)
                        ctx.violate(case, 'dictionary_item_added %s: the key exists in t1' % path)
                    except (KeyError, IndexError, TypeError):
                        pass
        elif cat in ('iterable_item_removed', 'dictionary_item_removed'):
            items = body.items() if isinstance(body, dict) else [(p, None) for p in body]
            for path, v in items:
                n += 1
                if path is None:
                    ctx.count('entry_without_path'); continue
                try:
                    got = resolve(t1, path)
                except Exception as e:
                    ctx.violate(case, '%s %s: does not resolve in t1 (%s)' % (cat, path, type(e).__name__)); continue
                if isinstance(body, dict) and not same(got, v):
                    ctx.violate(case, '%s %s: t1 holds %r, reported %r' % (cat, path, got, v))
                if cat == 'dictionary_item_removed':
                    try:
                        resolve(t2, path)
                        ctx.violate(case, 'dictionary_item_removed %s: the key exists in t2' % path)
                    except (KeyError, IndexError, TypeError):
                        pass
        elif cat == 'iterable_item_moved':
            for path, d in body.items():
                n += 1
                try:
                    a, b = resolve(t1, path), resolve(t2, d['new_path'])
                    if not (same(b, d['value']) and a == b):
                        ctx.violate(case, 'iterable_item_moved %s -> %s: items %r / %r, reported %r' % (path, d['new_path'], a, b, d['value']))
                except Exception as e:
                    ctx.violate(case, 'iterable_item_moved %s: does not resolve (%s)' % (path, type(e).__name__))
    return n


def run(ctx, impl_only=False):
    from deepdiff import DeepDiff
    findings = {f['id']: f for f in core.load_findings(ID) if f.get('status') == 'open'}
    n = 1800 if ctx.thorough() else 260
    pairs = FAM.gen_pairs(ctx, n, flat_share=0.55, equal_share=0.03)
    gl = Gen(ctx.rng, scalars=[0, 1, 2, 3, 4, 'a', 'b', 'c', '', None, 1.5], kinds=('list',), max_depth=1, max_width=12, p_leaf=0)
    for _ in range(n // 3):
        t1 = gl.container(1)
        pairs.append((t1, gl.edits(t1, ctx.rng.randint(2, 6))))
    # shifted lists: an insert/delete early on, then a replacement (possibly of another type) later: the difflib pass wins
    for _ in range(n // 3):
        L = ctx.rng.randint(6, 11)
        base = ctx.rng.sample([10, 20, 30, 40, 50, 60, 70, 80, 'a', 'b', 'c', 'd', 'e', 1.5, 2.5, None, 'line one\nline two', 'p\nq\nr', 'tail\n'], L)
        t2 = list(base)
        k = ctx.rng.randint(0, 2)
        if ctx.rng.random() < 0.5:
            del t2[k:k + ctx.rng.randint(1, 2)]
        else:
            t2[k:k] = [ctx.rng.choice(['new', 99, 0.5]) for _ in range(ctx.rng.randint(1, 2))]
        for _ in range(ctx.rng.randint(1, 2)):
            j = ctx.rng.randint(len(t2) // 2, len(t2) - 1)
            t2[j] = ctx.rng.choice(['fifty', 55, 5.5, None, 'x', 7, 'line one\nline 2', 'p\nq', 'multi\nline\ntext'])
        r_ = ctx.rng.random()
        if r_ < 0.3:
            pairs.append(({'rows': base, 'n': 1}, {'rows': t2, 'n': 1}))
        elif r_ < 0.45:
            pairs.append((tuple(base), tuple(t2)))                       # the same shift in a tuple, with no list above it
        elif r_ < 0.55:
            pairs.append(({'row': tuple(base)}, {'row': tuple(t2)}))
        elif r_ < 0.6:
            pairs.append(((tuple(base), 'z'), (tuple(t2), 'z')))
        else:
            pairs.append((base, t2))
    # inputs that share objects (one list at several positions of t1; t2 a shallow copy or a sub-object of t1)
    pairs += FAM.alias_pairs(ctx, max(12, n // 12))
    pairs += FAM.rich_pairs(ctx, n // 4)
    pairs += FAM.hostile_pairs(ctx, n // 4)
    import datetime as _dtm
    # aware times of day at one instant written with different offsets are equal (==): no change to report; next to real changes
    tz_ = lambda h: _dtm.timezone(_dtm.timedelta(hours=h))
    for (x_, y_) in [(_dtm.time(8, tzinfo=tz_(0)), _dtm.time(9, tzinfo=tz_(1))), (_dtm.time(23, 30, tzinfo=tz_(-2)), _dtm.time(3, 30, tzinfo=tz_(2))), (_dtm.time(12, 0, 0, 5, tzinfo=tz_(5)), _dtm.time(7, 0, 0, 5, tzinfo=tz_(0))),
                     (_dtm.time(8, tzinfo=tz_(0)), _dtm.time(8, 0, 1, tzinfo=tz_(0)))]:
        for w_ in (lambda v: {'k': v, 'z': 1}, lambda v: [v, [1]], lambda v: {'a': {'b': [[0], v]}}, lambda v: (v, {'q': 1})):
            pairs.append((w_(x_), w_(y_)))
            pairs.append((w_(x_), w_(_dtm.time(1, 1, tzinfo=tz_(0)))))
    # a key that comes back as an equal number of another type (1 / True / 1.0) is the same key: neither added nor removed
    for (k1_, k2_) in [(1, True), (3, 3.0), (0, False), (8.0, 8), (True, 1.0), (-4.0, -4)]:
        pairs += [({k1_: 'a', 'k': 0}, {k2_: 'a', 'k': 1}), ({k1_: [1, 2], 'x': 1}, {k2_: [1, 3], 'x': 1}), ({'m': {k1_: 1, 'o': 2}}, {'m': {k2_: 1, 'o': 3, 'p': 4}}), ([{k1_: 'v'}], [{k2_: 'w'}]),
                  ({k1_: 1, 'a': 1, 'b': 2, 'c': 3}, {k2_: 1, 'a': 1, 'b': 2, 'd': 3})]
    # keys the default configuration skips ('__...'), with and without the closing underscores: on both sides, one side, equal or changed values
    DK = ['__all__', '__version__', '__ref', '__', 'a', '_p']
    pairs += FAM.hostile_pairs(ctx, max(10, n // 12), keys=DK, alias=False)
    pairs += [({'__version__': 1, 'a': 1}, {'__version__': 1, 'a': 1}), ({'__all__': ['x'], 'a': 1}, {'__all__': ['x'], 'a': 2}), ({'k': {'__v__': 1}}, {'k': {'__v__': 2}}),
              ({'__ref': 1, '__all__': 2}, {'__ref': 1, '__all__': 2, 'b': 0}), ([{'__x__': 1}], [{'__x__': 1}, 2]), ({'__a__': 1}, {'__b__': 1})]
    # equal numbers written differently (Decimal exponents, int / float of one value inside one type) are not a change; keys that have no literal
    # form (UUID, frozenset, timedelta, non-finite float, a tuple holding a Decimal) give entries without a path, or with one that resolves
    import decimal as _dc, uuid as _uuid, datetime as _dtm
    D_ = _dc.Decimal
    for (x_, y_) in [(D_('12.50'), D_('12.5')), (D_('1E+1'), D_('10')), (D_('0'), D_('0.00')), (D_('-0'), D_('0')), (0.0, -0.0)]:
        for w_ in (lambda v: {'k': v, 'z': 1}, lambda v: [v, [1]], lambda v: {'a': {'b': [0, v]}}, lambda v: (v, {'q': 1})):
            pairs.append((w_(x_), w_(y_)))
            pairs.append((w_(x_), w_(D_('7') if isinstance(y_, D_) else 7.5)))
    for k_ in [_uuid.UUID(int=0xa11ce), frozenset({1, 2}), _dtm.timedelta(1), _dtm.time(1, 2), float('inf'), (1, D_('2.5'))]:
        pairs.append(({'sessions': {k_: {'hits': [1, 2, 3]}, str(k_): {'hits': [0, 0, 8]}}}, {'sessions': {k_: {'hits': [1, 2, 4]}, str(k_): {'hits': [0, 0, 8]}}}))
        pairs.append(({k_: 1, 'a': 2}, {k_: 2, 'b': 2}))
        pairs.append(([{k_: [1]}, 0], [{k_: [1, 2]}, 0]))
        # two lists under two such keys, one loses an item and the other gains one (F68): two locations, not one
        k2_ = _uuid.UUID(int=7) if not isinstance(k_, _uuid.UUID) else frozenset({'q'})
        pairs.append(({k_: [1, 2, 3], k2_: [4, 5]}, {k_: [1, 2], k2_: [4, 5, 6]}))
        pairs.append(({'m': {k_: ['a', 'b'], k2_: ['c']}}, {'m': {k_: ['a'], k2_: ['c', 'd']}}))
        pairs.append(([{k_: [1, 2, 3]}, {k_: [0]}], [{k_: [1, 2]}, {k_: [0, 1, 9]}]))
    # dictionary keys that a repr would escape (backslash, control and non-printing characters): the reported paths still lead to the values
    for k in ['C:\\temp\\new.txt', 'a\nb', 'tab\there', 'nb\xa0sp', 'back\\', "q'uote", 'a\\nb', '\x7f', 'é\u200b']:
        inner = ctx.rng.choice([lambda v: {'v': v}, lambda v: [0, v], lambda v: v])
        pairs.append(({k: inner(1), 'z': 0}, {k: inner(2), 'z': 0}))
        pairs.append(({'top': {k: [1, 2, 3]}}, {'top': {k: [1, 3], k + 'x': 1}}))
    # dictionaries that are reported as a whole (few keys in common) and carry double-underscore keys, which the comparison leaves out:
    # the reported old and new values are the dictionaries at the path, those keys included
    for _ in range(max(6, n // 20)):
        a_ = {'__typename': 'U', '__id': ctx.rng.randint(1, 9), 'name': 'a', 'mail': 'm', 'age': 3}
        b_ = {'__typename': 'U', '__id': a_['__id'], 'fullname': 'a', 'email': 'm', 'years': 3, 'mail': ctx.rng.choice(['m', 'n'])}
        w = ctx.rng.choice([lambda v: {'user': v}, lambda v: {'items': [v]}, lambda v: v, lambda v: [0, v]])
        pairs.append((w(a_), w(b_)))
    reqs = []
    for (t1, t2) in pairs:
        s1, s2 = copy.deepcopy(t1), copy.deepcopy(t2)
        for vb in (1, 2):
            thr = ctx.rng.choice([0, 0.33, 0.9])
            case = {'t1': repr(t1), 't2': repr(t2), 'verbose': vb, 'thr': thr}
            ctx.evaluations += 1
            try:
                dd = DeepDiff(t1, t2, verbose_level=vb, threshold_to_diff_deeper=thr)
                t2paths = {}
                if vb == 1:
                    tr = DeepDiff(t1, t2, view='tree', threshold_to_diff_deeper=thr)
                    for cat in ('values_changed', 'type_changes'):
                        for lv in tr.get(cat, []):
                            t2paths[(cat, lv.path())] = lv.path(use_t2=True)
                            if lv.path() is None:
                                # a location without a string form still has a place in both inputs: the keys and indexes of the tree node lead to the two values
                                ctx.count('pathless_entry_walked')
                                for (root_, use2, want) in ((t1, False, lv.t1), (t2, True, lv.t2)):
                                    try:
                                        o_ = root_
                                        for e_ in lv.path(use_t2=use2, output_format='list'):
                                            o_ = o_[e_]
                                    except Exception as e:
                                        ctx.violate(case, '%s at a location without a string path: its keys %r do not lead anywhere in %s (%s)'
                                                    % (cat, lv.path(use_t2=use2, output_format='list'), 't2' if use2 else 't1', type(e).__name__)); break
                                    if not same(o_, want):
                                        ctx.violate(case, '%s at a location without a string path: %s holds %r there, reported %r' % (cat, 't2' if use2 else 't1', o_, want)); break
            except Exception as e:
                ctx.violate(case, 'DeepDiff raised %s' % type(e).__name__); continue
            k = check_entries(ctx, case, t1, t2, dd, vb, t2paths)
            ctx.count('entries', k)
            if dd:
                ctx.nontriv((repr(t1), repr(t2), vb, thr))
            ops = getattr(dd, '_iterable_opcodes', {})
            flat = isinstance(t1, (list, tuple)) and all(not isinstance(x, (list, dict, tuple, set, frozenset)) for x in t1)
            if ops:
                ctx.count('difflib_pass_won')
            elif flat and dd:
                ctx.count('pairwise_pass_or_single_change')
            if FAM.in_universe(t1, t2) and not impl_only:
                reqs.append((case, t1, t2, False, thr, True, vb))
        if not (strict_eq(t1, s1) and strict_eq(t2, s2)):
            ctx.violate({'t1': repr(s1), 't2': repr(s2)}, 'DeepDiff modified an input')
        if len(ctx.samples) < 5:
            ctx.sample({'t1': repr(t1)[:120], 't2': repr(t2)[:120]})
    if not impl_only:
        FAM.compare_with_model(ctx, reqs)
    # ---- boundary witness F15
    def f15():
        d = DeepDiff([0, 'a', 'a', 2, '', 0, 2], [0, 'a', 'a', 'a', '', 2, 0, 2], verbose_level=2)
        return all(e['old_value'] != e['new_value'] for e in d.get('values_changed', {}).values())
    def f42():
        import datetime as _dt
        b = _dt.datetime(2021, 5, 6)
        d = DeepDiff([_dt.datetime(2020, 1, 1, 2, 3)], [b])
        return d['values_changed']['root[0]']['new_value'] == b
    def f68():
        import uuid as _u
        u1, u2 = _u.UUID(int=1), _u.UUID(int=2)
        tr = DeepDiff({u1: [1, 2, 3], u2: [4, 5]}, {u1: [1, 2], u2: [4, 5, 6]}, view='tree')
        return not tr.get('values_changed')
    for fid, fn in {'F15': f15, 'F42': f42, 'F68': f68}.items():
        ctx.evaluations += 1
        ok = fn()
        if fid in findings:
            (ctx.known_not_reproduced if ok else ctx.known_reproduced).append(fid if ok else '%s: %s' % (fid, findings[fid]['what_fails']))
        elif not ok:
            ctx.violate({'witness': fid}, 'boundary witness %s fails and is not a listed finding' % fid)


def search(ctx):
    c2 = core.Ctx(ctx.pid, 'thorough', ctx.seed + 1)
    c2.build_ok = False
    run(c2, impl_only=True)
    return c2.violations


def replay(ctx, payload):
    from deepdiff import DeepDiff
    ok = True
    for c in payload.get('cases', []):
        case = c['case']
        if 't1' not in case:
            print('  ', case); ok = False; continue
        t1, t2 = eval(case['t1']), eval(case['t2'])
        c2 = core.Ctx('C04', 'quick', 0)
        vb, thr = case.get('verbose', 2), case.get('thr', 0.33)
        dd = DeepDiff(t1, t2, verbose_level=vb, threshold_to_diff_deeper=thr)
        t2paths = {}
        if vb == 1:
            for cat in ('values_changed', 'type_changes'):
                for lv in DeepDiff(t1, t2, view='tree', threshold_to_diff_deeper=thr).get(cat, []):
                    t2paths[(cat, lv.path())] = lv.path(use_t2=True)
        check_entries(c2, case, t1, t2, dd, vb, t2paths)
        print('  ', case, '->', 'holds' if not c2.violations else 'FAILS: ' + c2.violations[0]['why'])
        ok = ok and not c2.violations
    return ok
