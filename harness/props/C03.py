"""C03 — positional-mode result equals the recursive definition of structural difference."""
import itertools, difflib
from .. import core, diffing as DF
from ..wire import OutOfUniverse
from . import _difffam as FAM

ID = 'C03'
LEAN_TARGETS = ['Properties.C03']
THEOREMS = ['Diff.C03_model_eq_spec', 'Diff.C03_deepDiff_eq_spec', 'Diff.C03_same_entries', 'Diff.C03_threshold_off', 'Diff.C03_positional_indep', 'Diff.C03_kvs_indep', 'Diff.C03_pairs_indep']
RULE = ('pairs of nested values over dict (str/int/float/None/bool keys), list, tuple, set, frozenset, str (incl. multi-line), bytes, int, float, bool, None: '
        'generated values with 1-3 random edits, flat lists with insert/delete/replace/move/duplicate, deep copies; the complete verbose text view with '
        'zip_ordered_iterables=True, threshold_to_diff_deeper=0 is compared (a) with an independent ~70-line Python specification and (b) with the Lean model. '
        'distinct = distinct (t1, t2); non-trivial = the specification reports at least one entry')
TRUSTED_BASE = ['difflib.unified_diff (the text of a multi-line diff is recomputed by the harness from the reported old/new values and compared verbatim)',
                'DeepHash digests decide set membership in _diff_set: inside NoSpoof/NoNumAlias this coincides with == (C07)']
ASSUMPTIONS = ['NoSpoof and NoNumAlias over (t1, t2)', 'dict keys: str/int/float/None/bool; set members: scalars', 'tree-shaped inputs']

MISSING = object()


def child(path, k):
    if isinstance(k, str):
        q = '"' if "'" in k else "'"
        return '%s[%s%s%s]' % (path, q, k, q)
    return '%s[%r]' % (path, k)


def show_item(x):
    return "'%s'" % x if isinstance(x, str) else str(x)


def struct_diff(t1, t2):
    """the obvious recursive definition of structural difference (text view, verbose_level=2)"""
    out = {}

    def put(cat, path, v):
        out.setdefault(cat, {})[path] = v

    def private(k):
        return isinstance(k, str) and k.startswith('__')

    def rec(a, b, path):
        if type(a) is not type(b):
            put('type_changes', path, {'old_type': type(a), 'new_type': type(b), 'old_value': a, 'new_value': b})
        elif isinstance(a, dict):
            ka = [k for k in a if not private(k)]
            kb = [k for k in b if not private(k)]
            for k in kb:
                if k not in ka:
                    put('dictionary_item_added', child(path, k), b[k])
            for k in ka:
                if k not in kb:
                    put('dictionary_item_removed', child(path, k), a[k])
            for k in kb:
                if k in ka:
                    rec(a[k], b[k], child(path, k))
        elif isinstance(a, (list, tuple)):
            for i, (x, y) in enumerate(itertools.zip_longest(a, b, fillvalue=MISSING)):
                if y is MISSING:
                    put('iterable_item_removed', '%s[%d]' % (path, i), x)
                elif x is MISSING:
                    put('iterable_item_added', '%s[%d]' % (path, i), y)
                else:
                    rec(x, y, '%s[%d]' % (path, i))
        elif isinstance(a, (set, frozenset)):
            # membership is type-aware for booleans (True is not the int 1: the same distinction the definition makes for list items)
            def member(x, s):
                return any(y == x and isinstance(y, bool) == isinstance(x, bool) for y in s)
            for x in b:
                if not member(x, a):
                    out.setdefault('set_item_added', set()).add('%s[%s]' % (path, show_item(x)))
            for x in a:
                if not member(x, b):
                    out.setdefault('set_item_removed', set()).add('%s[%s]' % (path, show_item(x)))
        elif isinstance(a, (str, bytes)):
            if a != b:
                e = {'new_value': b, 'old_value': a}
                try:                      # the text diff is a convenience for texts: byte strings take part when they are UTF-8 text (as they stand, a BOM included)
                    sa = a.decode('utf-8') if isinstance(a, bytes) else a
                    sb = b.decode('utf-8') if isinstance(b, bytes) else b
                except UnicodeDecodeError:
                    sa = sb = ''
                if '\n' in sa or '\n' in sb:
                    d = list(difflib.unified_diff(sa.splitlines(), sb.splitlines(), lineterm=''))
                    if d:
                        e['diff'] = '\n'.join(d)
                put('values_changed', path, e)
        else:
            if a is not b and a != b:     # an object is not different from itself (a NaN held by both inputs); two NaN objects are
                put('values_changed', path, {'new_value': b, 'old_value': a})
    rec(t1, t2, 'root')
    return out


def run(ctx, impl_only=False):
    n = 2500 if ctx.thorough() else 350
    pairs = FAM.gen_pairs(ctx, n) + FAM.alias_pairs(ctx, max(12, n // 12))       # incl. inputs that share objects with each other
    # items at the same position that are == but of different types: a type change by the definition
    pairs += [([1, 'x'], [True, 'x']), ([1.0, 2], [1, 2]), ([{1, 2}, 'x'], [frozenset({1, 2}), 'x']), ((1, [True, 2.0]), (1, [1, 2])), ({'k': [{'a': 1}]}, {'k': [{'a': True}]}),
              ([0, 0.0, False], [False, 0, 0.0]), (((1, 2), [3]), ((1.0, 2), [3])), ([[1], [1]], [[1.0], [True]]), ({'a': (0, 'z')}, {'a': (False, 'z')})]
    # integers beyond the 53 bits of a float that differ by one, and numbers next to them
    for (x, y) in [(2 ** 53, 2 ** 53 + 1), (10 ** 18, 10 ** 18 + 1), (-2 ** 60, -2 ** 60 - 1), (9007199254740993, 9007199254740992), (1234567890123456789, 1234567890123456788), (2 ** 70, 2 ** 70 + 2)]:
        for w in (lambda v: v, lambda v: {'id': v, 'k': 1}, lambda v: [0, v], lambda v: ('z', {'n': [v]})):
            pairs.append((w(x), w(y)))
    # one set object at several places of t1 (and of t2), edited differently at each place
    s1 = {1, 2}; s2 = frozenset({'a', 'b'}); s3 = {1, 2, 3}
    pairs += [([s1, s1], [{1}, {2}]), ({'p': s1, 'q': s1}, {'p': {1, 2, 3}, 'q': {1, 2, 4}}), ([s2, [s2]], [frozenset({'a'}), [frozenset({'b', 'c'})]]), ((s3, {'k': s3}, s3), ({1}, {'k': {2}}, {3})),
              ([s1, s1, s1], [{1, 2, 5}, {1, 2}, {7}])]
    # byte strings that differ only in what a lenient decoder drops or replaces: a leading byte order mark, undecodable bytes, a NUL, line ends
    BOM = b'\xef\xbb\xbf'
    for (x, y) in [(BOM + b'abc', b'abc'), (b'abc', BOM + b'abc'), (BOM + b'l1\nl2', b'l1\nl2'), (BOM + b'l1\nl2', BOM + b'l1\nl3'), (BOM, b''), (b'a\xffb', b'a\xfeb'), (b'a\xff', b'a'),
                   ('x\n\n', 'y\n\n'), ('one\ntwo   ', 'one\ntwo   \nthree'), ('a\nq\t', 'b\nq\t'), ('k\n\nm\n\n\n', 'k\n\nn\n\n\n'), ('p\n ', 'q\n '), ('l1\nl2\n\nl4', 'l1\nX\n\nl4'),
                   (b'abc\x00', b'abc'), (b'a\r\nb', b'a\nb'), (b'l1\nl2\n', b'l1\nl2'), ('l1\r\nl2', 'l1\nl2'), ('a\x0cb\nc', 'a\nb\nc'), ('x\u2028y\nz', 'x\ny\nz'), ('a\nb\n', 'a\nb')]:
        for w in (lambda v: v, lambda v: {'k': v}, lambda v: [v, 1], lambda v: ('z', [v])):
            pairs.append((w(x), w(y)))
    eqv = [0, 1, 2, True, False, 1.0, 0.0, 2.0]
    for _ in range(max(10, n // 8)):
        xs = [ctx.rng.choice(eqv + ['a', None]) for _ in range(ctx.rng.randint(1, 5))]
        ys = [ctx.rng.choice([e for e in eqv if e == x]) if x in eqv and ctx.rng.random() < 0.6 else x for x in xs]
        w = ctx.rng.choice([lambda v: v, lambda v: tuple(v), lambda v: {'k': v}, lambda v: [v, 'z']])
        pairs.append((w(xs), w(ys)))
    reqs = []
    for (t1, t2) in pairs:
        case = {'t1': repr(t1), 't2': repr(t2)}
        ctx.evaluations += 1
        try:
            spec = DF.canon_text(struct_diff(t1, t2), 2)
        except OutOfUniverse:
            ctx.count('out_of_universe'); continue
        if spec:
            ctx.nontriv((repr(t1), repr(t2)))
        for e in spec:
            ctx.count('cat:' + e.split('|')[0])
        try:
            dd = DF.impl_text(t1, t2, True, 0, True, 2)
            got = DF.canon_text(dd, 2)
        except DF.BadDiffText as e:
            ctx.violate(case, str(e)); continue
        except OutOfUniverse as e:
            # the definition's result is made of values of the universe: a reported value outside it is not one of them
            ctx.violate(case, 'the result holds a value that is neither input nor a part of one: %s' % str(e)[:100]); continue
        except Exception as e:
            ctx.violate(case, 'DeepDiff raised %s: %s' % (type(e).__name__, str(e)[:100])); continue
        if got != spec:
            missing = [x for x in spec if x not in got]
            extra = [x for x in got if x not in spec]
            ctx.violate(case, 'positional result differs from the recursive definition: missing %d, extra %d entries' % (len(missing), len(extra)))
        reqs.append((case, t1, t2, True, 0, True, 2))
        if len(ctx.samples) < 5 and spec:
            ctx.sample({'t1': repr(t1)[:150], 't2': repr(t2)[:150], 'entries': len(spec)})
    nan_family(ctx)
    if not impl_only:
        FAM.compare_with_model(ctx, reqs)


def canon_repr(x):
    """order-free printable form of a text result whose values may be outside the wire universe (NaN)"""
    if isinstance(x, dict):
        return ('d', tuple(sorted((repr(k), canon_repr(v)) for k, v in x.items())))
    if isinstance(x, (set, frozenset)) or type(x).__name__ == 'SetOrdered':
        return ('s', tuple(sorted(repr(e) for e in x)))
    if isinstance(x, (list, tuple)):
        return (type(x).__name__, tuple(canon_repr(e) for e in x))
    return (type(x).__name__, repr(x))


def nan_family(ctx):
    """inputs that hold NaN: one NaN object at both sides is no difference (an object is not different from itself, as in Python's own
    comparison of containers), two NaN objects are one; outside the model's float universe, so compared with the definition only"""
    from deepdiff import DeepDiff
    from ..gen import Gen
    import copy
    NAN = float('nan')
    n = 600 if ctx.thorough() else 90
    g = Gen(ctx.rng, scalars=[NAN, NAN, 0, 1, 2.5, 'a', None, True, float('inf')], keys=['a', 'b', 'c', 'k'], kinds=('list', 'tuple', 'dict'), max_depth=3, max_width=4)
    pairs = [([NAN], [NAN]), ([NAN, 1], [NAN, 2]), ({'a': NAN, 'b': 1}, {'a': NAN, 'b': 1}), ({'a': NAN}, {'a': float('nan')}), ((NAN, [NAN, 'x']), (NAN, [NAN, 'y'])), (NAN, NAN),
             ([NAN], [float('nan')]), ([NAN, NAN], [NAN]), ({'k': [1, NAN]}, {'k': [1, NAN], 'z': NAN})]
    for _ in range(n):
        t1 = g.container()
        r = ctx.rng.random()
        t2 = copy.deepcopy(t1) if r < 0.2 else g.edits(t1, ctx.rng.randint(1, 3))
        pairs.append((t1, t2))
    for (t1, t2) in pairs:
        case = {'t1': repr(t1), 't2': repr(t2), 'kind': 'nan-sharing', 'note': 'every nan of the generated pairs is one object'}
        ctx.evaluations += 1
        spec = struct_diff(t1, t2)
        if spec:
            ctx.nontriv((repr(t1), repr(t2), 'nan'))
        ctx.count('nan_family:' + ('empty' if not spec else 'nonempty'))
        try:
            dd = DeepDiff(t1, t2, zip_ordered_iterables=True, threshold_to_diff_deeper=0, verbose_level=2)
        except Exception as e:
            ctx.violate(case, 'DeepDiff raised %s: %s' % (type(e).__name__, str(e)[:100])); continue
        if canon_repr(dict(dd)) != canon_repr(spec):
            ctx.violate(case, 'positional result differs from the recursive definition (inputs holding NaN): %s vs %s' % (str(dict(dd))[:150], str(spec)[:150]))


def search(ctx):
    c2 = core.Ctx(ctx.pid, 'thorough', ctx.seed + 1)
    c2.build_ok = False
    run(c2, impl_only=True)
    return c2.violations


def replay(ctx, payload):
    ok = True
    for c in payload.get('cases', []):
        t1, t2 = eval(c['case']['t1']), eval(c['case']['t2'])
        good = DF.canon_text(DF.impl_text(t1, t2, True, 0, True, 2), 2) == DF.canon_text(struct_diff(t1, t2), 2)
        print('  ', c['case'], '->', 'holds' if good else 'FAILS')
        ok = ok and good
    return ok
