"""Common machinery of the ordered-diff properties (C02, C03, C04, C10, C13): case generation inside the
model universe and the model-vs-implementation comparison of the full text view."""
import copy
from .. import core, diffing as DF, hashing as HS
from ..gen import Gen, strict_eq
from ..wire import OutOfUniverse

KEYS_C03 = ['a', 'b', 'c', 'dd', 'x y', "it's", 'say "x"', 1, 2, 10, 1.5, None, True]


def in_universe(t1, t2):
    return (DF.keys_modelled(t1) and DF.keys_modelled(t2) and DF.set_items_modelled(t1) and DF.set_items_modelled(t2)
            and HS.no_num_alias(t1, t2) and HS.no_spoof(t1, t2))


def gen_pairs(ctx, n, keys=None, multiline=True, bytes_=True, flat_share=0.25, equal_share=0.08):
    g = Gen(ctx.rng, keys=keys or KEYS_C03, max_depth=3, max_width=4, multiline=multiline, bytes_=bytes_)
    gf = Gen(ctx.rng, scalars=[0, 1, 2, 3, 'a', 'b', '', None, True, 1.5, 'c'], kinds=('list', 'tuple'), max_depth=1, max_width=8, p_leaf=0)
    out = []
    tries = 0
    while len(out) < n and tries < n * 6:
        tries += 1
        r = ctx.rng.random()
        if r < flat_share:
            t1 = gf.container(1)
            t2 = gf.edits(t1, ctx.rng.randint(1, 4))
            if ctx.rng.random() < 0.3:
                t1 = {'k': t1, 'z': [copy.deepcopy(t1), 0]}; t2 = {'k': t2, 'z': [copy.deepcopy(t2), 0]}     # tree-shaped: no object at two positions
        else:
            t1 = g.container()
            t2 = copy.deepcopy(t1) if ctx.rng.random() < equal_share else g.edits(t1, ctx.rng.randint(1, 3))
        if in_universe(t1, t2):
            out.append((t1, t2))
    return out


def subcontainers(v):
    """the container sub-objects of v (the objects themselves, not copies)"""
    kids = list(v.values()) if isinstance(v, dict) else (list(v) if isinstance(v, (list, tuple)) else [])
    for x in kids:
        if isinstance(x, (dict, list, tuple, set, frozenset)):
            yield x
            yield from subcontainers(x)


def alias_pairs(ctx, n):
    """pairs that share objects: t2 is a sub-object of t1 (or the reverse); t2 is a shallow copy of t1 with one top-level
    edit (the untouched children are the same objects); one list object sits at several positions of t1.
    DeepDiff must treat them exactly like their deep copies."""
    g = Gen(ctx.rng, keys=['a', 'b', 'c', 1, None], max_depth=3, max_width=4, kinds=('dict', 'list', 'tuple'))
    out = []
    for i in range(n * 3):
        if len(out) >= n:
            break
        x = g.container()
        kind = ('child', 'shallow', 'inner', 'wrap')[i % 4]
        if kind == 'child':
            subs = list(subcontainers(x))
            if not subs:
                continue
            c = ctx.rng.choice(subs)
            pair = (x, c) if ctx.rng.random() < 0.5 else (c, x)
        elif kind == 'wrap':
            # t1 is a container of t2's type that holds the t2 object itself at a position t2 also has
            if isinstance(x, list) and x:
                w = [x] + [g.scalar() for _ in range(ctx.rng.randint(0, 2))]
            elif isinstance(x, tuple) and x:
                w = (x,)
            elif isinstance(x, dict) and x:
                w = {ctx.rng.choice(list(x.keys())): x}
            else:
                continue
            pair = (w, x) if ctx.rng.random() < 0.7 else (x, w)
        elif kind == 'shallow':
            y = copy.copy(x)
            if isinstance(y, dict):
                y[ctx.rng.choice(['a', 'zz', 1])] = g.scalar()
            elif isinstance(y, list):
                y.insert(ctx.rng.randint(0, len(y)), g.scalar())
            else:
                y = y + (g.scalar(),)
            pair = (x, y)
        else:
            L = [g.scalar() for _ in range(ctx.rng.randint(2, 4))]
            x = {'a': L, 'b': L, 'c': [L, 0]}
            y = copy.deepcopy(x)
            y['a'] = y['a'][:-1]; y['b'] = y['b'][:-1] + [g.scalar(), L[-1]]
            if ctx.rng.random() < 0.5:
                y['c'] = [y['c'][0] + [9], 0]
            pair = (x, y)
        if in_universe(*pair):
            out.append(pair)
    # the smallest wrappers: the shared position holds the only difference
    for sc in ([7], [True], ['a'], (7,), (None,), {'a': 1}, {1: 'x'}, [[1, 2]], ({'k': 0},)):
        c = copy.deepcopy(sc)
        w = [c] if isinstance(c, list) else ((c,) if isinstance(c, tuple) else {next(iter(c)): c})
        out.append((w, c)); out.append((c, w))
    return out


def single_edit_neighbours(ctx, v, k):
    g = Gen(ctx.rng, keys=KEYS_C03, max_depth=2, max_width=3)
    return [g.edit(v) for _ in range(k)]


def compare_with_model(ctx, reqs, op='DIFF'):
    """reqs: list of (case, t1, t2, zip, thr, ignore_private, verbose).  Runs implementation and model;
    records divergences.  Returns list of (case, dd or None, impl_answer or None)."""
    lines, metas, out = [], [], []
    for (case, t1, t2, z, thr, ip, vb) in reqs:
        try:
            DF.diff_line(t1, t2, z, thr, ip, vb)
            inside = True
        except OutOfUniverse:
            inside = False
        try:
            dd = DF.impl_text(t1, t2, z, thr, ip, vb)
            a = DF.impl_answer(dd, vb)
        except OutOfUniverse as e:
            if inside and ctx.build_ok:
                # both inputs are values of the model universe, the reported value is not: nothing the model can answer equals it
                ctx.diverge(case, 'a reported value outside the universe of the inputs: %s' % str(e)[:120], '(every value of a model result is a part of an input)', op=op)
            else:
                ctx.count('out_of_universe')
            out.append((case, None, None)); continue
        except DF.BadDiffText as e:
            ctx.violate(case, str(e)); out.append((case, None, None)); continue
        except Exception as e:
            dd, a = None, 'RAISED ' + type(e).__name__
        out.append((case, dd, a))
        if ctx.build_ok:
            try:
                lines.append(DF.diff_line(t1, t2, z, thr, ip, vb)); metas.append((case, a))
            except OutOfUniverse:
                ctx.count('out_of_universe')
    if ctx.build_ok and lines:
        ans = core.run_model(lines)
        for (case, a), m in zip(metas, ans):
            ctx.traces += 1
            if a != m:
                sa, sm = set(a.split(' ')), set(m.split(' '))
                ctx.diverge(case, 'only-impl: ' + ' '.join(sorted(sa - sm))[:500], 'only-model: ' + ' '.join(sorted(sm - sa))[:500], op=op)
    return out


def rich_leaves():
    """leaves of the other scalar types the library documents (no naive datetimes: finding F42; no bool next to 0/1: NoNumAlias)"""
    import datetime, decimal, uuid
    utc = datetime.timezone.utc
    tz5 = datetime.timezone(datetime.timedelta(hours=5))
    # no two members are == across types (2 / Decimal('2'), 2.5 / 2.5+0j): NoNumAlias
    return [decimal.Decimal('1.5'), decimal.Decimal('7.25'), decimal.Decimal('-0.25'), b'ab', b'cd', b'', datetime.datetime(2020, 1, 1, 2, 3, tzinfo=utc),
            datetime.datetime(2021, 5, 6, 7, 8, 9, 10, tzinfo=tz5), datetime.date(2020, 1, 1), datetime.date(2021, 12, 31), datetime.time(1, 2, 3), datetime.time(23, 59),
            datetime.timedelta(1), datetime.timedelta(seconds=5), uuid.UUID(int=1), uuid.UUID(int=2), 1 - 2j, 3.5 + 1j, frozenset({2, 3}), frozenset(), frozenset({'a'}),
            2, 3, 'a', 'b', None, 2.5, float('inf'), 'é', '', 'multi\nline', 'multi\nline2', 10 ** 20]


def rich_pairs(ctx, n, sets=True, keys=None):
    """pairs of nested values whose leaves are drawn from rich_leaves(); keys stay plain (str / int / float / None)"""
    import copy as _copy
    rng = ctx.rng
    pool = rich_leaves()
    keys = keys or ['a', 'b', 'c', 2, None, 2.5, 'x y']

    def gen(d=0):
        r = rng.random()
        if d >= 2 or r < 0.35:
            return _copy.deepcopy(rng.choice(pool))
        if r < 0.6:
            return [gen(d + 1) for _ in range(rng.randint(0, 4))]
        if r < 0.85 or not sets:
            return {rng.choice(keys): gen(d + 1) for _ in range(rng.randint(0, 4))}
        return {_copy.deepcopy(rng.choice(pool)) for _ in range(rng.randint(0, 4))}

    def edit(v):
        if isinstance(v, list):
            v = list(v); r = rng.random()
            if v and r < 0.3:
                del v[rng.randrange(len(v))]
            elif r < 0.6:
                v.insert(rng.randint(0, len(v)), gen(2))
            elif v:
                i = rng.randrange(len(v)); v[i] = edit(v[i])
            return v
        if isinstance(v, dict):
            v = dict(v); r = rng.random()
            if v and r < 0.3:
                del v[rng.choice(list(v))]
            elif r < 0.6:
                v[rng.choice(keys)] = gen(2)
            elif v:
                k = rng.choice(list(v)); v[k] = edit(v[k])
            return v
        if isinstance(v, set):
            v = set(v)
            if v and rng.random() < 0.5:
                v.pop()
            else:
                v.add(_copy.deepcopy(rng.choice(pool)))
            return v
        return gen(2)

    out = []
    for _ in range(n):
        t1 = gen()
        if not isinstance(t1, (list, dict, set)):
            t1 = [t1]
        t2 = edit(_copy.deepcopy(t1))
        if rng.random() < 0.4:
            t2 = edit(t2)
        out.append((t1, t2))
    return out


HOSTILE_KEYS = ['a', 'b', '', 'root', 'x y', 'user__id', 'a__', '_x__y', "it's", 'say "x"', 'C:\\tmp\\n', 'a\nb', 'tab\there', 'a.b', 'a[0]', "a']['b", 'é', '_p', 'old_value', 'new_path', '0', '1.5',
                b'x', b'ab c', b"it's", b'', 0, 2, -3, 10 ** 20, 2.5, 0.0, None, (1, 2), (0, (1.5, None)), ()]      # tuple keys without strings (F57)


def hostile_leaves():
    """leaves at the edges of the types the library documents: huge and tiny numbers, text that differs in line ends / marks / case,
    byte strings with a BOM or undecodable bytes, dates and times with offsets, UUIDs, Decimals in several spellings, empty containers"""
    import datetime, decimal, uuid, math
    D = decimal.Decimal
    tz = lambda h, m=0: datetime.timezone(datetime.timedelta(hours=h, minutes=m))
    return [2 ** 70, 2 ** 70 + 1, -2 ** 63 - 1, 10 ** 30, 5e-324, 1e-320, 1e308, math.nextafter(0.1, 1), 0.1, 2.5, float('inf'), float('-inf'),
            D('2.5'), D('2.50'), D('1E+3'), D('1000'), D('Infinity'), D('-0'), D('0.1'),
            'a', 'A', 'a\n', 'a\r\nb', 'a\nb', 'a\nb\n', ' a', '\ufeffa', 'Straße', 'STRASSE', '', 'é', 'e\u0301',
            b'a', b'\xef\xbb\xbfa', b'a\x00', b'', b'l1\nl2', b'l1\nl2\n',       # no undecodable bytes / unpaired surrogates: DeepHash refuses them by design (encodings=...)
            datetime.datetime(2020, 1, 1, 12, 0, tzinfo=tz(0)), datetime.datetime(2020, 1, 1, 17, 30, tzinfo=tz(5, 30)), datetime.datetime(2020, 1, 1, 12, 0, tzinfo=tz(-8)),
            datetime.datetime(2020, 1, 1, 12, 0, 0, 7, tzinfo=tz(0)), datetime.date(2020, 1, 1), datetime.date(1, 1, 1), datetime.time(1, 2, 3), datetime.time(1, 2, 3, 4),
            datetime.timedelta(0), datetime.timedelta(days=365000, microseconds=1), datetime.timedelta(days=365000), datetime.timedelta(microseconds=-1),
            uuid.UUID(int=1), uuid.UUID(int=2), 1 + 2j, 1 - 2j, 2j, None, [], {}, (), frozenset(), frozenset({1, 'a'}), frozenset({(1, 2)})]


def hostile_pairs(ctx, n, sets=True, alias=True, keys=None, leaves=None):
    """pairs of nested values over hostile keys and edge-case leaves, in lists, tuples, dictionaries and sets; the second value is an edit of a
    deep copy of the first, and now and then keeps some of the first one's own sub-objects (shared by identity), or the first holds one
    sub-object at two places.  Implementation only (outside the model universe)."""
    import copy as _copy
    rng = ctx.rng
    pool = leaves or hostile_leaves()
    keys = keys or HOSTILE_KEYS

    def hashable(v):
        try:
            hash(v); return True
        except TypeError:
            return False

    def gen(d=0):
        r = rng.random()
        if d >= 3 or r < 0.3:
            return _copy.deepcopy(rng.choice(pool))
        if r < 0.5:
            return [gen(d + 1) for _ in range(rng.randint(0, 4))]
        if r < 0.6:
            return tuple(gen(d + 1) for _ in range(rng.randint(0, 3)))
        if r < 0.9 or not sets:
            return {rng.choice(keys): gen(d + 1) for _ in range(rng.randint(0, 4))}
        return {x for x in (_copy.deepcopy(rng.choice(pool)) for _ in range(rng.randint(0, 4))) if hashable(x)}

    def edit(v, d=0):
        if isinstance(v, list):
            v = list(v); r = rng.random()
            if v and r < 0.25:
                del v[rng.randrange(len(v))]
            elif r < 0.5:
                v.insert(rng.randint(0, len(v)), gen(2))
            elif v and r < 0.6:
                i, j = rng.randrange(len(v)), rng.randrange(len(v)); v[i], v[j] = v[j], v[i]
            elif v:
                i = rng.randrange(len(v)); v[i] = edit(v[i], d + 1)
            return v
        if isinstance(v, tuple):
            return tuple(edit(list(v), d))
        if isinstance(v, dict):
            v = dict(v); r = rng.random()
            if v and r < 0.25:
                del v[rng.choice(list(v))]
            elif r < 0.5:
                v[rng.choice(keys)] = gen(2)
            elif v:
                k = rng.choice(list(v)); v[k] = edit(v[k], d + 1)
            return v
        if isinstance(v, set):
            v = set(v)
            if v and rng.random() < 0.5:
                v.pop()
            else:
                x = _copy.deepcopy(rng.choice(pool))
                if hashable(x):
                    v.add(x)
            return v
        return gen(2)

    out = []
    for _ in range(n):
        t1 = gen()
        if not isinstance(t1, (list, dict, tuple)):
            t1 = [t1, gen(1)]
        r = rng.random()
        if alias and r < 0.15 and isinstance(t1, list) and t1:
            t1 = t1 + [t1[0]]                                  # one object at two places of t1
        base = _copy.deepcopy(t1) if (not alias or rng.random() < 0.8) else (list(t1) if isinstance(t1, list) else dict(t1) if isinstance(t1, dict) else tuple(t1))
        t2 = edit(base)
        if rng.random() < 0.4:
            t2 = edit(t2)
        out.append((t1, t2))
    return out
