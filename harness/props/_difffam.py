"""Common machinery of the ordered-diff properties (C02, C03, C04, C10, C13): case generation inside the
model universe and the model-vs-implementation comparison of the full text view."""
import copy
from .. import core, diffing as DF, hashing as HS
from ..gen import Gen, strict_eq
from ..wire import OutOfUniverse

KEYS_C03 = ['a', 'b', 'c', 'dd', 'x y', "it's", 1, 2, 10, 1.5, None, True]


def in_universe(t1, t2):
    return (DF.keys_modelled(t1) and DF.keys_modelled(t2) and DF.set_items_modelled(t1) and DF.set_items_modelled(t2)
            and HS.no_num_alias(t1, t2) and HS.no_spoof(t1, t2))


def gen_pairs(ctx, n, keys=None, multiline=True, bytes_=True, flat_share=0.25, equal_share=0.08):
    g = Gen(ctx.rng, keys=keys or KEYS_C03, max_depth=3, max_width=4, multiline=multiline, bytes_=bytes_)
    gf = Gen(ctx.rng, scalars=[0, 1, 2, 3, 'a', 'b', '', None, True, 1.5, 'c'], kinds=('list', 'tuple'), max_depth=1, max_width=8, p_leaf=0)
    out = []
    tries = 0
    while len(out) < n and tries < n * 6:
        tries += 1
        r = ctx.rng.random()
        if r < flat_share:
            t1 = gf.container(1)
            t2 = gf.edits(t1, ctx.rng.randint(1, 4))
            if ctx.rng.random() < 0.3:
                t1 = {'k': t1, 'z': [copy.deepcopy(t1), 0]}; t2 = {'k': t2, 'z': [copy.deepcopy(t2), 0]}     # tree-shaped: no object at two positions
        else:
            t1 = g.container()
            t2 = copy.deepcopy(t1) if ctx.rng.random() < equal_share else g.edits(t1, ctx.rng.randint(1, 3))
        if in_universe(t1, t2):
            out.append((t1, t2))
    return out


def single_edit_neighbours(ctx, v, k):
    g = Gen(ctx.rng, keys=KEYS_C03, max_depth=2, max_width=3)
    return [g.edit(v) for _ in range(k)]


def compare_with_model(ctx, reqs, op='DIFF'):
    """reqs: list of (case, t1, t2, zip, thr, ignore_private, verbose).  Runs implementation and model;
    records divergences.  Returns list of (case, dd or None, impl_answer or None)."""
    lines, metas, out = [], [], []
    for (case, t1, t2, z, thr, ip, vb) in reqs:
        try:
            dd = DF.impl_text(t1, t2, z, thr, ip, vb)
            a = DF.impl_answer(dd, vb)
        except OutOfUniverse:
            ctx.count('out_of_universe'); out.append((case, None, None)); continue
        except DF.BadDiffText as e:
            ctx.violate(case, str(e)); out.append((case, None, None)); continue
        except Exception as e:
            dd, a = None, 'RAISED ' + type(e).__name__
        out.append((case, dd, a))
        if ctx.build_ok:
            try:
                lines.append(DF.diff_line(t1, t2, z, thr, ip, vb)); metas.append((case, a))
            except OutOfUniverse:
                ctx.count('out_of_universe')
    if ctx.build_ok and lines:
        ans = core.run_model(lines)
        for (case, a), m in zip(metas, ans):
            ctx.traces += 1
            if a != m:
                sa, sm = set(a.split(' ')), set(m.split(' '))
                ctx.diverge(case, 'only-impl: ' + ' '.join(sorted(sa - sm))[:500], 'only-model: ' + ' '.join(sorted(sm - sa))[:500], op=op)
    return out
