"""C08 — bidirectional deltas invert exactly and detect a mismatched base."""
import copy
from .. import core, deltas as DL
from ..gen import Gen, strict_eq
from ..wire import OutOfUniverse
from . import _difffam as FAM
from . import C01

ID = 'C08'
LEAN_TARGETS = ['Properties.C08']
THEOREMS = ['Delta.C08_refuses', 'Delta.C08_sub_is_reverse', 'Delta.C08_reverse_involutive', 'Delta.C08_reverse_swaps', 'Delta.C08_detects_step', 'Delta.C08_errs_persist', 'Delta.C08_detects', 'Delta.C08_detects_first', 'Delta.C08_flat_dict_inverse', 'Delta.C08_list_positional_inverse', 'Delta.C08_nested_dict_inverse', 'Delta.C08_set_inverse']
RULE = ('tree-shaped pairs as in C01 (generated values with 1-3 edits, flat lists/tuples with insert/delete/replace/move/duplicate, flat dictionaries string -> scalar) x zip_ordered_iterables x '
        'threshold_to_diff_deeper in {0,0.33,0.9}, bidirectional=True: t2 - delta, t1 + delta, (t2 - delta) + delta and +,-,+,... sequences of length <= 6; every '
        'single-location corruption of the base at a path named by values_changed / type_changes (a fresh value, and the recorded new value), with raise_errors True and False; non-bidirectional subtraction. '
        'The payload, t1 + delta, t2 - delta and corrupted-base outcomes are compared with the Lean model. distinct = distinct (t1, t2, config[, corrupted path]); '
        'non-trivial = t1 != t2')
TRUSTED_BASE = ['the logging module (a tolerated error is observed as a record on the deepdiff.delta logger)', 'difflib is an oracle (own port in the driver)']
ASSUMPTIONS = ['Dom_C01 for the pair in both directions (findings F4b, F4c)', 'the corrupted value is a fresh string, unequal to every value in the inputs']

SENTINEL = 'CORRUPTED#'


def set_at(v, elems, new):
    """functional update of v at the GET path elems"""
    if not elems:
        return new
    k = elems[0]
    if isinstance(v, dict):
        r = dict(v); r[k] = set_at(v[k], elems[1:], new); return r
    if isinstance(v, list):
        r = list(v); r[k] = set_at(v[k], elems[1:], new); return r
    if isinstance(v, tuple):
        r = list(v); r[k] = set_at(v[k], elems[1:], new); return tuple(r)
    raise KeyError(k)


def path_elems(path):
    from deepdiff.path import _path_to_elements
    els = _path_to_elements(path, root_element=None)
    if any(a != 'GET' for _, a in els):
        raise KeyError(path)
    return [e for e, _ in els]


def poke(v, seen=None):
    """edit every mutable container of a value in place"""
    seen = seen if seen is not None else set()
    if id(v) in seen:
        return
    seen.add(id(v))
    if isinstance(v, list):
        for x in v:
            poke(x, seen)
        v.append('POKED')
    elif isinstance(v, dict):
        for x in v.values():
            poke(x, seen)
        v['POKED'] = 1
    elif isinstance(v, set):
        v.add('POKED')
    elif isinstance(v, tuple):
        for x in v:
            poke(x, seen)


def snapshot_clause(ctx):
    """a delta is a record of the two values as they were when it was built: editing the inputs in place afterwards changes neither what it accepts nor what it
    produces, in either direction"""
    from deepdiff import DeepDiff, Delta
    from deepdiff.delta import DeltaError
    fixed = [([{'a': 1, 'b': 2}], [{'c': 3, 'd': 4}]), ({'k': [1, 2]}, {'k': (1, 2)}), ({'k': {'x': [1]}}, {'k': [1]}), ({'a': [1, 2]}, {'a': [1, 2], 'b': {'n': [0]}}),
             ([[1, 2], 'x'], [{'q': [1]}, 'x']), ({'rows': [{'id': 1, 'v': [1]}, {'id': 2}]}, {'rows': [{'name': 'n', 'w': [2]}, {'id': 2}]}), ({'s': {1, 2}}, {'s': [1, 2]}),
             ({'a': {'b': {'c': [1, {'d': 2}]}}}, {'a': {'b': 5}}), ([1, [2, [3]]], [1, [2, [4]], [5]])]
    pairs = fixed + FAM.gen_pairs(ctx, 60 if ctx.thorough() else 12)
    for (t1, t2) in pairs:
        for kw in (dict(), dict(threshold_to_diff_deeper=0), dict(zip_ordered_iterables=True)):
            try:
                dom = C01.in_domain(t1, t2, **kw)[0] and C01.in_domain(t2, t1, **kw)[0] and not C01.set_member_alias(t1, t2) and not C01.shares_mutable(t2)
            except Exception:
                dom = False
            if not dom:
                ctx.count('snapshot_out_of_domain'); continue
            a, b = copy.deepcopy(t1), copy.deepcopy(t2)
            c1, c2 = copy.deepcopy(t1), copy.deepcopy(t2)
            case = {'t1': repr(c1), 't2': repr(c2), 'cfg': kw, 'clause': 'the inputs are edited in place after the bidirectional delta was built'}
            ctx.evaluations += 1
            try:
                d = Delta(DeepDiff(a, b, **kw), bidirectional=True, raise_errors=True)
                poke(a); poke(b)
                fwd = copy.deepcopy(c1) + d
                back = copy.deepcopy(c2) - d
            except DeltaError as e:
                ctx.violate(case, 'the delta refuses the values it was built from: %s' % str(e)[:100]); continue
            except Exception as e:
                ctx.violate(case, 'raised %s: %s' % (type(e).__name__, str(e)[:80])); continue
            ctx.count('snapshot')
            if not strict_eq(c1, c2):
                ctx.nontriv((repr(c1), repr(c2), repr(sorted(kw.items())), 'snapshot'))
            if not DL.py_eq_t(fwd, c2):
                ctx.violate(case, 't1 + delta is %r, not the t2 of diff time' % (fwd,))
            elif not DL.py_eq_t(back, c1):
                ctx.violate(case, 't2 - delta is %r, not the t1 of diff time' % (back,))


def run(ctx, impl_only=False):
    from deepdiff import DeepDiff, Delta
    from deepdiff.delta import DeltaError
    findings = {f['id']: f for f in core.load_findings(ID) if f.get('status') == 'open'}
    n = 700 if ctx.thorough() else 100
    keys = ['a', 'b', 'c', 'dd', 1, 2, None, 'x y']
    pairs = [p for p in C01.special_pairs() if 'array(' not in repr(p)] + FAM.gen_pairs(ctx, n, keys=keys, flat_share=0.3, equal_share=0.03)
    gt = Gen(ctx.rng, scalars=[0, 1, 2, 3, 'a', 'b', None, 1.5], kinds=('tuple',), max_depth=1, max_width=6, p_leaf=0)
    for _ in range(n // 6):
        t = gt.container(1); u = gt.edits(t, ctx.rng.randint(1, 3))
        w = ctx.rng.choice([lambda x: x, lambda x: [x, 0], lambda x: {'t': x}])
        pairs.append((w(t), w(u)))
    pairs += FAM.rich_pairs(ctx, n // 4)
    pairs += FAM.hostile_pairs(ctx, n // 4)
    pairs += C01.flat_dict_pairs(ctx, n // 2)      # the domain of C08_flat_dict_inverse
    pairs += C01.nested_dict_pairs(ctx, n // 3)
    # sequences that gain or lose several trailing items (each direction sorts the same report in its own order), at the root and nested
    for _ in range(max(10, n // 6)):
        base = [ctx.rng.choice([0, 1, 2, 'a', 'b', 1.5, None]) for _ in range(ctx.rng.randint(0, 4))]
        tail = [ctx.rng.choice([7, 8, 9, 'x', 'y', 2.5]) for _ in range(ctx.rng.randint(2, 4))]
        mk_ = ctx.rng.choice([list, tuple]) if base or True else list
        a, b = mk_(base), mk_(base + tail)
        if ctx.rng.random() < 0.5:
            a, b = b, a
        w = ctx.rng.choice([lambda x: x, lambda x: {'l': x, 'z': 1}, lambda x: [0, x]]) if mk_ is list else (lambda x: x)
        pairs.append((w(a), w(b)))
    # lists of distinct scalars with a shift (an item deleted or inserted) and a replaced item elsewhere: the difflib pass wins, opcodes are recorded,
    # and the replaced item is a values_changed entry inside a container that has opcodes
    for _ in range(max(10, n // 6)):
        k = ctx.rng.randint(4, 8)
        base = ctx.rng.sample(['a', 'b', 'c', 'd', 'e', 'f', 'g', 'h', 1, 2, 3, 4, 5], k)
        new = list(base)
        i_rep = ctx.rng.randrange(k)
        new[i_rep] = ctx.rng.choice(['X', 'Y', 99, 2.5])
        if ctx.rng.random() < 0.5:
            j = ctx.rng.choice([x for x in range(k) if abs(x - i_rep) > 1] or [0])
            del new[j]
        else:
            new.insert(ctx.rng.choice([0, k]), 'NEW')
        w = ctx.rng.choice([lambda x: x, lambda x: {'l': x, 'z': 1}, lambda x: [0, x]])
        pairs.append((w(base), w(new)) if ctx.rng.random() < 0.7 else (w(new), w(base)))
    lines, metas = [], []
    grid = [(z, thr) for z in (False, True) for thr in (0, 0.33, 0.9)]
    for i, (t1, t2) in enumerate(pairs):
        for (zip_, thr) in (grid if ctx.thorough() and i % 4 == 0 else [grid[ctx.rng.randrange(6)], grid[ctx.rng.randrange(6)]]):
            kw = dict(zip_ordered_iterables=zip_, threshold_to_diff_deeper=thr)
            case = {'t1': repr(t1), 't2': repr(t2), 'zip': zip_, 'thr': thr}
            ctx.evaluations += 1
            try:
                dom = C01.in_domain(t1, t2, **kw)[0] and C01.in_domain(t2, t1, **kw)[0] and not C01.set_member_alias(t1, t2)
            except Exception:
                dom = True
            ctx.count('dom' if dom else 'out_of_domain')
            if not strict_eq(t1, t2):
                ctx.nontriv((repr(t1), repr(t2), zip_, thr))
            s1, s2 = copy.deepcopy(t1), copy.deepcopy(t2)
            try:
                dd = DeepDiff(t1, t2, **kw)
                if ctx.evaluations % 3 == 0:
                    # other deltas and views taken from the same DeepDiff object first: building one must not change what the next one gets
                    Delta(dd); dd._to_delta_dict(); Delta(dd, always_include_values=True)
                mk = lambda **o: Delta(dd, bidirectional=True, **o)
                payload = None
                fwd, rf = DL.apply_outcome(lambda: t1 + mk())
                rev, rr = DL.apply_outcome(lambda: t2 - mk())
            except Exception as e:
                ctx.violate(case, 'building the bidirectional delta raised %s' % type(e).__name__); continue
            if dom:
                if fwd.startswith('RAISED') or not DL.py_eq_t(rf, t2):
                    ctx.violate(case, 't1 + delta = %s, expected t2' % (fwd if rf is None else repr(rf)))
                if rev.startswith('RAISED') or not DL.py_eq_t(rr, t1):
                    ctx.violate(case, 't2 - delta = %s, expected t1' % (rev if rr is None else repr(rr)))
                elif fwd.endswith('errs=1') or rev.endswith('errs=1'):
                    ctx.violate(case, 'applying the delta to its own base logged an error')
                else:
                    # back and forth
                    d = mk(raise_errors=True)
                    start = ctx.rng.randrange(2)              # the same Delta object, used first forwards or first backwards
                    x = copy.deepcopy(t1 if start == 0 else t2); okc = True
                    seq = ''
                    try:
                        for k in range(start, start + ctx.rng.randint(2, 6)):
                            if k % 2 == 0:
                                x = x + d; seq += '+'; want = t2
                            else:
                                x = x - d; seq += '-'; want = t1
                            if not DL.py_eq_t(x, want):
                                ctx.violate(dict(case, sequence=seq), 'after %s the value is %r, expected %r' % (seq, x, want)); okc = False; break
                    except Exception as e:
                        ctx.violate(dict(case, sequence=seq), 'sequence %s raised %s' % (seq, type(e).__name__))
                    ctx.count('sequence_len_%d' % len(seq))
                if not (strict_eq(t1, s1) and strict_eq(t2, s2)):
                    ctx.violate(case, 'an input was modified')
            # non-bidirectional refuses subtraction, whatever the other options are
            for okw in ({}, {'always_include_values': True}, {'bidirectional': False, 'raise_errors': True}, {'always_include_values': True, 'force': True}):
                try:
                    copy.deepcopy(t2) - Delta(dd, **okw)
                    ctx.violate(dict(case, delta_options=okw), 'a non-bidirectional delta accepted subtraction')
                except ValueError:
                    ctx.count('refused')
                except Exception as e:
                    ctx.violate(dict(case, delta_options=okw), 'non-bidirectional subtraction raised %s, not ValueError' % type(e).__name__)
            # single-location corruptions
            ddiff = mk().diff
            cpaths = [p for c in ('values_changed', 'type_changes') for p in ddiff.get(c, {})]
            # ... and every location DeepDiff itself reports as changed (whether or not the payload kept an entry for it)
            cpaths += [p for c in ('values_changed', 'type_changes') for p in (dd.get(c, {}) if isinstance(dd.get(c, {}), dict) else []) if p not in cpaths]
            ctx.rng.shuffle(cpaths)
            model_bases = []
            for p in cpaths[: (4 if ctx.thorough() else 2)]:
                rec = ddiff.get('values_changed', {}).get(p) or ddiff.get('type_changes', {}).get(p) or {}
                wrongs = [('fresh', SENTINEL), ('nan', float('nan'))]          # a NaN in place of the old value is a mismatch like any other
                if 'new_value' in rec and 'old_value' in rec and not (rec['new_value'] == rec['old_value']):
                    wrongs.append(('recorded_new_value', copy.deepcopy(rec['new_value'])))      # the base already holds the new value there
                for (kind, wrong) in wrongs:
                    try:
                        base = set_at(t1, path_elems(p), wrong)
                    except (KeyError, IndexError, TypeError):
                        ctx.count('corruption_unreachable'); continue
                    ctx.evaluations += 1
                    c2 = dict(case, corrupted=p, corrupted_with=kind)
                    if kind != 'nan' and ctx.evaluations % 4 == 0:
                        # the verification does not depend on the other options of the Delta (force creates missing containers, it does not vouch for the base)
                        for okw_ in (dict(force=True), dict(force=True, always_include_values=True), dict(log_errors=False)):
                            try:
                                copy.deepcopy(base) + mk(raise_errors=True, **okw_)
                                ctx.violate(dict(c2, delta_options=sorted(okw_)), 'raise_errors=True with %s: a base whose value at %s is not the recorded old value was accepted' % (sorted(okw_), p))
                            except DeltaError:
                                ctx.count('corruption_raised:options')
                            except Exception as e:
                                ctx.count('corruption_raised_other:' + type(e).__name__)
                    strict = mk(raise_errors=True)          # one Delta object, offered the same wrong base again and again (and the right one in between)
                    for attempt in (1, 2, 3):
                        try:
                            copy.deepcopy(base) + strict
                            ctx.violate(dict(c2, attempt=attempt), 'raise_errors=True: a base whose value at %s is not the recorded old value was accepted (attempt %d with the same Delta)' % (p, attempt))
                        except DeltaError:
                            ctx.count('corruption_raised:' + kind)
                        except Exception as e:
                            ctx.count('corruption_raised_other:' + type(e).__name__)
                        if attempt == 2 and dom:          # inside Dom_C01 (findings F4b, F4c, F45 are outside)
                            try:
                                if not DL.py_eq_t(copy.deepcopy(t1) + strict, t2):
                                    ctx.violate(dict(c2, attempt=attempt), 'after a refused base the same Delta no longer maps t1 to t2')
                            except Exception:
                                pass
                    # the subtraction side: t2 corrupted at the location of the new value must be refused by `base - delta` as well
                    if kind == 'fresh' and dom:
                        try:
                            np_ = rec.get('new_path', p) if isinstance(rec, dict) else p
                            base2 = set_at(t2, path_elems(np_), SENTINEL)
                        except (KeyError, IndexError, TypeError):
                            base2 = None
                        if base2 is not None and not strict_eq(base2, t2):
                            ctx.evaluations += 1
                            try:
                                copy.deepcopy(base2) - mk(raise_errors=True)
                                ctx.violate(dict(c2, side='subtraction'), 'raise_errors=True: t2 corrupted at %s was accepted by base - delta' % np_)
                            except DeltaError:
                                ctx.count('corruption_raised:subtraction')
                            except Exception as e:
                                ctx.count('corruption_raised_other:' + type(e).__name__)
                    out, _ = DL.apply_outcome(lambda: copy.deepcopy(base) + mk())
                    if not (out.startswith('RAISED') or out.endswith('errs=1')):
                        ctx.violate(c2, 'raise_errors=False: the mismatch at %s was accepted silently' % p)
                    else:
                        ctx.count('corruption_logged')
                    model_bases.append((c2, base, out))
            # the wire form is a tree: a base that holds one mutable object at two places (F67) is not a value of the model universe
            if not impl_only and FAM.in_universe(t1, t2) and not C01.shares_mutable(t1) and not C01.shares_mutable(t2):
                try:
                    pl = DL.canon_delta(ddiff)
                    lines.append(DL.delta_line(t1, t2, t1, t2, True, True, zip_, thr)); metas.append((case, pl + ' ;; ' + fwd + ' ;; ' + rev, None))
                    for (c2, base, out) in model_bases:
                        lines.append(DL.delta_line(t1, t2, base, t2, True, True, zip_, thr)); metas.append((c2, out, 1))
                except OutOfUniverse:
                    ctx.count('out_of_universe')
        if len(ctx.samples) < 5 and i > 12:
            ctx.sample({'t1': repr(t1)[:120], 't2': repr(t2)[:120]})
    snapshot_clause(ctx)
    # ---- boundary witnesses
    def inv(t1, t2):
        try:
            d = Delta(DeepDiff(t1, t2), bidirectional=True)
            return DL.py_eq_t(copy.deepcopy(t2) - d, t1) and DL.py_eq_t(copy.deepcopy(t1) + d, t2)
        except Exception:
            return False
    wit = {'F4b': lambda: inv([([], {1})], [([], {1, 'b'})]), 'F4c': lambda: inv([((1, 2), 0)], [((1, 3), 0)]), 'F45': lambda: inv({1}, {True})}
    for fid, fn in wit.items():
        ctx.evaluations += 1
        ok = fn()
        if fid in findings:
            (ctx.known_not_reproduced if ok else ctx.known_reproduced).append(fid if ok else '%s: %s' % (fid, findings[fid]['what_fails']))
        elif not ok:
            ctx.violate({'witness': fid}, 'boundary witness %s fails and is not a listed finding' % fid)
    # ---- correspondence
    if ctx.build_ok and not impl_only and lines:
        ans = core.run_model(lines)
        for (case, a, part), m in zip(metas, ans):
            ctx.traces += 1
            if part is None:
                if a != m:
                    pa, pm = a.split(' ;; '), m.split(' ;; ')
                    i = 0 if pa[0] != pm[0] else (1 if pa[1] != pm[1] else 2)
                    ctx.diverge(case, pa[i][:500], pm[i][:500] if len(pm) > i else m[:200], op='DELTA-' + ('payload', 'add', 'sub')[i])
            else:
                pm = m.split(' ;; ')
                if len(pm) < 2 or pm[1] != a:
                    ctx.diverge(case, a[:500], (pm[1] if len(pm) > 1 else m)[:500], op='DELTA-corrupted-base')


def search(ctx):
    c2 = core.Ctx(ctx.pid, 'thorough', ctx.seed + 1)
    c2.build_ok = False
    run(c2, impl_only=True)
    return c2.violations


def replay(ctx, payload):
    from deepdiff import DeepDiff, Delta
    ok = True
    for c in payload.get('cases', []):
        case = c['case']
        if 't1' not in case:
            print('  ', case, c.get('why')); ok = False; continue
        t1, t2 = eval(case['t1']), eval(case['t2'])
        kw = dict(zip_ordered_iterables=case.get('zip', False), threshold_to_diff_deeper=case.get('thr', 0.33))
        dd = DeepDiff(t1, t2, **kw)
        try:
            if 'corrupted' in case:
                wrong = SENTINEL
                if case.get('corrupted_with') == 'recorded_new_value':
                    dfull = Delta(dd, bidirectional=True).diff
                    wrong = (dfull.get('values_changed', {}).get(case['corrupted']) or dfull.get('type_changes', {}).get(case['corrupted']))['new_value']
                base = set_at(t1, path_elems(case['corrupted']), wrong)
                out, _ = DL.apply_outcome(lambda: base + Delta(dd, bidirectional=True))
                good = out.startswith('RAISED') or out.endswith('errs=1')
                r = out
            else:
                d = Delta(dd, bidirectional=True)
                r = (copy.deepcopy(t1) + d, copy.deepcopy(t2) - d)
                good = DL.py_eq_t(r[0], t2) and DL.py_eq_t(r[1], t1)
        except Exception as e:
            r, good = 'raised %r' % e, False
        print('  ', case, '->', r, 'holds' if good else 'FAILS')
        ok = ok and good
    return ok
