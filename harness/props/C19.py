"""C19 — deep_distance and pairing distances lie in their range."""
import datetime, decimal, copy, itertools
from fractions import Fraction
from .. import core
from ..gen import Gen, strict_eq

ID = 'C19'
LEAN_TARGETS = ['Properties.C19']
THEOREMS = ['Dist.C19_numbers', 'Dist.C19_typed_range', 'Dist.C19_typed_zero',
            'Dist.C19_time_zero', 'Dist.C19_time_microseconds', 'Dist.C19_N_datetime_vs_date', 'Dist.C19_dispatch_order',
            'Dist.C19_item_length_le_count', 'Dist.C19_rough_length_is_hash_count', 'Dist.C19_deep_distance_nested_dicts', 'Dist.C19_deep_distance_positional_lists', 'Dist.C19_deep_distance_positive_nested_dicts', 'Dist.C19_N_deep_distance_exceeds_one', 'Dist.C19_deep_distance_positive_positional_lists', 'Dist.C19_deep_distance_sets', 'Dist.C19_deep_distance_frozensets', 'Dist.C19_deep_distance_positive_sets', 'Dist.C19_deep_distance_positive_frozensets', 'Dist.C19_N_set_of_none',
            'Dist.C19_N_uncounted_leaves']
RULE = ('(a) pairs of ints / short decimals / Decimals (0, negatives, opposite signs, equal values) x maxima: real _get_numbers_distance vs the exact '
        'rational model; (b) datetimes, dates, timedeltas, times; (c) deep_distance of generated nested pairs x ignore_order x view x cutoff, '
        'and, in the ordered mode on the model universe, the reported number vs the model (numerator _get_item_length of the delta payload, denominator the two DeepHash counts). '
        'distinct = distinct (a, b, max) or (t1, t2, config); non-trivial = operands differ')
TRUSTED_BASE = ['IEEE-754 rounding, float overflow and int->float conversion are outside the rational model (results compared within 1e-9 relative)']
ASSUMPTIONS = ['deep_distance clauses are decided on the implementation only in this revision (the delta-view/DeepHash-count model is not built yet)',
               'deep_distance range is claimed for diffs without type_changes; positivity for diffs whose payload has a countable leaf and no opcode-covered changes']

NUMS = [0, 1, -1, 2, 3, 5, 10, -10, 100, 7, -7, 255, 1000000, 0.5, -0.5, 1.5, 2.25, 0.1, -0.1, 0.25, 3.75, 1e3, 123.456, -2, -3]
MAXES = [1, 0.3, 0.75, 0.5, 2]


def frac(x):
    if isinstance(x, float):
        return Fraction(decimal.Decimal(repr(x)))
    return Fraction(x)


def rat_tok(q):
    return '%d/%d' % (q.numerator, q.denominator)


def part_numbers(ctx):
    from deepdiff.distance import _get_numbers_distance
    cases = []
    for a, b in itertools.product(NUMS, repeat=2):
        cases.append((a, b, ctx.rng.choice(MAXES)))
    n = 3000 if ctx.thorough() else 300
    for _ in range(n):
        k = ctx.rng.random()
        if k < 0.4:
            a, b = ctx.rng.randint(-1000, 1000), ctx.rng.randint(-1000, 1000)
        elif k < 0.8:
            a = round(ctx.rng.uniform(-100, 100), ctx.rng.randint(0, 3)); b = round(ctx.rng.uniform(-100, 100), ctx.rng.randint(0, 3))
        else:
            a = decimal.Decimal(str(round(ctx.rng.uniform(-50, 50), 2))); b = decimal.Decimal(str(round(ctx.rng.uniform(-50, 50), 2)))
        if ctx.rng.random() < 0.1:
            b = a
        if ctx.rng.random() < 0.1:
            b = -a
        cases.append((a, b, ctx.rng.choice(MAXES)))
    lines = ['NDIST %s %s %s' % (rat_tok(frac(a)), rat_tok(frac(b)), rat_tok(frac(mx))) for a, b, mx in cases]
    model = core.run_model(lines) if ctx.build_ok else None
    for i, (a, b, mx) in enumerate(cases):
        ctx.evaluations += 1
        case = {'kind': 'numbers', 'a': repr(a), 'b': repr(b), 'max': mx}
        try:
            d = _get_numbers_distance(a, b, mx)
        except Exception as e:
            ctx.violate(case, 'raised %r' % e); continue
        if not (0 <= d <= mx):
            ctx.violate(case, 'distance %r outside [0, %r]' % (d, mx))
        if (d == 0) != (a == b):
            ctx.violate(case, 'distance %r but a == b is %r' % (d, a == b))
        if a != b:
            ctx.nontriv((repr(a), repr(b), mx))
        ctx.count('numbers')
        if model is not None:
            ctx.traces += 1
            n_, d_ = model[i].split('/')
            exact = Fraction(int(n_), int(d_))
            if abs(Fraction(d) - exact) > Fraction(1, 10**9) * max(1, abs(exact)):
                ctx.diverge(case, repr(d), model[i], op='NDIST')
        if i % 211 == 0:
            ctx.sample({'a': repr(a), 'b': repr(b), 'max': mx, 'impl': d, 'model': model[i] if model else None})


def part_complex(ctx):
    """complex operands of the number distance (implementation only: outside the rational model): within [0, max], 0 only for equal numbers,
    in particular not for different numbers of one modulus"""
    from deepdiff.distance import get_numeric_types_distance
    from deepdiff import DeepDiff
    cs = [3 + 4j, 4 + 3j, 5, 5.0, 1j, 1, -1, 1 + 1j, -1 - 1j, 0j, 0, 2.5 - 1j, 2.5 + 1j]
    for a, b in itertools.product(cs, repeat=2):
        if not (isinstance(a, complex) or isinstance(b, complex)):
            continue
        for mx in (1, 0.3):
            ctx.evaluations += 1
            case = {'kind': 'numbers (complex)', 'a': repr(a), 'b': repr(b), 'max': mx}
            try:
                d = get_numeric_types_distance(a, b, mx)
            except Exception as e:
                ctx.violate(case, 'raised %s' % type(e).__name__); continue
            ctx.count('complex')
            if a != b:
                ctx.nontriv(('complex', repr(a), repr(b), mx))
            if not (0 <= d <= mx):
                ctx.violate(case, 'distance %r outside [0, %r]' % (d, mx))
            elif (d == 0) != (a == b):
                ctx.violate(case, 'distance %r but a == b is %r' % (d, a == b))
        ctx.evaluations += 1
        try:
            dd = DeepDiff(a, b, get_deep_distance=True)
        except Exception as e:
            ctx.violate({'kind': 'deep', 't1': repr(a), 't2': repr(b), 'cfg': {}}, 'DeepDiff(get_deep_distance=True) raised %s: %s' % (type(e).__name__, str(e)[:80])); continue
        if a != b and not dd.get('deep_distance', 0) > 0:
            ctx.violate({'kind': 'deep', 't1': repr(a), 't2': repr(b), 'cfg': {}}, 'different numbers but deep_distance = %r' % dd.get('deep_distance'))


def part_vectorised(ctx):
    """the bulk form of the number distance (numpy arrays, used for pairing when several numbers of one type are unmatched on both sides)
    gives, pair by pair, what the scalar form gives: within [0, max], 0 only for equal numbers"""
    import numpy as np
    from deepdiff.distance import _get_numbers_distance, _get_numpy_array_distance
    for mx in (0.3, 1, 0.6, 0.1):
        xs, ys = [], []
        for k in range(1, 6):
            xs += [13.0 * k, 5.0 * k, float(k), -2.0 * k, 0.0, 7.5]; ys += [-7.0 * k, 0.0, float(k), 3.0 * k, 0.0, 7.25]
        # pairs with a - b == (a + b) / max: a = (1 + max) t, b = (max - 1) t
        for t in (1.0, 2.0, 10.0, 0.5):
            xs.append((1 + mx) * t * 10); ys.append((mx - 1) * t * 10)
        for _ in range(60 if ctx.thorough() else 15):
            xs.append(float(ctx.rng.randint(-50, 50))); ys.append(float(ctx.rng.randint(-50, 50)))
        got = _get_numpy_array_distance(np.array(xs), np.array(ys), max_=mx)
        for a, b, g in zip(xs, ys, got):
            ctx.evaluations += 1
            ctx.count('vectorised')
            case = {'kind': 'numbers (vectorised)', 'a': repr(a), 'b': repr(b), 'max': mx}
            want = _get_numbers_distance(a, b, mx)
            if a != b:
                ctx.nontriv(('vec', a, b, mx))
            if not (0 <= g <= mx):
                ctx.violate(case, 'vectorised distance %r outside [0, %r]' % (float(g), mx))
            elif (g == 0) != (a == b):
                ctx.violate(case, 'vectorised distance %r but a == b is %r' % (float(g), a == b))
            elif abs(float(g) - want) > 1e-9:
                ctx.violate(case, 'vectorised distance %r, scalar distance %r' % (float(g), want))


def part_nonfinite(ctx):
    """inf and nan operands (outside the rational model): the pairing distance still is a number in [0, max], the
    deep distance a number in [0, 1]"""
    import math
    from deepdiff import DeepDiff
    from deepdiff.distance import _get_numbers_distance, get_numeric_types_distance
    inf, nan = float('inf'), float('nan')
    vals = [inf, -inf, nan, 0, 1.0, -2.5, 10**6]
    for a in vals:
        for b in vals:
            if not (isinstance(a, float) and not math.isfinite(a)) and not (isinstance(b, float) and not math.isfinite(b)):
                continue
            for mx in (0.3, 1):
                ctx.evaluations += 1
                case = {'kind': 'nonfinite', 'a': repr(a), 'b': repr(b), 'max': mx}
                try:
                    d1 = _get_numbers_distance(a, b, mx); d2 = get_numeric_types_distance(a, b, mx)
                except Exception as e:
                    ctx.violate(case, 'raised %r' % e); continue
                for d in (d1, d2):
                    if not (isinstance(d, (int, float)) and d == d and 0 <= d <= mx):
                        ctx.violate(case, 'distance %r is not a number in [0, %r]' % (d, mx)); break
                ctx.count('nonfinite')
            if a is b:
                continue
            for kw in ({}, {'ignore_order': True}):
                ctx.evaluations += 1
                case = {'kind': 'nonfinite-deep', 'a': repr(a), 'b': repr(b), 'cfg': kw}
                try:
                    dd = DeepDiff([a, 2], [b, 2], get_deep_distance=True, **kw).get('deep_distance', 0)
                except Exception as e:
                    ctx.violate(case, 'raised %r' % e); continue
                if not (isinstance(dd, (int, float)) and dd == dd and 0 <= dd <= 1):
                    ctx.violate(case, 'deep_distance %r is not a number in [0, 1]' % (dd,))


def part_typed(ctx):
    from deepdiff.distance import get_numeric_types_distance
    D, T, TD, DT, TZ = datetime.date, datetime.time, datetime.timedelta, datetime.datetime, datetime.timezone
    vals = {
        'datetime': [DT(2020, 1, 1), DT(2020, 1, 1, 0, 0, 1), DT(1969, 12, 31, 23), DT(2020, 1, 2), DT(2020, 1, 1, 0, 0, 0, 5), DT(1950, 6, 1)],
        # aware datetimes: one wall clock in several zones (different instants), one instant written in several zones (equal)
        'datetime_aware': [DT(2020, 1, 1, 12, 0, tzinfo=TZ(TD(0))), DT(2020, 1, 1, 12, 0, tzinfo=TZ(TD(hours=5, minutes=30))), DT(2020, 1, 1, 12, 0, tzinfo=TZ(TD(hours=-8))),
                           DT(2020, 1, 1, 17, 30, tzinfo=TZ(TD(hours=5, minutes=30))), DT(2020, 1, 1, 4, 0, tzinfo=TZ(TD(hours=-8))), DT(2020, 1, 1, 12, 0, 0, 7, tzinfo=TZ(TD(0))),
                           DT(2021, 3, 4, 5, 6, 7, tzinfo=TZ(TD(hours=9)))],
        'date': [D(2020, 1, 1), D(2020, 1, 2), D(1969, 12, 31), D(1, 1, 1), D(2021, 1, 1)],
        'timedelta': [TD(0), TD(seconds=1), TD(days=1), TD(days=-1), TD(microseconds=5), TD(days=-2, seconds=3)],
        'time': [T(0, 0, 0), T(1, 2, 3), T(1, 2, 4), T(23, 59, 59), T(12, 0, 0), T(1, 2, 3, 1), T(1, 2, 3, 2), T(0, 0, 0, 999999), T(23, 59, 59, 500000)],
    }
    EPOCH = DT(1970, 1, 1)
    US = TD(microseconds=1)

    def tdist_line(kind, a, b, mx):
        m = rat_tok(frac(mx))
        if kind == 'time':
            return 'TDIST time %d %d %d %d %d %d %d %d %s' % (a.hour, a.minute, a.second, a.microsecond, b.hour, b.minute, b.second, b.microsecond, m)
        if kind == 'datetime':
            return 'TDIST datetime %d %d %s' % ((a - EPOCH) // US, (b - EPOCH) // US, m)      # naive datetimes: timestamp() reads them in local time (UTC here, asserted below)
        if kind == 'datetime_aware':
            return 'TDIST datetime %d %d %s' % ((a - EPOCH.replace(tzinfo=TZ.utc)) // US, (b - EPOCH.replace(tzinfo=TZ.utc)) // US, m)      # the instant, whatever the zone it is written in
        if kind == 'date':
            return 'TDIST date %d %d %s' % (a.toordinal(), b.toordinal(), m)
        return 'TDIST timedelta %d %d %s' % (a // US, b // US, m)
    import time as _time
    local_is_utc = (_time.timezone == 0 and not _time.daylight)
    lines, metas = [], []
    findings = {f['id']: f for f in core.load_findings(ID) if f.get('status') == 'open'}
    for kind, vs in vals.items():
        for a, b in itertools.product(vs, repeat=2):
            for mx in (1, 0.3):
                ctx.evaluations += 1
                case = {'kind': kind, 'a': repr(a), 'b': repr(b), 'max': mx}
                d = get_numeric_types_distance(a, b, mx)
                if not (0 <= d <= mx):
                    ctx.violate(case, 'distance %r outside [0, %r]' % (d, mx))
                if (d == 0) != (a == b):
                    ctx.violate(case, 'distance %r but a == b is %r' % (d, a == b))
                ctx.count('typed:' + kind)
                if a != b:
                    ctx.nontriv((kind, repr(a), repr(b), mx))
                if kind != 'datetime' or (local_is_utc and a.year > 1971 and b.year > 1971):
                    lines.append(tdist_line(kind, a, b, mx)); metas.append((case, d))
    if ctx.build_ok and lines:
        ans = core.run_model(lines)
        for (case, d), m in zip(metas, ans):
            ctx.traces += 1
            try:
                n_, d_ = m.split('/')
                exact = Fraction(int(n_), int(d_))
                if abs(Fraction(d) - exact) > Fraction(1, 10**9) * max(1, abs(exact)):
                    ctx.diverge(case, repr(d), m, op='TDIST')
            except ValueError:
                ctx.diverge(case, repr(d), m, op='TDIST')
    # boundary witnesses
    wit = {
        'F24': lambda: get_numeric_types_distance(T(1, 2, 3, 1), T(1, 2, 3, 2), 1) != 0,
        'F25': lambda: get_numeric_types_distance(DT(2020, 1, 1, 5), D(2020, 1, 1), 1) != 0,
        'F13c': lambda: get_numeric_types_distance(10**17, 10**17 + 1, 1) != 0,
        'F13d': lambda: get_numeric_types_distance(1e308, 1.0000001e308, 1) != 0,
    }
    return wit


GDD = dict(get_deep_distance=True)


def deep_wit():
    from deepdiff import DeepDiff
    return {
        'F13a': lambda: DeepDiff(1, '', **GDD).get('deep_distance', 0) <= 1,
        'F13b': lambda: DeepDiff([1, 2, 3, 4], [1, 3, 4, 5, 6], **GDD).get('deep_distance', 0) > 0,
        'F17a': lambda: DeepDiff({'a': 1}, {'a': 1, 'b': None}, **GDD).get('deep_distance', 0) > 0,
        'F17b': lambda: DeepDiff([1], [1, []], **GDD).get('deep_distance', 0) > 0,
        'F17c': lambda: DeepDiff([1, 2], [1, 2, {'_a': 5}], **GDD).get('deep_distance', 0) > 0,
        'F60': lambda: 0 < DeepDiff({'k': 1}, {'k': {b'a': 1}}, **GDD).get('deep_distance', 0) <= 1,      # repaired
    }


def has_leaf(v):
    if isinstance(v, bool) or v is None:
        return isinstance(v, bool)          # bool is a number for _get_item_length
    if isinstance(v, (int, float, str, bytes, type, decimal.Decimal, datetime.date, datetime.time, datetime.timedelta)):
        return True           # dates, datetimes, times and timedeltas count as numbers for _get_item_length
    if isinstance(v, dict):
        return any(has_leaf(x) for x in v.values())     # keys are not counted
    if isinstance(v, (list, tuple, set, frozenset)):
        return any(has_leaf(x) for x in v)
    return False


def part_root_numbers(ctx):
    """two numbers at the root, of the same or of different number types (bool, int, float, Decimal): deep_distance is the number distance,
    so it stays within [0, cutoff_distance_for_pairs] even where the diff is a type change"""
    from deepdiff import DeepDiff
    D = decimal.Decimal
    from deepdiff.distance import _get_numbers_distance
    nums = [True, False, 0, 1, 5, -3, 2, 7.5, 0.0, -1.0, 1.0, D('4.2'), D('1'), D('0'), 10 ** 6, 1e-9, D('Infinity'), D('-Infinity'), D('9E+999999'), D('8E+999999'), D('-9E+999999'), D('1E-999999')]
    cfg_list = [{}, {'ignore_order': True}, {'view': 'tree'}, {'cutoff_distance_for_pairs': 0.6}, {'cutoff_distance_for_pairs': 1}, {'cutoff_distance_for_pairs': 0.05}]
    for a, b in itertools.product(nums, repeat=2):
        ctx.rng.shuffle(cfg_list)              # the order of the calls varies: a result must not depend on what was asked before with another cutoff
        for cfg in list(cfg_list):
            ctx.evaluations += 1
            case = {'kind': 'deep', 't1': repr(a), 't2': repr(b), 'cfg': cfg}
            try:
                dd = DeepDiff(a, b, get_deep_distance=True, **cfg)
            except Exception as e:
                ctx.violate(case, 'DeepDiff raised %s' % type(e).__name__); continue
            d = dd.get('deep_distance') if 'deep_distance' in dd else None
            mx = cfg.get('cutoff_distance_for_pairs', 0.3)
            ctx.count('deep_root_numbers')
            if not strict_eq(a, b):
                ctx.nontriv((repr(a), repr(b), repr(sorted(cfg.items())), 'root numbers'))
            if d is not None and not (0 <= d <= mx):
                ctx.violate(case, 'deep_distance %r of two numbers at the root is outside [0, %r]' % (d, mx))
            try:
                want = _get_numbers_distance(a, b, mx)
            except Exception:
                want = None
            if want is not None and d is not None and want == want and abs(d - want) > 1e-12:
                ctx.violate(case, 'deep_distance %r of two numbers at the root is not the number distance %r under this call\'s cutoff' % (d, want))
            if a == b and d not in (None, 0):
                ctx.violate(case, 'numbers that are == but deep_distance = %r' % d)
            if a != b and not (d is not None and d > 0):
                ctx.violate(case, 'different numbers but deep_distance = %r' % d)


def part_deep_model(ctx):
    """correspondence for deep_distance in the ordered mode: the model's numerator (_get_item_length of the delta payload) over its denominator
    (the two DeepHash counts) is the number DeepDiff reports, on pairs of the model universe (incl. keys with a leading underscore, None and empty containers)"""
    from deepdiff import DeepDiff
    from . import _difffam as FAM
    from ..diffing import thr_frac
    from ..wire import val_tokens, OutOfUniverse
    n = 1200 if ctx.thorough() else 160
    pairs = FAM.gen_pairs(ctx, n, keys=FAM.KEYS_C03 + ['_p', '_', 'new_path', 'deep_distance', '__x'])
    pairs += [([1, 2], [1, 2, {'_a': 5}]), ({'a': 1}, {'a': 1, 'b': None}), ([1], [1, []]), ([1, 2, 3, 4], [1, 3, 4, 5, 6]), ([1, 2, 3], ['a', 'b', 'c']), ({'k': {'_p': [1, 2], 'q': 1}}, {'k': 5}),
              ({'new_path': [1, 2]}, {'new_path': [1, 3], 'deep_distance': 'x'}), ({'__x': [1, 2, 3], 'a': 1}, {'__x': [4], 'a': 2}), ({'s': {1, 2}}, {'s': {2, 3, (4, 5)}}),
              # an added and a removed item of one path: folded into values_changed only after the distance was taken
              (('c', 1, 2, 0, None, '', 'b'), (3, 1, 'c', 2, 0, None, '', 'b')), (['A', 'B', 'C', 'v'], ['p', 'q', 'r', 'v', 'A', 'B', 'C']), ({1, 2, 3}, {2, 3, 4, 'a'}), ({None}, set()), (set(), {1}), ({None, 'x', 2.5}, {None, 'y'}), (frozenset({1}), frozenset({2})), ({'k': ['c', 1, 2, 5, 'b']}, {'k': [3, 1, 'c', 2, 5, 'b']})]
    lines, metas = [], []
    for (t1, t2) in pairs:
        if all(isinstance(v, (int, float)) for v in (t1, t2)):
            continue                                  # two numbers: the number distance (NDIST)
        zip_ = ctx.rng.random() < 0.3
        thr = ctx.rng.choice([0, 0.33, 0.9])
        case = {'kind': 'deep-model', 't1': repr(t1), 't2': repr(t2), 'cfg': {'zip_ordered_iterables': zip_, 'threshold_to_diff_deeper': thr}}
        ctx.evaluations += 1
        try:
            dd = DeepDiff(t1, t2, get_deep_distance=True, zip_ordered_iterables=zip_, threshold_to_diff_deeper=thr)
        except Exception as e:
            ctx.count('deep_model_raised:' + type(e).__name__); continue
        d = dd.get('deep_distance', 0)
        try:
            tn, td = thr_frac(thr)
            lines.append('DDIST %s %d %d %s %s' % ('T' if zip_ else 'F', tn, td, ' '.join(val_tokens(t1)), ' '.join(val_tokens(t2))))
            metas.append((case, d))
        except OutOfUniverse:
            ctx.count('deep_model_out_of_universe')
        if not strict_eq(t1, t2):
            ctx.nontriv((repr(t1), repr(t2), zip_, thr, 'deep-model'))
    if ctx.build_ok and lines:
        ans = core.run_model(lines)
        for (case, d), m in zip(metas, ans):
            ctx.traces += 1
            try:
                a, b = m.split(' ')
                want = 0 if int(a) == 0 else int(a) / int(b)
            except Exception:
                ctx.diverge(case, repr(d), m, op='DDIST'); continue
            ctx.count('deep_model:' + ('zero' if int(a) == 0 else 'positive'))
            if want != d:
                ctx.diverge(case, repr(d), '%s (= %r)' % (m, want), op='DDIST')


def part_views(ctx):
    from . import _difffam as FAM
    """the reported deep_distance is one number per comparison: the tree view and the text view of the same inputs and options carry the same one"""
    from deepdiff import DeepDiff
    pairs = FAM.gen_pairs(ctx, 200 if ctx.thorough() else 40) + [([1, 2, 3], [1, 2, 4]), ({'a': [1, 2]}, {'a': [2, 1, 5]}), ({1, 2}, {2, 3}), ('a', 'b'), ([[1, 2], [3]], [[3], [1, 2, 9]])]
    for (t1, t2) in pairs:
        for kw in (dict(), dict(ignore_order=True), dict(ignore_order=True, cutoff_distance_for_pairs=0.6)):
            case = {'kind': 'views', 't1': repr(t1), 't2': repr(t2), 'cfg': kw}
            ctx.evaluations += 1
            try:
                a = DeepDiff(t1, t2, get_deep_distance=True, **kw).get('deep_distance', 0)
                b = DeepDiff(t1, t2, get_deep_distance=True, view='tree', **kw).get('deep_distance', 0)
            except Exception as e:
                ctx.count('views_raised:' + type(e).__name__); continue
            ctx.count('views')
            if a:
                ctx.nontriv((repr(t1), repr(t2), repr(sorted(kw.items())), 'views'))
            if a != b:
                ctx.violate(case, 'deep_distance is %r in the text view and %r in the tree view' % (a, b))
            if not (0 <= b <= 1) and (0 <= a <= 1):
                ctx.violate(case, 'deep_distance %r in the tree view is outside [0, 1]' % b)


def part_deep(ctx):
    from deepdiff import DeepDiff
    g = Gen(ctx.rng, keys=['a', 'b', 'c', 'dd', 'k1'], max_depth=3, max_width=4, bytes_=True)
    g.scalars += [b'hello world', b'hello there', b'']
    g.scalars += [datetime.date(2020, 1, 1), datetime.date(2021, 6, 15), datetime.datetime(2020, 1, 1, 2, 3, tzinfo=datetime.timezone.utc), datetime.datetime(2021, 5, 6, tzinfo=datetime.timezone.utc),
                  datetime.time(1, 2, 3), datetime.time(4, 5, 6), datetime.timedelta(1), datetime.timedelta(seconds=90), decimal.Decimal('1.5'), decimal.Decimal('7.25')]
    n = 2500 if ctx.thorough() else 350
    gflat = Gen(ctx.rng, scalars=[0, 1, 2, 3, 4, 5, 6, 7, 8, 9, 'a', 'b'], kinds=('list',), max_depth=1, max_width=7, p_leaf=0)
    fixed = [({'k': 1}, {'k': {b'a': 1}}), ([1], [1, {b'x': 2}]), ([{'k': 1}, 5], [5, {'k': {b'a': [1, 2]}}]), ({'k': {b'_p': 1}}, {'k': {b'_p': 2, b'q': 3}}),
             ({'a': (1, 2)}, {'a': (1, 2, {b'': None})})]
    for i in range(n):
        t1 = g.container()
        t2 = copy.deepcopy(t1) if ctx.rng.random() < 0.12 else g.edits(t1, ctx.rng.randint(1, 3))
        if i < len(fixed):
            t1, t2 = fixed[i]                 # values that arrive in the payload with dictionaries keyed by bytes (repaired finding F60)
        if i % 5 == 2:
            # short flat sequences with an item inserted at one end and / or removed at the other (the difflib pass wins and its opcodes are kept for Delta)
            base = ctx.rng.sample(range(1, 30), ctx.rng.randint(3, 7))
            new = list(base)
            for _e in range(ctx.rng.randint(1, 3)):
                c = ctx.rng.random()
                if c < 0.4 and new:
                    del new[ctx.rng.choice([0, -1])]
                elif c < 0.8:
                    new.insert(ctx.rng.choice([0, len(new)]), ctx.rng.randint(40, 60))
                elif new:
                    new[ctx.rng.randrange(len(new))] = ctx.rng.randint(70, 90)
            mk_ = ctx.rng.choice([list, tuple])
            t1, t2 = mk_(base), mk_(new)
            if ctx.rng.random() < 0.3:
                t1, t2 = {'l': t1, 'z': 1}, {'l': t2, 'z': 1}
        for cfg in ({}, {'ignore_order': True}, {'view': 'tree'}, {'ignore_order': True, 'cutoff_distance_for_pairs': 0.6, 'view': 'tree'}):
            case = {'kind': 'deep', 't1': repr(t1), 't2': repr(t2), 'cfg': cfg}
            ctx.evaluations += 1
            try:
                dd = DeepDiff(t1, t2, get_deep_distance=True, **cfg)
                plain = DeepDiff(t1, t2)
                delta = plain._to_delta_dict(report_repetition_required=False) if plain else {}
            except Exception as e:
                ctx.count('deep_raised:' + type(e).__name__)
                try:
                    DeepDiff(t1, t2, **cfg)
                except Exception:
                    continue                      # the comparison itself fails on this input (totality is C11's subject)
                ctx.violate(case, 'get_deep_distance=True makes DeepDiff raise %s: %s' % (type(e).__name__, str(e)[:100]))
                continue
            d = dd.get('deep_distance') if 'deep_distance' in dd else None
            cats = set(dd.keys()) - {'deep_distance'}
            equal = strict_eq(t1, t2)
            ctx.count('deep:' + ('equal' if equal else 'differs'))
            if not equal:
                ctx.nontriv((repr(t1), repr(t2), repr(sorted(cfg.items()))))
            if d is not None and not isinstance(d, (int, float)):
                ctx.violate(case, 'deep_distance is %r' % (d,)); continue
            if d is not None and d < 0:
                ctx.violate(case, 'deep_distance %r < 0' % d)
            if equal and d not in (None, 0):
                ctx.violate(case, 'equal inputs but deep_distance = %r' % d)
            if 'type_changes' in cats:
                ctx.count('deep_out_of_domain:type_changes')
            elif d is not None and d > 1:
                ctx.violate(case, 'deep_distance %r > 1 without any type change' % d)
            if not cfg and plain:
                # positivity, default configuration
                payload_has_leaf = any(has_leaf(v) for cat, body in delta.items() if not cat.startswith('_') for v in (body.values() if isinstance(body, dict) else [body]))
                if '_iterable_opcodes' in delta:
                    ctx.count('deep_out_of_domain:opcodes')
                elif not payload_has_leaf:
                    ctx.count('deep_out_of_domain:no_countable_leaf')
                elif not (d is not None and d > 0):
                    ctx.violate(case, 'non-empty default diff but deep_distance = %r' % d)
            if i % 97 == 0 and not cfg:
                ctx.sample({'t1': repr(t1)[:100], 't2': repr(t2)[:100], 'deep_distance': d})


def run(ctx, impl_only=False):
    part_numbers(ctx)
    part_vectorised(ctx)
    part_complex(ctx)
    part_nonfinite(ctx)
    wit = part_typed(ctx)
    part_root_numbers(ctx)
    part_deep(ctx)
    part_views(ctx)
    part_deep_model(ctx)
    wit.update(deep_wit())
    findings = {f['id']: f for f in core.load_findings(ID) if f.get('status') == 'open'}
    for fid, fn in wit.items():
        ctx.evaluations += 1
        try:
            ok = fn()
        except Exception:
            ok = False
        if fid in findings:
            (ctx.known_not_reproduced if ok else ctx.known_reproduced).append(fid if ok else '%s: %s' % (fid, findings[fid]['what_fails']))
        elif not ok:
            ctx.violate({'witness': fid}, 'boundary witness %s fails and is not a listed finding' % fid)


def search(ctx):
    c2 = core.Ctx(ctx.pid, 'thorough', ctx.seed + 1)
    c2.build_ok = False
    run(c2, impl_only=True)
    return c2.violations


def replay(ctx, payload):
    import datetime as _dt
    from decimal import Decimal
    from deepdiff import DeepDiff
    from deepdiff.distance import _get_numbers_distance, get_numeric_types_distance
    ok = True
    env = {'datetime': _dt, 'Decimal': Decimal}
    for c in payload.get('cases', []):
        case = c['case']
        if case.get('kind') == 'numbers':
            a, b = eval(case['a'], env), eval(case['b'], env)
            d = _get_numbers_distance(a, b, case['max'])
            good = 0 <= d <= case['max'] and ((d == 0) == (a == b))
        elif case.get('kind') == 'deep':
            t1, t2 = eval(case['t1'], env), eval(case['t2'], env)
            d = DeepDiff(t1, t2, get_deep_distance=True, **case['cfg']).get('deep_distance')
            good = d is None or 0 <= d <= 1
            print('   deep_distance =', d)
        elif case.get('kind') in ('datetime', 'date', 'timedelta', 'time'):
            a, b = eval(case['a'], env), eval(case['b'], env)
            d = get_numeric_types_distance(a, b, case['max'])
            good = 0 <= d <= case['max'] and ((d == 0) == (a == b))
        else:
            good = False
        print('  ', case, '->', 'holds' if good else 'FAILS: ' + c.get('why', ''))
        ok = ok and good
    return ok
