"""C17 — results do not depend on caching, pre-seeded hashes or concurrent use."""
import copy, sys, threading, json
from .. import core, diffing as DF
from ..gen import Gen, strict_eq
from . import C05

ID = 'C17'
LEAN_TARGETS = ['Properties.C17']
THEOREMS = ['Memo.C17_cache_transparent', 'Memo.C17_shared_cache_transparent', 'Memo.C17_query', 'Memo.C17_memo_shape', 'Memo.C17_cache_ops_locked', 'DiffIO.C17_result_via_pairing']
RULE = ('pairs of nested values, ignore_order on and off; with ignore_order: lists of many near-duplicate sub-lists (the distance cache is hit and evicted) x cache_size in '
        '{0,1,2,7,5000} x cache_tuning_sample_size in {0,1,2,10} x cache_purge_level in {0,1} x a hashes table left by an earlier run passed in x two repeated runs: the result '
        '(canonical JSON of the text view) must be identical to the cache_size=0 run. The cache traffic of the real runs (membership test / get / set, recorded through a subclass of '
        'LFUCache) is replayed in the Lean memo model and the hit / miss sequences are compared. Threads: 8 (quick) / 16 (thorough) threads, switch interval 1e-6, shuffled work '
        'lists of DeepDiff, DeepHash and Delta computations, each compared with its serial result. distinct = distinct (t1, t2, ignore_order); non-trivial = the diff is not empty')
TRUSTED_BASE = ['CPython threads / GIL scheduling: interleavings are sampled, not enumerated', 'the memoised distance is a function of the cache key (assumption of the theorem; '
                'exercised by the identical-results check)']
ASSUMPTIONS = ['cutoff_intersection_for_pairs at its default (finding F16 at 1.0 with the pairs cache)', 'no two different sub-lists with one DeepHash digest, i.e. equal up to order and repetition (finding F61: the distance cache is keyed by digests)', 'tree-shaped inputs, and lists that refer to one template sub-list in several places']


def canon(dd):
    try:
        return json.dumps(json.loads(dd.to_json()), sort_keys=True)
    except Exception:
        return repr(sorted((k, repr(v)) for k, v in dd.items()))


def near_duplicate_lists(rng, n_rows=None):
    """a list of many sub-lists that differ in one or two places, and an edited / shuffled copy"""
    n_rows = n_rows or rng.randint(4, 9)
    base = [rng.randint(0, 5) for _ in range(rng.randint(3, 5))]
    rows = []
    for _ in range(n_rows):
        r = list(base)
        for _ in range(rng.randint(0, 2)):
            r[rng.randrange(len(r))] = rng.randint(0, 9)
        rows.append(r)
    other = copy.deepcopy(rows)
    rng.shuffle(other)
    for _ in range(rng.randint(1, 3)):
        r = other[rng.randrange(len(other))]
        r[rng.randrange(len(r))] = rng.randint(0, 9)
    if rng.random() < 0.5:
        other.append([rng.randint(0, 9) for _ in range(len(base))])
    if rng.random() < 0.4:
        rows = [rows, [rows[0]]]; other = [other, [other[0]]]
    return rows, other


class Recorder:
    """records the cache traffic of LFUCache objects created while it is installed"""
    def __init__(self):
        self.events = []          # (cache id, kind, key, extra)
        self.sizes = {}

    def install(self):
        import deepdiff.diff as D
        from deepdiff.lfucache import LFUCache
        rec = self
        self._orig = D.LFUCache

        class RecLFU(LFUCache):
            def __init__(self, size, *a, **k):
                super().__init__(size, *a, **k)
                rec.sizes[id(self)] = size

            def __contains__(self, key):
                r = super().__contains__(key)
                rec.events.append((id(self), 'contains', key, r))
                return r

            def get(self, key):
                rec.events.append((id(self), 'get', key, None))
                return super().get(key)

            def set(self, key, report_type=None, value=None):
                rec.events.append((id(self), 'set', key, None))
                return super().set(key, report_type=report_type, value=value)
        D.LFUCache = RecLFU

    def remove(self):
        import deepdiff.diff as D
        D.LFUCache = self._orig


def split_family(rng):
    """one diff in which two lists are built from the same three near-duplicate sub-lists, split differently between the two sides
    (added {a, b} / removed {c} in one list, added {a} / removed {b, c} in the other): the pairing of one must not be answered from the
    cache entry of the other. The roles are given out in the order of the sub-lists' digests, the order in which the cache key lists them."""
    from deepdiff import DeepHash
    stem = [rng.randint(1000, 9999)] + [rng.randint(0, 9) for _ in range(8)]
    subs = [stem + [10, 20, 30], stem + [11, 20, 30], stem + [10, 21, 31]]
    subs.sort(key=lambda v: DeepHash(v)[v])
    a, b, c = subs
    common = [[100 * k + j for j in range(3)] for k in range(1, rng.randint(2, 4))]
    ka, kb = rng.sample(['p', 'q', 'r', 's'], 2)
    t1 = {ka: [c] + common, kb: [b, c] + common}
    t2 = {ka: [a, b] + common, kb: [a] + common}
    if rng.random() < 0.5:
        t1, t2 = t2, t1
    return t1, t2


def tie_family(rng):
    """several removed and several added sub-lists that are all at exactly the same distance from each other (near-duplicates that differ in one
    element): which one is paired with which is decided by the order in which the candidates are walked, and that order must not depend on the cache"""
    stem = [rng.randint(100, 999) for _ in range(rng.randint(5, 8))]
    k = rng.randint(2, 4)
    olds = [stem + [1000 + i] for i in range(k)]
    news = [stem + [2000 + i] for i in range(rng.randint(2, 4))]
    keep = [[rng.randint(0, 9) for _ in range(3)] for _ in range(rng.randint(0, 2))]
    t1 = olds + keep; t2 = keep + news
    rng.shuffle(t1); rng.shuffle(t2)
    w = rng.choice([lambda v: v, lambda v: {'rows': v}, lambda v: [v, ['tail']]])
    return w(t1), w(t2)


def close_rows_family(rng):
    """a group of long, nearly identical rows (three levels of lists): the new row is two elements away from an earlier old row and one element
    away from a later one -- no tie: the closer one is its partner, with or without the caches (the nested passes that only measure a distance
    share the pairs cache with the pass that reports)"""
    n = rng.randint(30, 45)
    def row(start):
        return list(range(start, start + n))
    base = rng.randrange(0, 50)
    common = [row(1000 * k) for k in range(1, rng.randint(3, 4))]
    far = row(base); i, j, k = rng.sample(range(n), 3)
    far[i] = 9001; far[j] = 9002
    near = row(base); near[k] = 9003
    new = row(base)
    olds = [far, near] if rng.random() < 0.7 else [near, far]
    group_old = olds + [list(r) for r in common]
    group_new = [list(common[0]), new] + [list(r) for r in common[1:]]
    extra = [rng.randint(0, 9) for _ in range(3)]
    t1 = [group_old, extra]; t2 = [list(extra), group_new]
    if rng.random() < 0.3:
        t1, t2 = {'g': t1}, {'g': t2}
    return t1, t2


def near_cutoff_family(rng):
    """the same pair of long sub-lists (A in t1, B in t2) in two groups with different neighbours; A and B are just under the pairing cutoff (0.3) apart, at a
    distance that is not a multiple of 0.01: the second group meets the pair through the distance cache, the first computes it"""
    m, c = rng.choice([(16, 10), (13, 8), (19, 12), (16, 10)])
    tag = rng.randrange(1000)
    common = ['common%02d_%d' % (i, tag) for i in range(c)]
    A = common + ['only_in_a%d' % i for i in range(m)]
    B = common + ['only_in_b%d' % i for i in range(m)]
    t1 = {'first': [list(A), 'u', 'v', 'w'], 'second': [list(A), 'u', 'v', ['q1', 'q2']], 'third': [[1, 2, 3, [4, 5]], [6, 7, [8, 9]]]}
    t2 = {'first': [list(B), 'u', 'v', 'w'], 'second': [list(B), 'u', 'v', ['r1', 'r2', 'r3']], 'third': [[6, 7, [8, 10]], [1, 2, 3, [4, 50]]]}
    if rng.random() < 0.3:
        t1, t2 = [t1['first'], t1['second']], [t2['first'], t2['second']]
    return t1, t2


def many_passes(ctx):
    """a long input: many groups of near-duplicate rows, the groups copies of each other -- with a distance cache the row distances are computed once, without one
    again for every group (more than ten thousand nested passes): the result is the same"""
    from deepdiff import DeepDiff
    groups, unchanged, changed = 12 + ctx.rng.randint(0, 2), 16, 30
    common = ['c%d' % i for i in range(4)]

    def group(side):
        rows = [common + ['same%d' % j, 'keep%d' % j, 'stay%d' % j] for j in range(unchanged)]
        rows += [common + ['x%d' % j, 'y%d' % j, ('old%d' if side == 1 else 'new%d') % j] for j in range(changed)]
        return rows
    t1 = {'g%d' % i: group(1) for i in range(groups)}
    t2 = {'g%d' % i: group(2) for i in range(groups)}
    case = {'t1': '%d groups of %d rows (%d of them changed in one leaf)' % (groups, unchanged + changed, changed), 't2': 'the same groups, one leaf of each changed row replaced', 'ignore_order': True}
    res = {}
    for cs in (0, 5000):
        ctx.evaluations += 1
        try:
            res[cs] = canon(DeepDiff(copy.deepcopy(t1), copy.deepcopy(t2), ignore_order=True, cache_size=cs))
        except Exception as e:
            ctx.violate(dict(case, cache_size=cs), 'DeepDiff raised %s' % type(e).__name__); return
    ctx.count('many_passes')
    ctx.nontriv(('many_passes', groups))
    if res[0] != res[5000]:
        ctx.violate(dict(case, cache_size=5000), 'the result differs from the cache_size=0 result (long input)')


def template_family(rng):
    """t1 refers to one sub-list object in several places (an item of the outer list that is also nested inside later items, the way
    near-duplicate records get built); t2 holds edited copies"""
    template = [rng.randrange(5), rng.randrange(5, 9), rng.choice(['x', 'y', 'z'])]
    k = rng.randint(2, 3)
    t1 = [template] + [[template] + rng.sample(['k', 'l', 'm', 'p', 'q', 'r', 's', 't'], 3) for _ in range(k)] + [['tail', 0]]
    def edited():
        c = list(template)
        c[rng.randrange(3)] = rng.choice(['u', 'v', 'w', 17, 18])
        return c
    t2 = [edited()] + [[edited()] + list(row[1:]) for row in t1[1:-1]] + [['tail', 0]]
    if rng.random() < 0.3:
        rng.shuffle(t2)
    return t1, t2


HISTORY_JOBS = [
    # dictionaries keyed by numerically equal keys of different types, and values that drive the number formatter through its retry path
    "({1.0: {'a': 1}, 'x': 0}, {1.0: {'a': 2}, 'x': 0}, {})",
    "({Decimal('1'): {'a': 1}, 'x': 0}, {Decimal('1'): {'a': 2}, 'x': 0}, {})",
    "({True: {'a': 1}, 'x': 0}, {True: {'a': 3}, 'x': 0}, {})",
    "({0.0: [1, 2], False and 'n' or 'm': 1}, {0.0: [1, 3], 'm': 1}, {})",
    "({False: [1, 2]}, {False: [1, 4]}, {})",
    "({2.5: 'p', Decimal('7'): 'q'}, {2.5: 'r', Decimal('7'): 's'}, {})",
    "({Decimal('2.50'): 'p'}, {Decimal('2.50'): 'r'}, {})",
    "([Decimal('999.99999999'), 1], [Decimal('999.99999998'), 2], {'significant_digits': 3})",
    "([Decimal('123456789012345.5'), 1], [Decimal('123456789012346.5'), 1], {'significant_digits': 3})",
    "({'k': Decimal('99999.999999')}, {'k': Decimal('100000')}, {'significant_digits': 2, 'ignore_numeric_type_changes': True})",
    "([1.0, Decimal('1'), True], [Decimal('1'), True, 1.0], {'ignore_order': True})",
]


def history_independence(ctx):
    """a result does not depend on what the process (or the thread) computed before: every job alone in a fresh interpreter is the reference;
    then all jobs in one process, in two orders and on threads"""
    import subprocess, sys, json, threading
    from decimal import Decimal
    from deepdiff import DeepDiff
    prog = ("import sys, json\nfrom decimal import Decimal\nfrom deepdiff import DeepDiff\n"
            "t1, t2, kw = eval(sys.argv[1])\n"
            "try:\n    out = json.dumps(DeepDiff(t1, t2, verbose_level=2, **kw).to_dict(), default=repr, sort_keys=True)\n"
            "except Exception as e:\n    out = 'raised ' + type(e).__name__\nprint(out)\n")
    def local(job):
        t1, t2, kw = eval(job, {'Decimal': Decimal})
        try:
            return json.dumps(DeepDiff(t1, t2, verbose_level=2, **kw).to_dict(), default=repr, sort_keys=True)
        except Exception as e:
            return 'raised ' + type(e).__name__
    ref = {}
    for job in HISTORY_JOBS:
        r = subprocess.run([sys.executable, '-c', prog, job], capture_output=True, text=True, timeout=120)
        ref[job] = r.stdout.strip() if r.returncode == 0 else 'subprocess failed: ' + r.stderr[-200:]
    def compare(job, got, scenario):
        ctx.evaluations += 1
        ctx.count('history_independence')
        if got != ref[job]:
            ctx.violate({'t1': job, 't2': '', 'ignore_order': None, 'scenario': scenario},
                        'the result depends on what was computed before: %s, alone in a fresh interpreter %s' % (got[:200], ref[job][:200]))
    for order, name in ((HISTORY_JOBS, 'all jobs in one process, in order'), (HISTORY_JOBS[::-1], 'all jobs in one process, in reverse order')):
        for job in order:
            compare(job, local(job), name)
    results = {}
    def worker(jobs):
        for job in jobs:
            results[(threading.get_ident(), job)] = local(job)
    ths = [threading.Thread(target=worker, args=(HISTORY_JOBS if i % 2 == 0 else HISTORY_JOBS[::-1],)) for i in range(4)]
    [t.start() for t in ths]; [t.join() for t in ths]
    for (tid, job), got in results.items():
        compare(job, got, 'all jobs on each of four threads')


def cache_keys(ctx):
    """the key under which a pairing is cached (combine_hashes_lists) separates different (added, removed) pairs of hash sets and does not
    depend on the order inside either set - the assumption under which the memo model identifies a cache key with its query"""
    from deepdiff.deephash import combine_hashes_lists
    hexs = lambda: ''.join(ctx.rng.choice('0123456789abcdef') for _ in range(64))
    for _ in range(200 if ctx.thorough() else 40):
        hs = sorted(hexs() for _ in range(ctx.rng.randint(2, 5)))
        cut1, cut2 = ctx.rng.sample(range(0, len(hs) + 1), 2)
        A1, R1 = hs[:cut1], hs[cut1:]
        A2, R2 = hs[:cut2], hs[cut2:]
        ctx.evaluations += 1
        k1 = combine_hashes_lists(items=[A1, R1], prefix='pairs_cache')
        k2 = combine_hashes_lists(items=[A2, R2], prefix='pairs_cache')
        if k1 == k2:
            ctx.violate({'scenario': 'cache key', 'added/removed 1': [A1, R1], 'added/removed 2': [A2, R2]}, 'two different (added, removed) pairs of hash sets get the same pairs-cache key')
        s1 = list(A1); ctx.rng.shuffle(s1); s2 = list(R1); ctx.rng.shuffle(s2)
        if combine_hashes_lists(items=[s1, s2], prefix='pairs_cache') != k1:
            ctx.violate({'scenario': 'cache key', 'added/removed': [A1, R1]}, 'the pairs-cache key depends on the order inside a hash set')
        if combine_hashes_lists(items=[A1, R1], prefix='distance_cache') == k1:
            ctx.violate({'scenario': 'cache key', 'added/removed': [A1, R1]}, 'pairs-cache and distance-cache keys coincide')
        ctx.count('cache_keys')


def check_grammar_and_build_replay(events):
    """per cache: every hit is `contains(True) get` of one key; every `set` closes an earlier miss of the same key (queries
    nest: the pairs query contains the distance queries); a miss may stay open (the auto-tuner switched the cache off).
    returns (ok, message, {cache id: ([event tokens], [H/M per contains])})"""
    per = {}
    for cid, kind, key, extra in events:
        per.setdefault(cid, []).append((kind, key, extra))
    out = {}
    for cid, evs in per.items():
        ids, toks, hm, open_misses = {}, [], [], []
        i = 0
        while i < len(evs):
            kind, key, extra = evs[i]
            k = ids.setdefault(key, len(ids))
            if kind == 'contains':
                toks.append('c%d' % k); hm.append('H' if extra else 'M')
                if extra:
                    if i + 1 >= len(evs) or evs[i + 1][0] != 'get' or evs[i + 1][1] != key:
                        return False, 'a hit is not followed by get of the same key', None
                else:
                    open_misses.append(key)
            elif kind == 'get':
                if i == 0 or evs[i - 1][0] != 'contains' or evs[i - 1][1] != key or not evs[i - 1][2]:
                    return False, 'get without a preceding successful membership test', None
                toks.append('g%d' % k)
            elif kind == 'set':
                if key not in open_misses:
                    return False, 'set of a key that was not looked up first', None
                open_misses.remove(key)
                toks.append('s%d' % k)
            i += 1
        out[cid] = (toks, hm)
    return True, '', out


def run(ctx, impl_only=False):
    from deepdiff import DeepDiff, DeepHash, Delta
    findings = {f['id']: f for f in core.load_findings(ID) if f.get('status') == 'open'}
    n = 120 if ctx.thorough() else 18
    g = Gen(ctx.rng, scalars=[0, 1, 2, 3, 'a', 'b', None, 1.5], kinds=('dict', 'list', 'tuple'), keys=['a', 'b', 1], max_depth=3, max_width=4, p_leaf=0.4)
    pairs = [near_duplicate_lists(ctx.rng) for _ in range(n)]
    pairs += [(x, C05.mutate(ctx.rng, g, copy.deepcopy(x))) for x in (g.container() for _ in range(n))]
    pairs += [split_family(ctx.rng) for _ in range(n // 2)]
    pairs += [template_family(ctx.rng) for _ in range(max(6, n // 2))]
    pairs += [tie_family(ctx.rng) for _ in range(max(6, n // 2))]
    pairs += [close_rows_family(ctx.rng) for _ in range(max(3, n // 6))]
    pairs += [near_cutoff_family(ctx.rng) for _ in range(max(3, n // 10))]
    many_passes(ctx)
    cache_keys(ctx)
    history_independence(ctx)
    lines, metas = [], []
    grid = [(cs, ts, pl) for cs in (0, 1, 2, 7, 5000) for ts in (0, 1, 2, 10) for pl in (0, 1)]
    for i, (t1, t2) in enumerate(pairs):
        for io in (True, False):
            case0 = {'t1': repr(t1), 't2': repr(t2), 'ignore_order': io}
            ctx.evaluations += 1
            try:
                ref = canon(DeepDiff(t1, t2, ignore_order=io, cache_size=0))
            except Exception as e:
                ctx.violate(case0, 'DeepDiff raised %s' % type(e).__name__); continue
            if ref != '{}':
                ctx.nontriv((repr(t1), repr(t2), io))
            combos = grid if (ctx.thorough() and i % 6 == 0) else ctx.rng.sample(grid, 5) + [(5000, 0, 0), (5000, 0, 1)]      # a cache that is never tuned off or evicted, always
            for (cs, ts, pl) in combos:
                case = dict(case0, cache_size=cs, cache_tuning_sample_size=ts, cache_purge_level=pl)
                ctx.evaluations += 1
                rec = Recorder(); rec.install()
                try:
                    d1 = DeepDiff(t1, t2, ignore_order=io, cache_size=cs, cache_tuning_sample_size=ts, cache_purge_level=pl)
                    r1 = canon(d1)
                except Exception as e:
                    ctx.violate(case, 'DeepDiff raised %s with the cache options' % type(e).__name__); continue
                finally:
                    rec.remove()
                if r1 != ref:
                    ctx.violate(case, 'the result differs from the cache_size=0 result')
                r2 = canon(DeepDiff(t1, t2, ignore_order=io, cache_size=cs, cache_tuning_sample_size=ts, cache_purge_level=pl))
                if r2 != r1:
                    ctx.violate(case, 'two runs with the same parameters disagree')
                ctx.count('cache_size:%d' % cs)
                if rec.events:
                    ctx.count('runs_with_cache_traffic')
                    hits = sum(1 for e in rec.events if e[1] == 'contains' and e[3])
                    if hits:
                        ctx.count('runs_with_cache_hits')
                    ok, msg, queries = check_grammar_and_build_replay(rec.events)
                    if not ok:
                        ctx.diverge(case, msg, 'hit = contains get; miss = contains ... set (nested)', op='MEMO-shape')
                    elif not impl_only:
                        for cid, (toks, hm) in queries.items():
                            lines.append('MEMO %d %s' % (rec.sizes.get(cid, cs), ' '.join(toks)))
                            metas.append((case, ' '.join(hm)))
            # a hashes table left by an earlier run
            if io:
                ctx.evaluations += 1
                try:
                    first = DeepDiff(t1, t2, ignore_order=True, cache_purge_level=0)
                    again = DeepDiff(t1, t2, ignore_order=True, hashes=first.hashes)
                    if canon(again) != ref:
                        ctx.violate(dict(case0, scenario='hashes of an earlier run passed in'), 'a pre-seeded hashes table changes the result')
                except Exception as e:
                    ctx.violate(dict(case0, scenario='hashes of an earlier run passed in'), 'raised %s' % type(e).__name__)
        if len(ctx.samples) < 4:
            ctx.sample({'t1': repr(t1)[:120], 't2': repr(t2)[:120]})
    # ---- blocks of near-duplicate rows with every pairing attempted (cutoff_intersection_for_pairs=1): many cache entries with equal
    # use counts.  The report may legitimately differ here (finding F16); what must not depend on the cache is whether the run succeeds.
    for _ in range(40 if ctx.thorough() else 10):
        n_rows = ctx.rng.randrange(3, 6)
        base_rows = [{'id': r, 'tags': [r * 10 + c for c in range(3)]} for r in range(n_rows)]
        def variant(k):
            rows = [{'id': row['id'], 'tags': list(row['tags'])} for row in base_rows]
            for _ in range(ctx.rng.randrange(1, 3)):
                row = rows[ctx.rng.randrange(n_rows)]
                row['tags'][ctx.rng.randrange(3)] = 1000 + ctx.rng.randrange(50)
            return {'name': 'block%d' % k, 'rows': rows}
        n_outer = ctx.rng.randrange(4, 8)
        b1 = [variant(k) for k in range(n_outer)]; b2 = [variant(k) for k in range(n_outer)]
        ctx.rng.shuffle(b2)
        def outcome(cs):
            try:
                DeepDiff(b1, b2, ignore_order=True, cutoff_intersection_for_pairs=1, cache_size=cs)
                return 'ok'
            except Exception as e:
                return 'raised ' + type(e).__name__
        ref_o = outcome(0)
        for cs in (2, 7, 5000):
            ctx.evaluations += 1
            o = outcome(cs)
            ctx.count('block_runs')
            if o != ref_o:
                ctx.violate({'t1': repr(b1), 't2': repr(b2), 'ignore_order': True, 'cache_size': cs, 'scenario': 'cutoff_intersection_for_pairs=1'},
                            'with cache_size=%d the run %s, with cache_size=0 it %s' % (cs, o, ref_o))
    # ---- a long-lived hashes table: temporaries whose addresses are recycled, and a container edited in place between runs
    table = {}
    for k in range(400 if ctx.thorough() else 150):
        tmp1 = [[k, k + 1], {'a': k}, [k]]; tmp2 = [[k, k + 2], {'a': k}, [k, k]]
        DeepDiff(tmp1, tmp2, ignore_order=True, hashes=table)
        del tmp1, tmp2
        if k % 10 == 0:
            x = [[k + 5000, 1], [2, [k]], {'w': [k, 3]}]; y = [[2, [k]], [k + 5000, 1, 7], {'w': [3, k + 1]}]
            ctx.evaluations += 1
            if canon(DeepDiff(x, y, ignore_order=True, hashes=table)) != canon(DeepDiff(x, y, ignore_order=True)):
                ctx.violate({'t1': repr(x), 't2': repr(y), 'ignore_order': True, 'scenario': 'long-lived hashes table, earlier values freed'},
                            'a previously used hashes table changes the result (stale entry reused)'); break
    a = [[1, 2], [3], {'k': [5]}]; b = [[1, 2], [4], {'k': [5]}]
    table = {}
    DeepDiff(a, b, ignore_order=True, hashes=table)
    a[0].append(9); a[2]['k'].append(6)
    ctx.evaluations += 1
    if canon(DeepDiff(a, b, ignore_order=True, hashes=table)) != canon(DeepDiff(copy.deepcopy(a), copy.deepcopy(b), ignore_order=True)):
        ctx.violate({'t1': repr(a), 't2': repr(b), 'ignore_order': True, 'scenario': 'hashes table kept, container edited in place between runs'},
                    'a previously used hashes table changes the result (stale entry reused)')
    table = {}
    v = [1, [2, 3], {'q': [4]}]
    h0 = DeepHash(v, hashes=table)[v]
    v[1].append(5)
    ctx.evaluations += 1
    w = copy.deepcopy(v)
    if DeepHash(v, hashes=table)[v] != DeepHash(w)[w]:
        ctx.violate({'t1': repr(v), 't2': repr(v), 'ignore_order': True, 'scenario': 'DeepHash with a kept table after an in-place edit'}, 'a previously used hashes table changes the hash')
    # ---- threads
    jobs = []
    for (t1, t2) in pairs[: (40 if ctx.thorough() else 12)]:
        jobs.append(('diff_io', t1, t2)); jobs.append(('diff', t1, t2)); jobs.append(('hash', t1, t2)); jobs.append(('delta', t1, t2))

    # flat lists of same-typed numbers with several items replaced: the numpy distance pre-calculation path
    for _ in range(24 if ctx.thorough() else 10):
        base = [round(ctx.rng.uniform(0, 100), 2) for _ in range(7)]
        other = list(base)
        for i in ctx.rng.sample(range(7), 3):
            other[i] = round(base[i] + ctx.rng.uniform(0.5, 30), 2)
        ctx.rng.shuffle(other)
        jobs.append(('diff_io', base, other))
        ib = [ctx.rng.randint(0, 1000) for _ in range(7)]; io_ = list(ib)
        for i in ctx.rng.sample(range(7), 3):
            io_[i] = ib[i] + ctx.rng.randint(1, 50)
        jobs.append(('diff_io', ib, io_))

    for _ in range(16 if ctx.thorough() else 8):
        tup = tuple(ctx.rng.randint(0, 9) for _ in range(5))
        tl = list(tup); tl[ctx.rng.randrange(5)] = 77; tl.insert(ctx.rng.randint(0, 5), 88)
        jobs.append(('delta', {'t': tup, 'k': [tup, 1]}, {'t': tuple(tl), 'k': [tuple(tl[:4]), 1]}))
        jobs.append(('delta', [tup, [1, 2]], [tuple(tl), [1, 2, 3]]))

    def compute(job):
        kind, t1, t2 = job
        if kind == 'diff_io':
            return canon(DeepDiff(t1, t2, ignore_order=True, cache_size=7, cache_tuning_sample_size=2))
        if kind == 'diff':
            return canon(DeepDiff(t1, t2))
        if kind == 'hash':
            return DeepHash(t1)[t1] + DeepHash(t2)[t2]
        d = Delta(DeepDiff(t1, t2))
        return repr(copy.deepcopy(t1) + d)
    serial = []
    for j in jobs:
        try:
            serial.append(compute(j))
        except Exception as e:
            serial.append('raised ' + type(e).__name__)
    nthreads = 16 if ctx.thorough() else 8
    old = sys.getswitchinterval()
    sys.setswitchinterval(1e-6)
    results = [dict() for _ in range(nthreads)]
    try:
        def worker(t):
            order = list(range(len(jobs)))
            import random
            random.Random(ctx.seed * 100 + t).shuffle(order)
            for j in order + order[::-1]:
                try:
                    r = compute(jobs[j])
                    if j in results[t] and results[t][j] != r:
                        results[t][j] = 'UNSTABLE'
                        continue
                    results[t][j] = r
                except Exception as e:
                    results[t][j] = 'raised ' + type(e).__name__
        ths = [threading.Thread(target=worker, args=(t,)) for t in range(nthreads)]
        for th in ths: th.start()
        for th in ths: th.join()
        # a second phase in which every thread does nothing but the bulk (numpy) distance jobs, over and over: the window in which two
        # threads are inside that code at once is short, so it is visited often
        numeric = [j for j, job in enumerate(jobs) if job[0] == 'diff_io' and isinstance(job[1], list) and job[1] and all(type(x) in (int, float) for x in job[1])]

        def worker2(t):
            import random
            r_ = random.Random(ctx.seed * 977 + t)
            for _ in range(12 if ctx.thorough() else 6):
                order = list(numeric); r_.shuffle(order)
                for j in order:
                    try:
                        r = compute(jobs[j])
                    except Exception as e:
                        r = 'raised ' + type(e).__name__
                    if results[t].get(j) != r:
                        results[t][j] = 'UNSTABLE'
        ths = [threading.Thread(target=worker2, args=(t,)) for t in range(nthreads)]
        for th in ths: th.start()
        for th in ths: th.join()
    finally:
        sys.setswitchinterval(old)
    for t in range(nthreads):
        for j in range(len(jobs)):
            ctx.evaluations += 1
            if results[t].get(j) != serial[j]:
                ctx.violate({'t1': repr(jobs[j][1]), 't2': repr(jobs[j][2]), 'ignore_order': jobs[j][0] == 'diff_io', 'job': jobs[j][0], 'thread': t},
                            'a %s computation run concurrently gives a different result than alone' % jobs[j][0])
                break
    ctx.count('thread_jobs', nthreads * len(jobs))
    # ---- boundary witness F16
    def f16():
        a = [[[3, 3], [0, 3]]]; b = [[[2, 0, 2, 4]], [[4, 0, 2], [0, 2, 4], [4, 0, 1]]]
        r0 = canon(DeepDiff(a, b, ignore_order=True, cutoff_intersection_for_pairs=1, cache_size=0))
        r1 = canon(DeepDiff(a, b, ignore_order=True, cutoff_intersection_for_pairs=1, cache_size=5000))
        return r0 == r1
    def f61():
        a = [[0, [0], [1]], [[1]]]; b = [[[3, 1, 1, 2], 0], [[0], [3, 2, 1]], [[1]]]
        return canon(DeepDiff(a, b, ignore_order=True, cache_size=0)) == canon(DeepDiff(a, b, ignore_order=True, cache_size=5000))
    def f63():
        import numpy as np
        a = np.array([[3, 0, 3], [1, 5, 0]], dtype=np.uint8); b = np.array([[3, 0, 137], [3, 0, 3]], dtype=np.uint8)
        return (DeepDiff(a, b, ignore_order=True, cache_size=0, cache_tuning_sample_size=0).to_json() ==
                DeepDiff(a, b, ignore_order=True, cache_size=5000, cache_tuning_sample_size=0).to_json())
    for fid, fn in {'F16': f16, 'F61': f61, 'F63': f63}.items():
        ctx.evaluations += 1
        try:
            ok = fn()
        except Exception:
            ok = False
        if fid in findings:
            (ctx.known_not_reproduced if ok else ctx.known_reproduced).append(fid if ok else '%s: %s' % (fid, findings[fid]['what_fails']))
        elif not ok:
            ctx.violate({'witness': fid}, 'boundary witness %s fails and is not a listed finding' % fid)
    if ctx.build_ok and not impl_only and lines:
        ans = core.run_model(lines)
        for (case, a), m in zip(metas, ans):
            ctx.traces += 1
            if a != m:
                ctx.diverge(case, a[:300], m[:300], op='MEMO')


def search(ctx):
    c2 = core.Ctx(ctx.pid, 'thorough', ctx.seed + 1)
    c2.build_ok = False
    run(c2, impl_only=True)
    return c2.violations


def replay(ctx, payload):
    from deepdiff import DeepDiff
    ok = True
    for c in payload.get('cases', []):
        case = c['case']
        if 't1' not in case:
            print('  ', case, c.get('why')); ok = False; continue
        t1, t2 = eval(case['t1']), eval(case['t2'])
        io = case.get('ignore_order', True)
        ref = canon(DeepDiff(t1, t2, ignore_order=io, cache_size=0))
        kw = {k: case[k] for k in ('cache_size', 'cache_tuning_sample_size', 'cache_purge_level') if k in case}
        got = canon(DeepDiff(t1, t2, ignore_order=io, **kw))
        print('  ', case, '->', 'holds' if got == ref else 'FAILS')
        ok = ok and got == ref
    return ok
