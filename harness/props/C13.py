"""C13 — exclude_paths / exclude_regex_paths / include_paths act as pure filters."""
import re, copy
from .. import core, diffing as DF, hashing as HS
from ..gen import Gen
from ..pkl import enc_str
from ..wire import val_tokens, OutOfUniverse
from . import _difffam as FAM

ID = 'C13'
LEAN_TARGETS = ['Properties.C13']
THEOREMS = ['Diff.C13_exclude_is_filter', 'Diff.C13_exclude_is_filter_deepDiff', 'Diff.C13_nothing_below_excluded', 'Diff.C13_restriction_is_filter', 'Diff.C13_exclude_regex_is_filter', 'Diff.C13_exclude_regex_is_filter_deepDiff', 'Diff.C13_nothing_below_matched', 'Diff.C13_skip_exclude_only', 'Diff.C13_skip_prefix', 'Diff.C13_reported_not_skipped', 'Diff.C13_excluded_child_silent', 'Diff.C13_N_include_int_key', 'Diff.C13_N_threshold_leak']
RULE = ('pairs of nested values x every path that exists in either input (dictionary keys of the supported types and list indexes, every depth): in positional '
        'mode for arbitrary paths, in default alignment for dict-key paths; single paths and pairs of paths; exclude literally, exclude by anchored regex, include; '
        'threshold_to_diff_deeper=0. The restricted result is compared with the filtered unrestricted result on the implementation, and implementation vs Lean '
        'model under the same options. distinct = distinct (t1, t2, option, paths); non-trivial = the filter removes at least one entry and keeps at least one')
TRUSTED_BASE = ['the re module (only anchored prefix patterns ^escaped(\\[|$) are modelled)']
ASSUMPTIONS = ['threshold_to_diff_deeper = 0, or the default threshold on pairs none of whose dictionary levels is too different (finding F10b otherwise)', 'include_paths: paths of string keys and list indexes (finding F10a)',
               'keys do not contain both quote kinds or brackets (path prefix tests are textual)']


def all_paths(v, path='root', dict_only=True, str_only=True):
    """every path that exists in v (dict keys and list/tuple indexes) with the flags
    (made of dict keys only, every dict key on it is a str)"""
    out = []
    if isinstance(v, dict):
        for k, x in v.items():
            if isinstance(k, str):
                q = '"' if "'" in k else "'"          # the way DeepDiff itself reports such a key
                p, so = "%s[%s%s%s]" % (path, q, k, q), str_only
            elif k is None or isinstance(k, (bool, int, float)):
                p, so = '%s[%r]' % (path, k), False
            else:
                continue
            out.append((p, dict_only, so))
            out += all_paths(x, p, dict_only, so)
    elif isinstance(v, (list, tuple)):
        for i, x in enumerate(v):
            p = '%s[%d]' % (path, i)
            out.append((p, False, str_only))
            out += all_paths(x, p, False, str_only)
    return out


def at_or_below(q, p):
    return q == p or q.startswith(p + '[')


def above(q, p):
    return p.startswith(q + '[')


def entry_path(e):
    """path of a canonical entry string"""
    enc = e.split('|')[1]
    if enc == 'None':
        return None
    return ''.join(chr(int(x)) for x in enc.split('.')) if enc != '_' else ''


def levels_above_threshold(a, b, thr):
    """no pair of dictionaries met by the position-by-position comparison shares too few keys (len(shared) / len(union) < thr with more than one key)"""
    if isinstance(a, dict) and isinstance(b, dict):
        ka = [k for k in a if not (isinstance(k, str) and k.startswith('__'))]
        kb = [k for k in b if not (isinstance(k, str) and k.startswith('__'))]
        shared = [k for k in ka if k in b]
        union = len(set(ka) | set(kb))
        if union > 1 and len(shared) / union < thr:
            return False
        return all(levels_above_threshold(a[k], b[k], thr) for k in shared)
    if isinstance(a, (list, tuple)) and type(a) is type(b):
        return all(levels_above_threshold(x, y, thr) for x, y in zip(a, b))
    return True


def string_keys_only(p):
    return not re.search(r"\[(?!'|\d+\])", p) and not re.search(r"\[-?\d+\.", p)


def diffx_line(t1, t2, zip_, vb, ex=(), rx=(), inc=()):
    return 'DIFFX %s 0 1 T %d E %d %s R %d %s I %d %s %s %s' % (
        'T' if zip_ else 'F', vb, len(ex), ' '.join(map(enc_str, ex)), len(rx), ' '.join(map(enc_str, rx)), len(inc), ' '.join(map(enc_str, inc)),
        ' '.join(val_tokens(t1)), ' '.join(val_tokens(t2)))


def run(ctx, impl_only=False):
    from deepdiff import DeepDiff
    findings = {f['id']: f for f in core.load_findings(ID) if f.get('status') == 'open'}
    n = 500 if ctx.thorough() else 70
    keys = ['a', 'b', 'c', 'dd', 'k1', 'x y', 1, 2, 1.5, None, True, '1', '2', '1.5', 'None', "it's", 'say "x"', 1.0, 0.0, False, 2.0]
    pairs = FAM.gen_pairs(ctx, n, keys=keys, flat_share=0.15, equal_share=0.0)
    # dicts that hold a non-string key next to the string that spells it (1 / '1', None / 'None', 1.5 / '1.5')
    gk = Gen(ctx.rng, keys=['x', 'y'], max_depth=2, max_width=3)
    for _ in range(max(6, n // 6)):
        k = ctx.rng.choice([1, 2, 1.5, None, True])
        inner1 = {k: gk.container(2), str(k): gk.container(2), 'z': gk.scalar()}
        inner2 = {k: gk.edit(inner1[k]), str(k): gk.edit(inner1[str(k)]) if ctx.rng.random() < 0.5 else copy.deepcopy(inner1[str(k)]), 'z': inner1['z']}
        if ctx.rng.random() < 0.5:
            t1, t2 = {'slots': inner1, 'a': 0}, {'slots': inner2, 'a': 0}
        else:
            t1, t2 = inner1, inner2
        if FAM.in_universe(t1, t2):
            pairs.append((t1, t2))
    # one container object at several places of t1, and likewise of t2 (shared defaults, YAML anchors, deepcopy keeps the sharing): a path names one place
    def _shared():
        s1, s2 = {'port': 1, 'host': 'a'}, {'port': 2, 'host': 'a'}
        yield {'primary': s1, 'fallback': s1}, {'primary': s2, 'fallback': s2}
        r1, r2 = [1, 2, 3], [1, 5, 3]
        yield {'a': r1, 'b': r1, 'c': 0}, {'a': r2, 'b': r2, 'c': 0}
        d1, d2 = {'x': {'y': 1}}, {'x': {'y': 2}, 'z': 3}
        yield [d1, d1], [d2, d2]
        yield {'k1': {'a': s1}, 'dd': {'a': s1}}, {'k1': {'a': s2}, 'dd': {'a': s2}}
        yield {'a': r1, 'b': {'c': r1}}, {'a': r2, 'b': {'c': r2}}
    for (t1, t2) in _shared():
        pairs.append((t1, t2))
        pairs.append((copy.deepcopy(t1), copy.deepcopy(t2)))          # deepcopy keeps the sharing inside each value
    lines, metas = [], []
    for (t1, t2) in pairs:
        paths, strk = {}, {}
        for p, d, so in all_paths(t1) + all_paths(t2):
            paths[p] = paths.get(p, True) and d
            strk[p] = strk.get(p, True) and so
        plist = sorted(paths)
        if not plist:
            continue
        for zip_ in (True, False):
            base_kw = dict(zip_ordered_iterables=zip_, threshold_to_diff_deeper=0, verbose_level=2)
            try:
                full = DF.canon_text(DeepDiff(t1, t2, **base_kw), 2)
            except (OutOfUniverse, DF.BadDiffText):
                ctx.count('out_of_universe'); continue
            cand = [p for p in plist if zip_ or paths[p]]          # default alignment: dict-key paths only
            ctx.rng.shuffle(cand)
            chosen = [[p] for p in cand[: (12 if ctx.thorough() else 5)]]
            if len(cand) >= 2:
                chosen += [list(ctx.rng.sample(cand, 2)) for _ in range(3)]
            chosen.append(['root'])               # the depth-0 path: everything is at or below it, nothing is above it
            for ps in chosen:
                for mode in ('exclude', 'regex', 'include', 'mixed'):
                    if mode == 'mixed' and len(ps) < 2:
                        continue          # one path excluded literally, the other by regex, in the same call
                    if mode == 'include' and not all(strk.get(p, True) and '["' not in p for p in ps):
                        ctx.count('out_of_domain:include_nonstring_key'); continue
                    case = {'t1': repr(t1), 't2': repr(t2), 'zip': zip_, 'mode': mode, 'paths': ps}
                    ctx.evaluations += 1
                    kw = dict(base_kw)
                    # the documented short spelling of a top-level key (name for root['name']), for some paths of a set and not for others
                    def spell(p_):
                        m_ = re.fullmatch(r"root\['([A-Za-z][A-Za-z0-9 ]*)'\]", p_)
                        return m_.group(1) if (m_ and ctx.rng.random() < 0.35) else p_
                    if mode in ('exclude', 'include') and len(ps) >= 1:
                        sp = [spell(p_) for p_ in ps]
                        if sp != list(ps):
                            case = dict(case, spelled=sp)
                            ctx.count('bare_key_spelling')
                    else:
                        sp = list(ps)
                    if mode == 'exclude':
                        kw['exclude_paths'] = list(sp)
                        want = [e for e in full if not any(entry_path(e) is not None and at_or_below(entry_path(e), p) for p in ps)]
                    elif mode == 'regex':
                        kw['exclude_regex_paths'] = ['^' + re.escape(p) + r'(\[|$)' for p in ps]
                        want = [e for e in full if not any(entry_path(e) is not None and at_or_below(entry_path(e), p) for p in ps)]
                    elif mode == 'mixed':
                        kw['exclude_paths'] = [ps[0]]
                        kw['exclude_regex_paths'] = ['^' + re.escape(p) + r'(\[|$)' for p in ps[1:]]
                        want = [e for e in full if not any(entry_path(e) is not None and at_or_below(entry_path(e), p) for p in ps)]
                    else:
                        kw['include_paths'] = list(sp)
                        want = [e for e in full if any(entry_path(e) is not None and (at_or_below(entry_path(e), p) or above(entry_path(e), p) or entry_path(e) == 'root') for p in ps)]
                    try:
                        dd = DeepDiff(t1, t2, **kw)
                        got = DF.canon_text(dd, 2)
                    except (OutOfUniverse, DF.BadDiffText):
                        ctx.count('out_of_universe'); continue
                    except Exception as e:
                        ctx.violate(case, 'DeepDiff raised %s with the path option' % type(e).__name__); continue
                    ctx.count('mode:' + mode)
                    if 0 < len(want) < len(full):
                        ctx.nontriv((repr(t1), repr(t2), zip_, mode, tuple(ps)))
                    if got != want:
                        extra = [e for e in got if e not in want]
                        missing = [e for e in want if e not in got]
                        ctx.violate(case, '%s is not a pure filter: %d entries missing, %d extra (first: %s)' % (
                            mode, len(missing), len(extra), entry_path((missing + extra)[0])))
                    if not impl_only and FAM.in_universe(t1, t2):
                        try:
                            ex = ps if mode == 'exclude' else (ps[:1] if mode == 'mixed' else [])
                            rx = ps if mode == 'regex' else (ps[1:] if mode == 'mixed' else [])
                            inc = ps if mode == 'include' else []
                            lines.append(diffx_line(t1, t2, zip_, 2, ex, rx, inc))
                            metas.append((case, ('{}' if not got else ' '.join(got)) + ' OPS ' + ' '.join(DF.canon_ops(dd))))
                        except OutOfUniverse:
                            pass
        if len(ctx.samples) < 4:
            ctx.sample({'t1': repr(t1)[:100], 't2': repr(t2)[:100], 'paths': plist[:5]})
    # ---- several regular expressions in one call, some precompiled with their own flags: each keeps its own meaning
    for _ in range(max(8, n // 8)):
        ks = ['Name', 'name', 'Tag', 'tag', 'x', 'NAME']
        d1 = {k: ctx.rng.choice([0, 1, 'u', 'v']) for k in ctx.rng.sample(ks, ctx.rng.randint(3, 6))}
        d2 = {k: (v if ctx.rng.random() < 0.3 else ctx.rng.choice([5, 6, 'w'])) for k, v in d1.items()}
        for k in ctx.rng.sample(ks, 2):
            d2.setdefault(k, 9)
        if ctx.rng.random() < 0.4:
            t1, t2 = {'rows': [d1, {'Name': 1}], 'meta': {'Tag': 1, 'tag': 2}}, {'rows': [d2, {'Name': 2}], 'meta': {'Tag': 3, 'tag': 4}}
        else:
            t1, t2 = d1, d2
        pats = [re.compile(r"\['name'\]", re.IGNORECASE), r"\['Tag'\]", re.compile(r"\['x'\]$"), r"\['NAME'\]"]
        for zip_ in (True, False):
            base_kw = dict(zip_ordered_iterables=zip_, threshold_to_diff_deeper=0, verbose_level=2)
            try:
                full = DF.canon_text(DeepDiff(t1, t2, **base_kw), 2)
            except (OutOfUniverse, DF.BadDiffText):
                continue
            for r_ in range(3):
                chosen = ctx.rng.sample(pats, ctx.rng.randint(2, 3))
                rx = [re.compile(c) if isinstance(c, str) else c for c in chosen]
                want = [e for e in full if not (entry_path(e) is not None and any(r.search(entry_path(e)) for r in rx))]
                case = {'t1': repr(t1), 't2': repr(t2), 'zip': zip_, 'mode': 'regex-set', 'paths': [getattr(c, 'pattern', c) + ('/i' if getattr(c, 'flags', 0) & re.IGNORECASE else '') for c in chosen]}
                ctx.evaluations += 1
                try:
                    got = DF.canon_text(DeepDiff(t1, t2, exclude_regex_paths=list(chosen), **base_kw), 2)
                except (OutOfUniverse, DF.BadDiffText):
                    continue
                except Exception as e:
                    ctx.violate(case, 'DeepDiff raised %s with several regular expressions' % type(e).__name__); continue
                ctx.count('mode:regex-set')
                if got != want:
                    extra = [e for e in got if e not in want]; missing = [e for e in want if e not in got]
                    ctx.violate(case, 'a set of regular expressions is not the union of its members: %d entries missing, %d extra (first: %s)' % (
                        len(missing), len(extra), entry_path((missing + extra)[0])))
    # ---- the default threshold, on pairs where no dictionary level of the unrestricted comparison is "too different" (there the shortcut is
    #      finding F10b): excluding a path can only raise the key overlap, so the filter equation must hold
    low = []
    for _ in range(max(12, n // 5)):
        # dictionaries that share few keys, just above the threshold: 2 of 5, 2 of 6, 3 of 8, 1 of 3
        ns, no = ctx.rng.choice([(2, 3), (2, 4), (3, 5), (1, 2), (3, 6)])
        ks = ctx.rng.sample(['a', 'b', 'c', 'dd', 'k1', 'x y', 'id', 'name', 'p', 'q', 'r', 's', 't'], ns + no)
        shared, rest = ks[:ns], ks[ns:]
        cut = ctx.rng.randint(0, len(rest))
        vals = [0, 1, 'x', 'y', 2.5, None, [1, 2], {'z': 1}]
        d1 = {k: ctx.rng.choice(vals) for k in shared + rest[:cut]}
        d2 = {k: (d1[k] if ctx.rng.random() < 0.5 else ctx.rng.choice(vals)) for k in shared}
        d2.update({k: ctx.rng.choice(vals) for k in rest[cut:]})
        if ctx.rng.random() < 0.4:
            d1, d2 = {'w': d1, 'v': 1}, {'w': d2, 'v': 1}
        low.append((d1, d2))
    for (t1, t2) in low + pairs[: max(20, len(pairs) // 2)]:
        if not levels_above_threshold(t1, t2, 0.33):
            ctx.count('default_threshold_out_of_domain'); continue
        paths = {}
        for p, d, so in all_paths(t1) + all_paths(t2):
            paths[p] = paths.get(p, True) and d
        cand = [p for p in sorted(paths) if paths[p]]
        if not cand:
            continue
        base_kw = dict(zip_ordered_iterables=True, verbose_level=2)
        try:
            full = DF.canon_text(DeepDiff(t1, t2, **base_kw), 2)
        except (OutOfUniverse, DF.BadDiffText):
            continue
        for p in ctx.rng.sample(cand, min(len(cand), 6 if ctx.thorough() else 4)):
            for mode in ('exclude', 'regex'):
                case = {'t1': repr(t1), 't2': repr(t2), 'zip': True, 'mode': mode, 'paths': [p], 'threshold': 'default'}
                ctx.evaluations += 1
                kw = dict(base_kw)
                if mode == 'exclude':
                    kw['exclude_paths'] = [p]
                else:
                    kw['exclude_regex_paths'] = ['^' + re.escape(p) + r'(\[|$)']
                want = [e for e in full if not (entry_path(e) is not None and at_or_below(entry_path(e), p))]
                try:
                    got = DF.canon_text(DeepDiff(t1, t2, **kw), 2)
                except (OutOfUniverse, DF.BadDiffText):
                    continue
                except Exception as e:
                    ctx.violate(case, 'DeepDiff raised %s with the path option' % type(e).__name__); continue
                ctx.count('default_threshold:' + mode)
                if got != want:
                    extra = [e for e in got if e not in want]
                    missing = [e for e in want if e not in got]
                    ctx.violate(case, '%s is not a pure filter at the default threshold: %d entries missing, %d extra (first: %s)' % (
                        mode, len(missing), len(extra), entry_path((missing + extra)[0])))
    if ctx.build_ok and not impl_only and lines:
        ans = core.run_model(lines)
        for (case, a), m in zip(metas, ans):
            ctx.traces += 1
            if a != m:
                sa, sm = set(a.split(' ')), set(m.split(' '))
                ctx.diverge(case, 'only-impl: ' + ' '.join(sorted(sa - sm))[:400], 'only-model: ' + ' '.join(sorted(sm - sa))[:400], op='DIFFX')
    # ---- boundary witnesses
    def f10a():
        d = DeepDiff({1: {'x': 1}, 'a': 5}, {1: {'x': 2}, 'a': 6}, include_paths=['root[1]'], threshold_to_diff_deeper=0)
        return 'values_changed' in d and "root[1]['x']" in d['values_changed']
    def f10b():
        t1 = {}; t2 = {'dd': [1, 2, 3], 'c': ''}
        full = DeepDiff(t1, t2)
        rest = DeepDiff(t1, t2, exclude_paths=["root['dd']"])
        keep = {c: ({k: v for k, v in b.items() if not at_or_below(k, "root['dd']")} if isinstance(b, dict) else [k for k in b if not at_or_below(k, "root['dd']")]) for c, b in full.items()}
        keep = {c: b for c, b in keep.items() if b}
        return DF.canon_text(rest, 1) == DF.canon_text(keep, 1)
    def f10c():
        d = DeepDiff({"it's": {'x': 1}, 'a': 5}, {"it's": {'x': 2}, 'a': 6}, include_paths=['root["it\'s"]'], threshold_to_diff_deeper=0)
        return 'values_changed' in d and any('x' in k for k in d['values_changed'])
    def f59():
        # a location whose path has no string form (a non-finite float key, a UUID key) under every kind of restriction: nothing raises, and an
        # exclusion that cannot name the location leaves its entry in place
        import uuid, logging
        logging.disable(logging.CRITICAL)
        try:
            ok = True
            for key in (float('inf'), uuid.UUID(int=1)):
                t1, t2 = {key: 1, 'a': {'b': 1}}, {key: 2, 'a': {'b': 2}}
                for kw in (dict(exclude_regex_paths=[r"\['b'\]$"]), dict(exclude_regex_paths=[re.compile('zzz')]), dict(exclude_paths=["root['a']"]), dict(include_paths=["root['a']"])):
                    d = DeepDiff(t1, t2, threshold_to_diff_deeper=0, **kw)
                    if 'include_paths' not in kw and None not in d.get('values_changed', {}):
                        ok = False
                    if 'include_paths' in kw and "root['a']['b']" not in d.get('values_changed', {}):
                        ok = False
            return ok
        finally:
            logging.disable(logging.NOTSET)
    for fid, fn in {'F10a': f10a, 'F10b': f10b, 'F10c': f10c, 'F59': f59}.items():
        ctx.evaluations += 1
        try:
            ok = fn()
        except Exception:
            ok = False
        if fid in findings:
            (ctx.known_not_reproduced if ok else ctx.known_reproduced).append(fid if ok else '%s: %s' % (fid, findings[fid]['what_fails']))
        elif not ok:
            ctx.violate({'witness': fid}, 'boundary witness %s fails and is not a listed finding' % fid)


def search(ctx):
    c2 = core.Ctx(ctx.pid, 'thorough', ctx.seed + 1)
    c2.build_ok = False
    run(c2, impl_only=True)
    return c2.violations


def replay(ctx, payload):
    from deepdiff import DeepDiff
    ok = True
    for c in payload.get('cases', []):
        case = c['case']
        if 't1' not in case:
            print('  ', case); ok = False; continue
        t1, t2, ps, mode = eval(case['t1']), eval(case['t2']), case['paths'], case['mode']
        base_kw = dict(zip_ordered_iterables=case['zip'], threshold_to_diff_deeper=0, verbose_level=2)
        full = DF.canon_text(DeepDiff(t1, t2, **base_kw), 2)
        kw = dict(base_kw)
        if mode == 'include':
            kw['include_paths'] = ps
            want = [e for e in full if any(entry_path(e) is not None and (at_or_below(entry_path(e), p) or above(entry_path(e), p) or entry_path(e) == 'root') for p in ps)]
        else:
            if mode == 'exclude':
                kw['exclude_paths'] = ps
            else:
                kw['exclude_regex_paths'] = ['^' + re.escape(p) + r'(\[|$)' for p in ps]
            want = [e for e in full if not any(entry_path(e) is not None and at_or_below(entry_path(e), p) for p in ps)]
        good = DF.canon_text(DeepDiff(t1, t2, **kw), 2) == want
        print('  ', case, '->', 'holds' if good else 'FAILS')
        ok = ok and good
    return ok
