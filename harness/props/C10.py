"""C10 — tree view, text view, to_dict, to_json and pretty() describe the same changes."""
import json, copy
import datetime as _dt
from .. import core, diffing as DF, hashing as HS
from ..gen import Gen, strict_eq
from ..wire import OutOfUniverse
from . import _difffam as FAM

ID = 'C10'
LEAN_TARGETS = ['Properties.C10']
THEOREMS = ['Diff.C10_entry_visible', 'Diff.C10_text_of_tree', 'Diff.C10_text_verbose2_total', 'Diff.C10_payload', 'Diff.C10_levels', 'Diff.C10_pretty_count']
RULE = ('pairs of nested values x ignore_order in {False,True} x report_repetition x verbose_level in {0,1,2}: the real tree is walked (object identity of every '
        "node's t1/t2 with the input sub-objects, up/down symmetry, root holds the originals), tree and text views are compared entry by entry through the documented "
        'visibility table, to_dict(view_override) both ways, json.loads(to_json()) categories and paths, pretty() statements counted with a sentinel prefix; the '
        'text view is compared with the Lean model (ordered mode). distinct = distinct (t1, t2, config); non-trivial = the diff is non-empty')
TRUSTED_BASE = ['object identity and up/down pointers are heap facts: checked as the abstraction from the heap to the model level list, not proved',
                'JSON text validity rests on the json module (checked by json.loads on every case)']
ASSUMPTIONS = ['visibility: values_changed needs verbose_level >= 1, iterable_item_moved needs 2, set items are reported at the set path (documented behaviour)',
               'the ignore_order rows are compared on the implementation only until the ignore-order model is registered']

SENT = '⁣STMT⁣'


def same_digest(a, b):
    from deepdiff import DeepHash
    try:
        return DeepHash(a)[a] == DeepHash(b)[b]
    except Exception:
        return False


def walk_checks(ctx, case, t1, t2, tree):
    """every node: t1/t2 are the sub-objects of the inputs; up/down consistent; root holds originals"""
    from deepdiff.helper import notpresent
    n = 0
    for cat, levels in tree.items():
        if cat == 'deep_distance' or not hasattr(levels, '__iter__'):
            continue
        for leaf in levels:
            n += 1
            root = leaf.all_up
            if root.t1 is not t1 or root.t2 is not t2:
                ctx.violate(case, '%s: walking up does not reach a root holding the original t1/t2' % cat); continue
            lv = root
            seen = 0
            while lv is not None:
                seen += 1
                if lv.down is not None:
                    if lv.down.up is not lv:
                        ctx.violate(case, '%s %s: down.up is not the node itself' % (cat, leaf.path())); break
                    d = lv.down
                    for side, rel, child, parent in (('t1', lv.t1_child_rel, d.t1, lv.t1), ('t2', lv.t2_child_rel, d.t2, lv.t2)):
                        if child is notpresent:
                            continue
                        if rel is None:
                            # an added+removed pair folded into values_changed keeps only the t1-side relationship:
                            # the child must still be an actual item of the parent
                            ok_member = (isinstance(parent, dict) and any(x is child for x in parent.values())) or \
                                        (isinstance(parent, (list, tuple, set, frozenset)) and any(x is child for x in parent))
                            if not ok_member:
                                ctx.violate(case, '%s %s: %s child has no relationship and is not an item of the parent' % (cat, leaf.path(), side))
                            continue
                        if isinstance(child, _dt.datetime) and rel.parent is parent and rel.child is not child:
                            ctx.count('F42_region:datetime node replaced by its normalised copy'); continue       # finding F42 (_diff_datetime overwrites level.t1 / level.t2)
                        if rel.parent is not parent or rel.child is not child:
                            ctx.violate(case, '%s %s: %s relationship does not link parent and child objects' % (cat, leaf.path(), side)); continue
                        # the child really is parent[param] (dicts, lists, tuples); set members by membership
                        try:
                            if cat == 'repetition_change' and isinstance(parent, (list, tuple)):
                                # both relationships carry the t1 index; the t2 object sits at one of the new indexes
                                if not any(x is child for x in parent):
                                    ctx.violate(case, '%s %s: %s node is not an item of the parent' % (cat, leaf.path(), side))
                            elif isinstance(parent, (dict, list, tuple)):
                                at = parent[rel.param]
                                # with repeated items the order-ignoring diff reports every index with the first equal object
                                # (the first one: the representative of a group never comes from a later index); the group is formed by digest, so under
                                # ignore_order the representative can also be a permutation of the item that sits there (finding F51)
                                earlier = isinstance(parent, (list, tuple)) and isinstance(rel.param, int) and any(x is child for x in parent[:rel.param + 1])
                                dup_ok = earlier and strict_eq(at, child)
                                if earlier and not dup_ok and case['cfg'].get('ignore_order') and same_digest(at, child):
                                    dup_ok = True
                                    ctx.count('F51_region:an index of a group reported with the value of its first member')
                                # report_repetition: an item repeated in t2 carries the t1 index on its t2-side relationship (by design:
                                # 'we want the child_relationship_param2 only if there is no repetition'); it is still an item of the parent
                                rep_ok = (side == 't2' and case['cfg'].get('report_repetition') and case['cfg'].get('ignore_order')
                                          and isinstance(parent, (list, tuple)) and any(x is child for x in parent)
                                          and sum(1 for x in parent if strict_eq(x, child)) >= 2)
                                if at is not child and not dup_ok and not rep_ok:
                                    ctx.violate(case, '%s %s: %s node is not the sub-object parent[%r]' % (cat, leaf.path(), side, rel.param))
                            elif isinstance(parent, (set, frozenset)):
                                if not any(x is child for x in parent):
                                    ctx.violate(case, '%s %s: %s node is not a member of the parent set' % (cat, leaf.path(), side))
                        except Exception as e:
                            ctx.violate(case, '%s %s: %s param %r does not index the parent (%s)' % (cat, leaf.path(), side, rel.param, type(e).__name__))
                if seen > 200:
                    ctx.violate(case, 'down chain does not terminate'); break
                if lv is leaf:
                    break
                lv = lv.down
            if lv is not leaf:
                ctx.violate(case, '%s: walking down from the root does not reach the reported node' % cat)
    return n


def report_types_ok(ctx, case, tree):
    """every node sits in the category its report_type names (pretty() words its statement by the report_type)"""
    for cat, levels in tree.items():
        if cat == 'deep_distance' or not hasattr(levels, '__iter__'):
            continue
        for lv in levels:
            if getattr(lv, 'report_type', cat) != cat:
                ctx.violate(case, 'a node of category %s carries report_type %r: pretty() describes it as another kind of change than the views list' % (cat, lv.report_type))
                return


def tree_snapshot(tree):
    """what the tree view says, node by node: category, path, the two objects and the additional record (repetition counts, ...)"""
    out = []
    for cat, levels in tree.items():
        if cat == 'deep_distance' or not hasattr(levels, '__iter__'):
            continue
        for lv in levels:
            add = lv.additional if isinstance(lv.additional, dict) else {}
            out.append((cat, lv.path(force='fake'), repr(lv.t1), repr(lv.t2), repr(sorted((str(k), repr(v)) for k, v in add.items()))))
    return sorted(out)


def tree_pairs(tree, verbose, io):
    """(category, path, payload) triples the tree view stands for, through the visibility table"""
    from deepdiff.helper import notpresent
    out = []
    for cat, levels in tree.items():
        if cat == 'deep_distance' or not hasattr(levels, '__iter__'):
            continue
        for lv in levels:
            if cat == 'values_changed' and verbose < 1:
                continue
            if cat == 'iterable_item_moved' and verbose < 2:
                continue
            if cat in ('set_item_added', 'set_item_removed'):
                item = lv.t2 if cat == 'set_item_added' else lv.t1
                shown = "'%s'" % item if isinstance(item, (str, bytes)) else str(item)
                out.append((cat, '%s[%s]' % (lv.up.path(), shown), None, None, None))
                continue
            t1v = None if lv.t1 is notpresent else lv.t1
            t2v = None if lv.t2 is notpresent else lv.t2
            np_ = lv.path(use_t2=True, force='fake')
            out.append((cat, lv.path(force='fake'), t1v, t2v, np_))
    return out


def text_pairs(text, verbose):
    out = []
    for cat, body in text.items():
        if cat == 'deep_distance':
            continue
        if cat in ('set_item_added', 'set_item_removed'):
            for s in body:
                out.append((cat, s, None, None, None))
        elif cat in ('values_changed', 'type_changes'):
            for p, d in body.items():
                out.append((cat, p, d.get('old_value'), d.get('new_value'), d.get('new_path')))
        elif cat == 'iterable_item_moved':
            for p, d in body.items():
                out.append((cat, p, None, d['value'], d['new_path']))
        elif cat == 'repetition_change':
            for p, d in body.items():
                out.append((cat, p, d['value'], None, None))
        elif isinstance(body, dict):
            for p, v in body.items():
                out.append((cat, p, v, v, None))
        else:
            for p in body:
                out.append((cat, p, None, None, None))
    return out


def agree(ctx, case, tree, text, verbose):
    tp = tree_pairs(tree, verbose, False)
    xp = text_pairs(text, verbose)
    a = sorted((c, str(p)) for c, p, *_ in tp)
    b = sorted((c, str(p)) for c, p, *_ in xp)
    if a != b:
        ctx.violate(case, 'tree and text views list different (category, path) pairs: tree-only %r, text-only %r' % (
            [x for x in a if x not in b][:3], [x for x in b if x not in a][:3]))
        return
    tmap = {(c, str(p)): (o, n, np_) for c, p, o, n, np_ in tp}
    for c, p, o, n, np_ in xp:
        to, tn, tnp = tmap[(c, str(p))]
        if c in ('values_changed', 'type_changes') and verbose >= 1:
            if c == 'type_changes' or True:
                if o is not None and not (o is to or strict_eq(o, to)):
                    ctx.violate(case, '%s %s: text old value %r, tree t1 %r' % (c, p, o, to))
                if n is not None and not (n is tn or strict_eq(n, tn)):
                    ctx.violate(case, '%s %s: text new value %r, tree t2 %r' % (c, p, n, tn))
            if verbose >= 2:
                want = tnp if tnp != p else None
                if np_ != want:
                    ctx.violate(case, '%s %s: text new_path %r, tree t2-side path %r' % (c, p, np_, tnp))
        elif c in ('iterable_item_added', 'dictionary_item_added') and o is not None:
            if not (o is tn or strict_eq(o, tn)):
                ctx.violate(case, '%s %s: text value %r, tree t2 %r' % (c, p, o, tn))
        elif c in ('iterable_item_removed', 'dictionary_item_removed') and o is not None:
            if not (o is to or strict_eq(o, to)):
                ctx.violate(case, '%s %s: text value %r, tree t1 %r' % (c, p, o, to))
        elif c == 'iterable_item_moved':
            if np_ != tnp or not (n is tn or strict_eq(n, tn)):
                ctx.violate(case, 'iterable_item_moved %s: text (%r, %r) vs tree (%r, %r)' % (p, np_, n, tnp, tn))


def jsonable(v):
    if v is None or isinstance(v, (bool, int, float, str)):
        return True
    if isinstance(v, (list, tuple, set)):         # frozenset is not in the documented JSON convertor table
        return all(jsonable(x) for x in v)
    if isinstance(v, dict):
        return all((k is None or isinstance(k, (str, int, float, bool))) and jsonable(x) for k, x in v.items())       # json turns such keys into strings
    return False


def run(ctx, impl_only=False):
    from deepdiff import DeepDiff
    n = 1200 if ctx.thorough() else 160
    pairs = FAM.gen_pairs(ctx, n, bytes_=False)
    pairs += FAM.rich_pairs(ctx, n // 5)
    pairs += FAM.hostile_pairs(ctx, n // 6)
    # flat sequences of scalars of every documented kind with two or three changes (both passes of the ordered comparison run),
    # and the same member entering / leaving two different sets
    leaves = FAM.rich_leaves()
    for _ in range(n // 4):
        xs = [copy.deepcopy(ctx.rng.choice(leaves)) for _ in range(ctx.rng.randint(3, 7))]
        xs = [x for x in xs if not isinstance(x, frozenset)]
        ys = list(xs)
        for _k in range(ctx.rng.randint(2, 3)):
            if ys:
                ys[ctx.rng.randrange(len(ys))] = copy.deepcopy(ctx.rng.choice([l for l in leaves if not isinstance(l, frozenset)]))
        w = ctx.rng.choice([lambda v: v, lambda v: tuple(v), lambda v: {'k': v, 'z': 1}, lambda v: [0, v]])
        pairs.append((w(xs), w(ys)))
    # a text and its UTF-8 bytes are two members of a set: two changes in every presentation
    pairs += [({'alpha'}, {'alpha', 'caf\u00e9', 'caf\u00e9'.encode(), 7}), ({'x', b'x', 1}, {1}), ({'k': frozenset({'a', b'a'})}, {'k': frozenset({'b', b'b'})}), ([{b'q', 'q', 'r'}, 0], [{'r'}, 0]),
              ({'s': {'n', b'n'}}, {'s': {'n'}})]
    pairs += [({'a': {1, 2}, 'b': {1, 2}}, {'a': {1, 2, 3}, 'b': {1, 2, 3}}), ({'a': {1, 2, 3}, 'b': {2, 3}}, {'a': {1, 2}, 'b': {2}}),
              ([{'x', 'y'}, {'x'}], [{'x', 'y', 'z'}, {'x', 'z'}]), ({'p': frozenset({1}), 'q': frozenset({1, 5})}, {'p': frozenset({1, 7}), 'q': frozenset({1, 5, 7})})]
    # one object referenced from several places of t1 (a set, a list, a dictionary): each place is changed differently in t2
    def aliased():
        s_ = {1, 2}; l_ = [1, 2, 3]; d_ = {'u': 1}; f_ = frozenset({1, 2})
        return [({'a': s_, 'b': s_}, {'a': {1, 2, 3}, 'b': {2, 4}}), ([s_, s_, 0], [{1}, {1, 2, 9}, 0]), ({'a': l_, 'b': l_}, {'a': [1, 2, 3, 4], 'b': [1, 5, 3]}),
                ({'a': d_, 'b': d_, 'c': [d_]}, {'a': {'u': 2}, 'b': {'u': 1, 'v': 3}, 'c': [{'u': 'x'}]}), ({'p': f_, 'q': [f_]}, {'p': frozenset({1, 2, 3}), 'q': [frozenset({2})]}),
                ({'a': {'in': s_}, 'b': {'in': s_}}, {'a': {'in': {1, 2, 5}}, 'b': {'in': {6}}})]
    pairs += aliased()
    # flat sequences in which something is inserted or deleted before a replaced chunk (the t1 and t2 indexes of the chunk differ), and
    # flat sequences of date-like leaves with several changes (both passes of the ordered comparison run)
    import datetime as _dtm
    d_, t_, td_ = _dtm.date, _dtm.time, _dtm.timedelta
    pairs += [([0, 1, 2, 3], [1, 2, 9, 8]), (['a', 'b', 'c'], ['x', 'a', 'b', 'q', 'r']), ([1, 2, 3, 4, 5, 6], [0, 1, 2, 9, 4, 5, 6, 7]), (('p', 'q', 'r', 's'), ('q', 'Z', 's', 't')),
              ({'k': [10, 20, 30, 40]}, {'k': [20, 30, 41]}), ([5, 6, 7, 8, 9], [6, 7, 'x', 'y', 9, 10]),
              ([d_(2020, 1, 1), 1, 'a', t_(1, 2, 3)], [d_(2020, 1, 2), 2, 'a', t_(1, 2, 4)]), ((td_(1), td_(2), 'k'), (td_(3), td_(2), 'j')),
              ([d_(2020, 1, 1), d_(2020, 1, 2), 5], [d_(2021, 1, 1), d_(2020, 1, 2), 6, 7]), ({'l': [t_(1, 0), 'x', t_(2, 0)]}, {'l': [t_(1, 1), 'y', t_(2, 0)]})]
    # items that the order-ignoring comparison puts in one group (equal digests) without being equal: permutations of one sub-list, sub-lists
    # that differ only in repetition; the group is removed, added, or paired with something else
    for _ in range(max(12, n // 8)):
        items = ctx.rng.sample([1, 2, 3, 'a', 'b', 5.5], ctx.rng.randint(2, 3))
        perm = list(items); ctx.rng.shuffle(perm)
        if perm == items:
            perm = items[::-1]
        variants = [list(items), perm, items + [items[0]]]
        grp = [copy.deepcopy(v) for v in ctx.rng.sample(variants, ctx.rng.randint(2, 3))]
        mk_ = ctx.rng.choice([list, tuple])
        grp = [mk_(v) for v in grp]
        rest = [ctx.rng.choice(['k', 7, None])]
        a = grp + rest
        c = ctx.rng.random()
        if c < 0.35:
            b = list(rest)
        elif c < 0.7:
            b = rest + [mk_(items + ['new'])]
        else:
            b = rest + [copy.deepcopy(grp[-1])]
        w = ctx.rng.choice([lambda v: v, lambda v: {'k': v, 'z': 1}, lambda v: [0, v]])
        pairs.append((w(a), w(b)) if ctx.rng.random() < 0.6 else (w(b), w(a)))
    reqs = []
    for (t1, t2) in pairs:
        for io, rep in ((False, False), (True, False), (True, True)):
            for vb in (0, 1, 2):
                kw = dict(ignore_order=io, report_repetition=rep, verbose_level=vb)
                case = {'t1': repr(t1), 't2': repr(t2), 'cfg': kw}
                ctx.evaluations += 1
                try:
                    tree = DeepDiff(t1, t2, view='tree', **kw)
                    text = DeepDiff(t1, t2, view='text', **kw)
                except Exception as e:
                    ctx.count('raised:' + type(e).__name__); continue
                if text or tree:
                    ctx.nontriv((repr(t1), repr(t2), io, rep, vb))
                ctx.count('io=%s' % io)
                before = tree_snapshot(tree)
                report_types_ok(ctx, case, tree)
                ctx.count('nodes', walk_checks(ctx, case, t1, t2, tree))
                agree(ctx, case, tree, text, vb)
                # to_dict(view_override) converts between the views
                try:
                    td = tree.to_dict(view_override='text')
                    if DF.canon_text(td, vb) != DF.canon_text(text, vb):
                        ctx.violate(case, "tree.to_dict(view_override='text') differs from the text view")
                    tt = text.to_dict(view_override='tree')
                    a = sorted((c, lv.path(force='fake')) for c, ls in tt.items() if hasattr(ls, '__iter__') and c != 'deep_distance' for lv in ls)
                    b = sorted((c, lv.path(force='fake')) for c, ls in tree.items() if hasattr(ls, '__iter__') and c != 'deep_distance' for lv in ls)
                    if a != b:
                        ctx.violate(case, "text.to_dict(view_override='tree') differs from the tree view")
                except OutOfUniverse:
                    ctx.count('out_of_universe')
                except Exception as e:
                    ctx.violate(case, 'to_dict raised %s' % type(e).__name__)
                # to_json
                if jsonable(t1) and jsonable(t2):
                    try:
                        js = json.loads(text.to_json())
                        want = {c: sorted(map(str, (b if not isinstance(b, dict) else b.keys()))) for c, b in text.items() if c != 'deep_distance'}
                        got = {c: sorted(map(str, (b if not isinstance(b, dict) else b.keys()))) for c, b in js.items() if c != 'deep_distance'}
                        if want != got:
                            ctx.violate(case, 'to_json categories/paths differ from the text view')
                        ctx.count('json')
                    except Exception as e:
                        ctx.violate(case, 'to_json is not valid JSON / raised %s' % type(e).__name__)
                # pretty: one statement per change
                try:
                    pr = text.pretty(prefix=SENT)
                    stm = pr.count(SENT)
                    changes = sum(len(ls) for c, ls in tree.items() if hasattr(ls, '__len__') and c != 'deep_distance')
                    if stm != changes:
                        ctx.violate(case, 'pretty() has %d statements for %d changes' % (stm, changes))
                    if vb >= 1:
                        in_text = sum(len(v) for c, v in text.items() if c != 'deep_distance' and hasattr(v, '__len__'))
                        if stm != in_text:
                            ctx.violate(case, 'pretty() has %d statements, the text view %d changes' % (stm, in_text))
                except Exception as e:
                    ctx.violate(case, 'pretty() raised %s' % type(e).__name__)
                # asking for the other presentations does not change the tree view, and the tree behind a text-view object is the same tree
                try:
                    jt_, pt_ = tree.to_json(), tree.pretty(prefix=SENT)
                    if jsonable(t1) and jsonable(t2):
                        # the JSON and the statements of a tree-view object are those of the text view
                        want_ = {c: sorted(map(str, (b if not isinstance(b, dict) else b.keys()))) for c, b in text.items() if c != 'deep_distance'}
                        got_ = {c: sorted(map(str, (b if not isinstance(b, dict) else b.keys()))) for c, b in json.loads(jt_).items() if c != 'deep_distance'}
                        if want_ != got_:
                            ctx.violate(case, 'to_json of the tree-view object differs from the text view: %r vs %r' % (got_, want_))
                        if pt_.count(SENT) != text.pretty(prefix=SENT).count(SENT):
                            ctx.violate(case, 'pretty() of the tree-view object has %d statements, of the text-view object %d' % (pt_.count(SENT), text.pretty(prefix=SENT).count(SENT)))
                except Exception as e:
                    if jsonable(t1) and jsonable(t2):
                        ctx.violate(case, 'to_json / pretty of the tree-view object raised %s: %s' % (type(e).__name__, str(e)[:80]))
                after = tree_snapshot(tree)
                if after != before:
                    ctx.violate(case, 'the tree view changed when the text / JSON / pretty presentations were produced: %r -> %r' % (
                        [x for x in before if x not in after][:2], [x for x in after if x not in before][:2]))
                try:
                    other = tree_snapshot(text.to_dict(view_override='tree'))
                    if other != before:
                        ctx.violate(case, "the tree nodes of text.to_dict(view_override='tree') differ from those of the tree view: %r vs %r" % (
                            [x for x in other if x not in before][:2], [x for x in before if x not in other][:2]))
                except Exception as e:
                    ctx.violate(case, "text.to_dict(view_override='tree') raised %s" % type(e).__name__)
                if not io and vb >= 1 and FAM.in_universe(t1, t2) and not impl_only:
                    reqs.append((case, t1, t2, False, 0.33, True, vb))
        if len(ctx.samples) < 4:
            ctx.sample({'t1': repr(t1)[:120], 't2': repr(t2)[:120]})
    table_types(ctx)
    def f42():
        import datetime as _dt
        b = _dt.datetime(2021, 5, 6)
        lv = DeepDiff([_dt.datetime(2020, 1, 1, 2, 3)], [b], view='tree')['values_changed'][0]
        return lv.t2 is b or lv.t2 == b
    def f51():
        t2 = [[3, 1, 'b'], [3, 1, 'b', 3], [1, 3, 'b'], 7]
        d = DeepDiff([7], t2, ignore_order=True, report_repetition=True)
        return all(t2[int(p[5:-1])] == v for p, v in d.get('iterable_item_added', {}).items())
    core.witnesses(ctx, ID, {'F42': f42, 'F51': f51})
    if not impl_only:
        FAM.compare_with_model(ctx, reqs)


def table_types(ctx):
    """the to_json / pretty / to_dict clauses over leaves of the types in the documented JSON convertor table"""
    import datetime, decimal, uuid, types, collections
    import numpy as np
    from deepdiff import DeepDiff
    pool = [decimal.Decimal('1.5'), decimal.Decimal('2'), decimal.Decimal('-0.25'), b'ab', b'cd', 'é'.encode(), datetime.datetime(2020, 1, 1, 2, 3), datetime.datetime(2021, 5, 6, tzinfo=datetime.timezone.utc),
            decimal.Decimal('Infinity'), decimal.Decimal('-Infinity'), decimal.Decimal('1E+2'), decimal.Decimal('100'), decimal.Decimal('0E-7'), float('inf'), float('-inf'), 10 ** 40,
            uuid.UUID(int=1), uuid.UUID(int=2), {1, 2}, {2, 3}, {'a'}, (1, 2), (1, 3), (), np.float32(1.5), np.float64(2.5), np.int32(3), np.int64(4), 1, 'a', None, 2.5, True,      # the table's 'type' entry serves old_type / new_type, classes as data are not claimed
            np.array([1, 2]), np.array([1, 3]), np.array([[1.5, 2.0], [0.0, 1.0]]),
            types.MappingProxyType({'m': 1}), types.MappingProxyType({'m': 2, 'n': [1]}), collections.OrderedDict(a=1), collections.UserDict({'a': 2}), collections.ChainMap({'a': 1}, {'b': 2}),
            collections.defaultdict(int, {'a': 1}), collections.Counter('aab')]      # the table's Mapping row: mappings by inheritance and by registration
    wraps = [lambda x: x, lambda x: [x, 0], lambda x: {'k': x, 'z': 1}, lambda x: {'k': [0, x]}, lambda x: (x, 'q')]
    n = 600 if ctx.thorough() else 120
    for _ in range(n):
        a, b = ctx.rng.choice(pool), ctx.rng.choice(pool)
        w = ctx.rng.choice(wraps)
        t1, t2 = w(a), w(b)
        for kw in (dict(), dict(verbose_level=2), dict(ignore_order=True, report_repetition=True)):
            case = {'t1': repr(t1), 't2': repr(t2), 'cfg': kw, 'clause': 'json convertor table types'}
            ctx.evaluations += 1
            try:
                text = DeepDiff(t1, t2, **kw)
                tree = DeepDiff(t1, t2, view='tree', **kw)
            except Exception as e:
                ctx.count('raised:' + type(e).__name__); continue
            if text:
                ctx.nontriv((repr(t1), repr(t2), repr(kw)))
            ctx.count('table_types')
            try:
                js = json.loads(text.to_json())
                want = {c: sorted(map(str, (v if not isinstance(v, dict) else v.keys()))) for c, v in text.items() if c != 'deep_distance'}
                got = {c: sorted(map(str, (v if not isinstance(v, dict) else v.keys()))) for c, v in js.items() if c != 'deep_distance'}
                if want != got:
                    ctx.violate(case, 'to_json categories/paths differ from the text view: %r vs %r' % (got, want))
            except Exception as e:
                ctx.violate(case, 'to_json is not valid JSON / raised %s: %s' % (type(e).__name__, str(e)[:80]))
            try:
                stm = text.pretty(prefix=SENT).count(SENT)
                changes = sum(len(ls) for c, ls in tree.items() if hasattr(ls, '__len__') and c != 'deep_distance')
                if stm != changes:
                    ctx.violate(case, 'pretty() has %d statements for %d changes' % (stm, changes))
            except Exception as e:
                ctx.violate(case, 'pretty() raised %s: %s' % (type(e).__name__, str(e)[:80]))
            try:
                a_ = sorted((c, str(p)) for c, v in tree.to_dict(view_override='text').items() if c != 'deep_distance' for p in (v if not isinstance(v, dict) else v.keys()))
                b_ = sorted((c, str(p)) for c, v in text.items() if c != 'deep_distance' for p in (v if not isinstance(v, dict) else v.keys()))
                if a_ != b_:
                    ctx.violate(case, "tree.to_dict(view_override='text') lists %r, the text view %r" % (a_, b_))
            except Exception as e:
                ctx.violate(case, 'to_dict raised %s: %s' % (type(e).__name__, str(e)[:80]))


def search(ctx):
    c2 = core.Ctx(ctx.pid, 'thorough', ctx.seed + 1)
    c2.build_ok = False
    run(c2, impl_only=True)
    return c2.violations


def replay(ctx, payload):
    from deepdiff import DeepDiff
    ok = True
    for c in payload.get('cases', []):
        case = c['case']
        t1, t2 = eval(case['t1']), eval(case['t2'])
        kw = case['cfg']
        c2 = core.Ctx('C10', 'quick', 0)
        tree = DeepDiff(t1, t2, view='tree', **kw); text = DeepDiff(t1, t2, view='text', **kw)
        walk_checks(c2, case, t1, t2, tree); agree(c2, case, tree, text, kw.get('verbose_level', 1))
        print('  ', case, '->', 'holds' if not c2.violations else 'FAILS: ' + c2.violations[0]['why'])
        ok = ok and not c2.violations
    return ok
