"""C05 — ignore_order: empty exactly when equal as nested sets / multisets, for all knobs."""
import copy, itertools
from .. import core, diffing as DF, hashing as HS, iodiff as IO
from ..gen import Gen, strict_eq
from ..wire import OutOfUniverse
from . import _difffam as FAM

ID = 'C05'
LEAN_TARGETS = ['Properties.C05']
THEOREMS = ['DiffIO.C05_verdict', 'DiffIO.C05_knob_independent', 'DiffIO.C05_iterable_level', 'DiffIO.C05_pairs_never_empty', 'DiffIO.C05_merge_keeps_emptiness']
RULE = ('pairs of nested values (dict, list, tuple, set of scalars; str/int/float/bool/None leaves): a value against shuffles, duplications, dropped duplicates, near-duplicates '
        '(one leaf edited) and random edits of itself at every depth x report_repetition x cutoff_distance_for_pairs in {0.1,0.3,0.6,1.0} x cutoff_intersection_for_pairs in '
        '{0,0.3,0.7,1.0} x max_passes in {0,1,2,10^7} x cache_size in {0,1,50,5000} x threshold_to_diff_deeper in {0,0.33,0.9,1}. The emptiness of '
        'DeepDiff(t1,t2,ignore_order=True,...) is compared with an independent nested set / multiset equality, and across knob settings for the same pair; the complete result '
        'is compared with the Lean model fed with the pairing decisions observed in the real run. distinct = distinct (t1, t2, report_repetition); non-trivial = t1 and t2 '
        'are not identical')
TRUSTED_BASE = ['the pairing decisions (rough distances, cutoffs, passes, distance cache) are observed in the real run and given to the model: the theorems hold for every pairing',
                'DeepHash digests: the driver uses its own SHA-256 (validated bit for bit in C06)']
ASSUMPTIONS = ['NoSpoof and NoNumAlias jointly over (t1, t2) (findings F5, F6, F18)', 'tree-shaped inputs; dict keys str/int/None without double underscore; set members scalars']

KNOBS = dict(cutoff_distance_for_pairs=[0, 0.1, 0.3, 0.6, 1.0], cutoff_intersection_for_pairs=[0, 0.3, 0.7, 1.0], max_passes=[0, 1, 2, 10000000],
             cache_size=[0, 1, 50, 5000], threshold_to_diff_deeper=[0, 0.33, 0.9, 1])


import re as _re
HEX = _re.compile(r'^[0-9a-f]{16,}$')


def same_leaf(a, b):
    return type(a) is type(b) and a == b


def strip_private(v):
    """the value as the default ignore_private_variables=True sees it: dictionary keys that start with a double underscore are not compared"""
    if isinstance(v, dict):
        return {k: strip_private(x) for k, x in v.items() if not (isinstance(k, str) and k.startswith('__'))}
    if isinstance(v, list):
        return [strip_private(x) for x in v]
    if isinstance(v, tuple):
        return tuple(strip_private(x) for x in v)
    return v


def nset_eq(a, b, rep):
    """equal as nested collections: lists/tuples as sets (rep False) or multisets (rep True)"""
    if type(a) is not type(b):
        return False
    if isinstance(a, dict):
        if len(a) != len(b):
            return False
        for k, v in a.items():
            hit = [k2 for k2 in b if same_leaf(k, k2) or (isinstance(k, tuple) and k == k2)]
            if not hit or not nset_eq(v, b[hit[0]], rep):
                return False
        return True
    if isinstance(a, (list, tuple)):
        if rep:
            rest = list(b)
            for x in a:
                for i, y in enumerate(rest):
                    if nset_eq(x, y, rep):
                        del rest[i]; break
                else:
                    return False
            return not rest
        return all(any(nset_eq(x, y, rep) for y in b) for x in a) and all(any(nset_eq(y, x, rep) for x in a) for y in b)
    if isinstance(a, (set, frozenset)):
        return len(a) == len(b) and all(any(same_leaf(x, y) for y in b) for x in a)
    return same_leaf(a, b)


def mutate(rng, g, v, depth=0):
    """shuffles, duplications, dropped duplicates, near-duplicates at every depth"""
    if isinstance(v, list):
        v = [mutate(rng, g, e, depth + 1) for e in v]
        r = rng.random()
        if r < 0.35:
            rng.shuffle(v)
        elif r < 0.5 and v:
            v.insert(rng.randint(0, len(v)), copy.deepcopy(rng.choice(v)))          # duplicate an item
        elif r < 0.6 and len(v) > 1:
            i = rng.randrange(len(v))
            if any(strict_eq(v[i], v[j]) for j in range(len(v)) if j != i):
                del v[i]                                                               # drop one copy of a duplicate
        elif r < 0.72 and v:
            i = rng.randrange(len(v))
            v.append(g.edit(copy.deepcopy(v[i])) if isinstance(v[i], (list, dict, tuple)) else g.scalar())   # a near-duplicate
        elif r < 0.8 and v:
            i = rng.randrange(len(v))
            v[i] = g.edit(v[i]) if isinstance(v[i], (list, dict, tuple)) else g.scalar()
        elif r < 0.9 and len(v) > 1:
            i, j = rng.sample(range(len(v)), 2)
            v[i] = copy.deepcopy(v[j])                                                 # same length, multiplicities shifted
        return v
    if isinstance(v, dict):
        return {k: mutate(rng, g, e, depth + 1) for k, e in v.items()}
    if isinstance(v, tuple):
        return tuple(mutate(rng, g, list(v), depth)) if rng.random() < 0.7 else v
    return v


def gen_pairs(ctx, n):
    g = Gen(ctx.rng, scalars=[0, 1, 2, 3, 5, 'a', 'b', 'ab', '', None, True, 1.5, 2.5], kinds=('list', 'tuple', 'dict', 'set'), keys=['a', 'b', 'c', 1, None],
            max_depth=3, max_width=4, p_leaf=0.45)
    gl = Gen(ctx.rng, scalars=[0, 1, 2, 3, 'a', 'b', None], kinds=('list',), keys=['a'], max_depth=3, max_width=4, p_leaf=0.4)
    out = []
    tries = 0
    while len(out) < n and tries < 10 * n:
        tries += 1
        x = (gl if ctx.rng.random() < 0.4 else g).container()
        r = ctx.rng.random()
        if r < 0.1:
            y = copy.deepcopy(x)
        elif r < 0.8:
            y = mutate(ctx.rng, g, copy.deepcopy(x))
        else:
            y = g.edits(x, ctx.rng.randint(1, 2))
        if FAM.in_universe(x, y) and not any(isinstance(k, str) and k.startswith('__') for k in ()):
            out.append((x, y))
    # items at one index that are == but of different types, left unpaired by some knob settings; a set against the frozenset of the same members
    for (x, y) in [([5, 1], [5, True]), ([0, 'a'], [False, 'a']), ([{1}], [frozenset({1})]), ([5, {1, 2}], [5, frozenset({1, 2})]), ({'k': [3, 1]}, {'k': [3, True]}),
                   ([1, 2, 3], [True, 2, 3]),
                   # text leaves that differ only in what a lenient comparison could drop: a byte order mark, surrounding white space, letter case, a NUL
                   ([b'\xef\xbb\xbfabc', 1, 2], [2, 1, b'abc']), ([b'\xef\xbb\xbf', 0], [0, b'']), ([[b'\xef\xbb\xbfk'], 'z'], ['z', [b'k']]),
                   ([{'t': b'\xef\xbb\xbfabc'}, 5], [5, {'t': b'abc'}]), (['\ufeffabc', 1], [1, 'abc']), ([' a', 1], [1, 'a']), (['a\n', 1], [1, 'a']),
                   (['A', 1], [1, 'a']), ([b'abc\x00', 1], [1, b'abc'])]:          # not tuples such as (1, 2) / (True, 2): they are == and share one entry of the hashes table (NoNumAlias)
        out.append((x, y))
    # a dictionary inside an order-ignored list whose later value holds the very object that is an earlier key's value (small ints, interned
    # strings, None): dropping or changing that inner member is a difference
    for _ in range(max(6, n // 8)):
        v = ctx.rng.choice([1, 2, 'a', None, 0])
        w = ctx.rng.choice([3, 5, 'b', 'ab'])
        d1 = {'a': v, 'b': [v, w], 'c': {'k': v}}
        d2 = copy.deepcopy(d1)
        r = ctx.rng.random()
        if r < 0.4:
            d2['b'] = [w]
        elif r < 0.7:
            d2['b'] = [w, w]
        else:
            d2['c'] = {'k': w}
        other = ctx.rng.choice([[7], {'z': 9}, 'q'])
        x, y = [d1, other], [other, d2]
        if FAM.in_universe(x, y):
            out.append((x, y))
    # equal dictionaries whose keys have one digest (tuples that are permutations of each other), listed in another insertion order, as items of
    # an order-ignored list: equal as nested sets whatever the knobs (implementation only: tuple keys are outside the path model)
    for (ka, kb) in [((1, 2), (2, 1)), (('a', 'b'), ('b', 'a')), ((1, 2, 3), (3, 1, 2)), ((0, (1, 2)), ((2, 1), 0))]:
        d1 = {ka: 'a', kb: 'b', 'z': 1}
        d2 = {kb: 'b', 'z': 1, ka: 'a'}
        fill = ctx.rng.choice([[7], ['q', 3], []])
        w = ctx.rng.choice([lambda v: v, lambda v: {'rows': v}, lambda v: [v, 0]])
        out.append((w([d1] + fill), w(list(reversed(fill)) + [d2])))
        out.append((w([d1, {ka: 'x'}]), w([{ka: 'x'}, d2])))
    # an item that moves from one list to a sibling list (the same items are added in one place and removed in the other)
    for _ in range(max(6, n // 12)):
        a_, b_, c_ = ctx.rng.sample(range(10, 99), 3)
        base_x = [ctx.rng.randint(1, 9) for _ in range(2)]; base_y = [ctx.rng.randint(1, 9) for _ in range(2)]
        x = {'x': [a_] + base_x, 'y': [b_, a_] + base_y}
        y = {'x': [c_, b_] + base_x, 'y': [c_] + base_y}
        w = ctx.rng.choice([lambda v: v, lambda v: [v, 0], lambda v: {'k': v}])
        if FAM.in_universe(x, y):
            out.append((w(x), w(y)))
    out.append(({'x': [10, 1, 2], 'y': [11, 10, 3, 4]}, {'x': [50, 11, 1, 2], 'y': [50, 3, 4]}))
    # dictionaries compared by digest (items of a list) whose difference sits under a falsy key: 0, '', None, False, 0.0, ()
    for fk in [0, '', None, False, 0.0, ()]:
        for kind in range(3):
            d1 = {fk: 1, 'k': 'v'}
            d2 = {fk: 2, 'k': 'v'} if kind == 0 else ({'k': 'v'} if kind == 1 else {fk: [1, {fk: 'deep'}], 'k': 'v'})
            if kind == 2:
                d1 = {fk: [1, {fk: 'other'}], 'k': 'v'}
            fill = ctx.rng.choice([[7], ['z', 3], []])
            w = ctx.rng.choice([lambda v: v, lambda v: {'rows': v}, lambda v: [v, 0]])
            x, y = w([d1] + fill), w(list(reversed(fill)) + [d2])
            if FAM.in_universe(x, y):
                out.append((x, y))
    # dictionaries inside order-ignored lists that differ only under double-underscore keys (not compared by default), or also elsewhere
    for _ in range(max(8, n // 10)):
        base = {'name': ctx.rng.choice(['a', 'b']), 'n': ctx.rng.randint(0, 3), '__typename': 'T', '__id': ctx.rng.randint(1, 5)}
        other = dict(base, __id=base['__id'] + 1, __extra=[1, 2])
        if ctx.rng.random() < 0.35:
            other['n'] = base['n'] + 1
        fill = [ctx.rng.choice([1, 'z', (1, 2), {'q': 1}]) for _ in range(ctx.rng.randint(0, 2))]
        x, y = [base] + fill, list(reversed(fill)) + [other]
        w = ctx.rng.choice([lambda v: v, lambda v: {'rows': v}, lambda v: [v, 0]])
        out.append((w(x), w(y)))
    # leaves of other hashable types (UUID, Decimal, date, complex are leaves of "nested values" too; outside the model universe: implementation only)
    import uuid as _uuid, decimal as _dc, datetime as _dtm
    odd = [_uuid.UUID(int=1), _uuid.UUID(int=2), _uuid.UUID(int=3), _dc.Decimal('1.5'), _dc.Decimal('2.5'), _dtm.date(2020, 1, 1), _dtm.date(2020, 1, 2), 5, 'a']
    for _ in range(max(8, n // 10)):
        xs = ctx.rng.sample(odd, ctx.rng.randint(2, 4))
        ys = list(xs)
        c = ctx.rng.random()
        if c < 0.3:
            ctx.rng.shuffle(ys)
        elif c < 0.6:
            ys[ctx.rng.randrange(len(ys))] = ctx.rng.choice(odd); ctx.rng.shuffle(ys)
        elif c < 0.8:
            ys = ys[1:]
        else:
            ys = ys + [ys[0]]
        w = ctx.rng.choice([lambda v: v, lambda v: [{'id': e} for e in v], lambda v: {'k': v}, lambda v: (v, 1)])
        out.append((w(xs), w(ys)))
    out += FAM.hostile_pairs(ctx, max(10, n // 6))        # hostile keys, edge-case leaves, shared sub-objects (implementation only)
    # the second value refers to objects of the first (no cycle: an old record kept inside the new one, a sub-container shared by identity)
    for _ in range(max(8, n // 10)):
        old_ = {'name': ctx.rng.choice(['cfg', 'x']), 'base': ctx.rng.choice([None, 1, [1]]), 'items': [ctx.rng.choice([1, 2]), [3]]}
        new_ = dict(old_)                       # shallow: 'items' is the very same list
        r = ctx.rng.random()
        if r < 0.4:
            new_['base'] = old_
        elif r < 0.7:
            new_['base'] = old_['items']
        else:
            new_['items'] = [old_['items'], old_]
        w = ctx.rng.choice([lambda a, b: (a, b), lambda a, b: ([a, 7], [7, b]), lambda a, b: ({'k': a}, {'k': b}), lambda a, b: ([[a], 0], [0, [b]])])
        x, y = w(old_, new_)
        out.append((x, y))
        if FAM.in_universe(copy.deepcopy(x), copy.deepcopy(y)) and ctx.rng.random() < 0.5:
            out.append((y, x))
    # items that hold the same leaves grouped differently (nestings that flatten to one sequence), as items of an order-ignored list
    flat = [([[1, [2]]], [[1], [2]]), ([[['b'], 'a']], [[['b']], 'a']), ([[1, 2]], [[1], 2]), ([[[1]], 2], [[1, [2]]]), ([[1, [2, 3]]], [[1, [2], 3]]), ([[[1, 2]]], [[[1], [2]]]),
            ([['a', ['b', ['c']]]], [['a', ['b'], ['c']]]), ([[1, []]], [[1], []]), ([[[], 1]], [[[1]]]), ([(1, (2,))], [(1,), (2,)]), ([[1, (2,)]], [[1], (2,)]),
            ([{'k': [1, [2]]}], [{'k': [[1], [2]]}]), ([[None, [None]]], [[None], [None]]), ([['ab']], [['a', 'b']]), ([['a', 'b']], [['a'], ['b']])]
    for (x, y) in flat:
        w = ctx.rng.choice([lambda v: v, lambda v: v + [9], lambda v: {'a': v}, lambda v: [v, 'q']])
        x2, y2 = w(copy.deepcopy(x)), w(copy.deepcopy(y))
        if FAM.in_universe(x2, y2):
            out.append((x2, y2))
    # lists of numbers of one type with several unmatched items on both sides (the pairing distances of such lists are computed in bulk),
    # over magnitudes up to and beyond the machine word and the float range
    import math as _math
    near = [(0.1 + 0.2, 0.3), (1.1 + 2.2, 3.3), (0.1, _math.nextafter(0.1, 1)), (1e16, 1e16 + 2), (2.5, _math.nextafter(2.5, 0)), (5e-324, 1e-323)]
    for (fa, fb) in near:
        for w in (lambda v: [v, 'x', 1], lambda v: [[v], ['y']], lambda v: [{'k': v}, 5], lambda v: {'l': [(v, 1), 'z']}, lambda v: [v, v, 2]):
            x, y = w(fa), w(fb)
            out.append((x, y) if FAM.in_universe(x, y) else (x, y))
    big = [2 ** 70, 2 ** 71, 2 ** 70 + 1, 2 ** 71 + 1, -2 ** 70, 2 ** 63, 2 ** 63 - 1, -2 ** 63 - 1, 2 ** 53 + 1, 10 ** 30, 5, 6, 0, -7]
    bigc = [1 + 2j, 1 + 3j, 2j, 5j, -1 - 2j, 0j, 1e200 + 1j, 3 + 0j, 4.5 - 1j]        # complex leaves: outside the model universe, implementation only
    bigf = [1e308, 1.5e308, -1e308, 1e-320, 5e-324, 2.5, 0.0, 1e200, 1.0000001e200]
    for _ in range(max(8, n // 10)):
        r_ = ctx.rng.random()
        pool_ = big if r_ < 0.5 else bigf if r_ < 0.75 else bigc
        k = ctx.rng.randint(2, 4)
        keep = ctx.rng.sample(pool_, ctx.rng.randint(0, 2))
        x = keep + ctx.rng.sample(pool_, k)
        y = ctx.rng.sample(pool_, ctx.rng.randint(2, 4)) + keep
        ctx.rng.shuffle(y)
        w = ctx.rng.choice([lambda v: v, lambda v: {'a': v}, lambda v: [v, 'q']])
        x, y = w(x), w(y)
        if FAM.in_universe(x, y) or pool_ is bigc:
            out.append((x, y))
    # same support, same length, different multiplicities (and the same lists nested one level down)
    pool = [0, 1, 2, 'a', 'b', None, 1.5, (1, 2), [3], {'k': 1}]
    for _ in range(max(6, n // 6)):
        sup = ctx.rng.sample(pool, ctx.rng.randint(2, 4))
        total = len(sup) + ctx.rng.randint(1, 3)
        def multiset():
            l = [copy.deepcopy(x) for x in sup] + [copy.deepcopy(ctx.rng.choice(sup)) for _ in range(total - len(sup))]
            ctx.rng.shuffle(l)
            return l
        x, y = multiset(), multiset()
        w = ctx.rng.choice([lambda v: v, lambda v: {'a': v, 'b': 1}, lambda v: [v, [0]], lambda v: (v,)])
        x, y = w(x), w(y)
        if FAM.in_universe(x, y):
            out.append((x, y))
    # instants (aware datetimes, in several offsets, with and without a sub-second part) inside order-ignored lists: == decides
    import datetime as _dt
    tz = lambda h, m=0: _dt.timezone(_dt.timedelta(hours=h, minutes=m))
    D0 = _dt.datetime(2021, 3, 4, 12, 30, 15, tzinfo=tz(0))
    stamps = [D0, D0.replace(microsecond=1), D0.replace(microsecond=999999), D0.replace(microsecond=500000), D0.astimezone(tz(5, 30)), D0.replace(microsecond=1).astimezone(tz(-8)),
              D0.replace(second=16), _dt.datetime(2021, 3, 4, 12, 30, 15, 250000, tzinfo=tz(2)), _dt.datetime(1999, 12, 31, 23, 59, 59, 999999, tzinfo=tz(0))]
    for _ in range(max(8, n // 12)):
        xs = [ctx.rng.choice(stamps) for _ in range(ctx.rng.randint(1, 4))] + ctx.rng.sample([0, 'a', None, 2.5], ctx.rng.randint(0, 2))
        ys = [s if ctx.rng.random() < 0.6 else ctx.rng.choice(stamps) for s in xs]
        ctx.rng.shuffle(ys)
        w = ctx.rng.choice([lambda v: v, lambda v: {'log': v, 'n': 1}, lambda v: [v, [0]], lambda v: (v, 'z')])
        out.append((w(xs), w(ys)))
    out += [([D0, 1], [1, D0.replace(microsecond=7)]), ({'t': [D0.replace(microsecond=3)]}, {'t': [D0.replace(microsecond=4)]}), ([[D0, D0.replace(microsecond=1)]], [[D0.replace(microsecond=1), D0]])]
    return out


def knob_choice(rng):
    return {k: rng.choice(v) for k, v in KNOBS.items()}


def run(ctx, impl_only=False):
    from deepdiff import DeepDiff
    n = 900 if ctx.thorough() else 120
    lines, metas = [], []
    for (t1, t2) in gen_pairs(ctx, n):
        s1, s2 = copy.deepcopy(t1), copy.deepcopy(t2)
        for rep in (False, True):
            want = nset_eq(strip_private(t1), strip_private(t2), rep)
            if not strict_eq(t1, t2):
                ctx.nontriv((repr(t1), repr(t2), rep))
            verdicts = {}
            settings = [dict(cutoff_distance_for_pairs=0.3, cutoff_intersection_for_pairs=0.7, max_passes=10000000, cache_size=0, threshold_to_diff_deeper=0.33)]
            settings += [knob_choice(ctx.rng) for _ in range(4 if ctx.thorough() else 2)]
            for kn in settings:
                case = {'t1': repr(t1), 't2': repr(t2), 'report_repetition': rep, 'knobs': kn}
                ctx.evaluations += 1
                try:
                    dd, ps = IO.run_observed(t1, t2, report_repetition=rep, verbose_level=2, **kn)
                except Exception as e:
                    ctx.violate(case, 'DeepDiff raised %s: %s' % (type(e).__name__, str(e)[:80])); continue
                empty = (dd == {})
                ctx.count('verdict:%s' % ('empty' if empty else 'non-empty'))
                ctx.count('pairs:%s' % ('some' if ps else 'none'))
                if empty != want:
                    ctx.violate(case, 'the result is %s but the values are %s as nested %s' % ('empty' if empty else 'not empty: ' + str(dd)[:120],
                                'equal' if want else 'different', 'multisets' if rep else 'sets'))
                verdicts[repr(sorted(kn.items()))] = empty
                if not impl_only and any(not HEX.match(h_) for (_, ha_, hr_) in ps for h_ in (ha_, hr_)):
                    ctx.diverge(case, 'the items of the order-ignoring diff are keyed by %r' % [h_ for (_, ha_, hr_) in ps for h_ in (ha_, hr_) if not HEX.match(h_)][0][:60],
                                'hexadecimal digests', op='IODIFF')
                elif not impl_only:
                    try:
                        a = DF.canon_text(dd, 2)
                        lines.append(IO.iodiff_line(t1, t2, ps, rep, kn['threshold_to_diff_deeper'], True, 2))
                        metas.append((case, '{}' if not a else ' '.join(a)))
                    except (OutOfUniverse, DF.BadDiffText):
                        ctx.count('out_of_universe')
            if len(set(verdicts.values())) > 1:
                ctx.violate({'t1': repr(t1), 't2': repr(t2), 'report_repetition': rep, 'knobs': 'several'}, 'the verdict depends on the knobs: %r' % verdicts)
        if not (strict_eq(t1, s1) and strict_eq(t2, s2)):
            ctx.violate({'t1': repr(s1), 't2': repr(s2), 'report_repetition': None, 'knobs': {}}, 'an input was modified')
        if len(ctx.samples) < 5:
            ctx.sample({'t1': repr(t1)[:120], 't2': repr(t2)[:120], 'equal_as_sets': nset_eq(t1, t2, False), 'equal_as_multisets': nset_eq(t1, t2, True)})
    # ---- values DeepDiff identifies although Python's == does not (a naive datetime and the same wall clock marked UTC): whichever way they are counted, the
    # verdict must not depend on the knobs
    import datetime as _dt
    N0 = _dt.datetime(2022, 5, 6, 7, 8, 9, 120)
    A0 = N0.replace(tzinfo=_dt.timezone.utc)
    for (t1, t2) in [([N0, 1, 'a'], ['a', A0, 1]), ({'k': [N0, N0.replace(second=1)]}, {'k': [A0.replace(second=1), A0]}), ([[N0], [1]], [[1], [A0]]), ((N0, 2), (2, A0)),
                     ([N0, A0.replace(year=2000)], [N0.replace(year=2000), A0]), ([{'at': N0, 'v': 1}, {'at': A0, 'v': 2}], [{'at': N0, 'v': 2}, {'at': A0, 'v': 1}])]:
        for rep in (False, True):
            verdicts = {}
            fixed = [dict(max_passes=0), dict(cutoff_intersection_for_pairs=0), dict(cutoff_distance_for_pairs=0), dict(max_passes=1, cache_size=50), dict()]
            for kn in fixed + [knob_choice(ctx.rng) for _ in range(3)]:
                ctx.evaluations += 1
                try:
                    dd = DeepDiff(t1, t2, ignore_order=True, report_repetition=rep, **kn)
                except Exception as e:
                    ctx.violate({'t1': repr(t1), 't2': repr(t2), 'report_repetition': rep, 'knobs': kn}, 'DeepDiff raised %s' % type(e).__name__); continue
                verdicts[repr(sorted(kn.items()))] = (dd == {})
            ctx.count('naive_aware:%s' % sorted(set(verdicts.values())))
            if len(set(verdicts.values())) > 1:
                ctx.violate({'t1': repr(t1), 't2': repr(t2), 'report_repetition': rep, 'knobs': 'several'}, 'the verdict depends on the knobs: %r' % verdicts)
    # ---- repaired: numpy booleans in an order-ignored list (finding F48)
    try:
        import numpy as np
        ctx.evaluations += 1
        ok = (bool(DeepDiff([np.True_, 2], [2], ignore_order=True)) and not DeepDiff([np.True_, 2], [2, np.True_], ignore_order=True)
              and bool(DeepDiff([np.False_, 2], [2, np.True_], ignore_order=True, report_repetition=True)))
        if not ok:
            ctx.violate({'witness': 'F48'}, 'the repaired case F48 fails again')
    except ImportError:
        pass
    # ---- repaired: unmatched integers beyond the numpy integer range (F53), unmatched complex numbers (F54)
    for fid, fn in {'F53': lambda: bool(DeepDiff([2 ** 70, 2 ** 71, 5], [5, 2 ** 70 + 1, 2 ** 71 + 1], ignore_order=True)) and not DeepDiff([2 ** 70, 2 ** 71, 5], [5, 2 ** 71, 2 ** 70], ignore_order=True),
                    'F54': lambda: bool(DeepDiff([1 + 2j, 3, 5], [5, 1 + 3j, 4], ignore_order=True)) and not DeepDiff([1 + 2j, 3], [3, 1 + 2j], ignore_order=True)}.items():
        ctx.evaluations += 1
        try:
            ok = fn()
        except Exception:
            ok = False
        if not ok:
            ctx.violate({'witness': fid}, 'the repaired case %s fails again' % fid)
    if ctx.build_ok and not impl_only and lines:
        ans = core.run_model(lines)
        for (case, a), m in zip(metas, ans):
            ctx.traces += 1
            if a != m:
                sa, sm = set(a.split(' ')), set(m.split(' '))
                ctx.diverge(case, 'only-impl: ' + ' '.join(sorted(sa - sm))[:400], 'only-model: ' + ' '.join(sorted(sm - sa))[:400], op='IODIFF')


def search(ctx):
    c2 = core.Ctx(ctx.pid, 'thorough', ctx.seed + 1)
    c2.build_ok = False
    run(c2, impl_only=True)
    return c2.violations


def replay(ctx, payload):
    from deepdiff import DeepDiff
    ok = True
    for c in payload.get('cases', []):
        case = c['case']
        t1, t2 = eval(case['t1']), eval(case['t2'])
        reps = [case['report_repetition']] if case['report_repetition'] is not None else [False, True]
        kn = case['knobs'] if isinstance(case['knobs'], dict) else {}
        for rep in reps:
            dd = DeepDiff(t1, t2, ignore_order=True, report_repetition=rep, **kn)
            good = (dd == {}) == nset_eq(t1, t2, rep)
            print('  ', case, '->', dict(dd) if dd else '{}', 'holds' if good else 'FAILS (equal as nested %s: %s)' % ('multisets' if rep else 'sets', nset_eq(t1, t2, rep)))
            ok = ok and good
    return ok
