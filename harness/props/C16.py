"""C16 — DeepSearch reports exactly the matching locations."""
import copy, re, itertools
from .. import core
from ..gen import Gen, strict_eq
from ..pkl import enc_str, dec_str
from ..wire import val_tokens, OutOfUniverse

ID = 'C16'
LEAN_TARGETS = ['Properties.C16']
THEOREMS = ['Search.C16_sound', 'Search.C16_complete', 'Search.C16_paths_complete', 'Search.C16_excluded_never', 'Search.C16_shortcut_sound', 'Search.C16_prep_scalar']
RULE = ('nested objects over dict (str keys incl. upper case, spaces, digits; int, float, None, bool keys), list, tuple, str, int, float, bool, None (sets of scalars for the '
        'reporting clause) x items drawn from the object\'s own leaves, substrings of its strings, its keys, absent values, numbers spelled as strings x case_sensitive x '
        'match_string x use_regexp (patterns of the driver subset) x strict_checking x verbose_level in {1,2} x exclude_paths / exclude_types / exclude_regex_paths drawn '
        'from the object. The result is compared (a) with an independent reference search written from the statement, (b) with extract() on every matched_values path, '
        '(c) with the Lean model. distinct = distinct (obj, item, mode, exclusions); non-trivial = the reference reports at least one location')
TRUSTED_BASE = ['the re module (the driver has its own matcher for the pattern subset; the reference uses re)', 'str.lower on ASCII (strings with other cased characters are outside the model universe)']
ASSUMPTIONS = ['keys do not hold both quote kinds or brackets (C09, finding F8a)', 'item is a scalar (str, int, float, bool, None)', 'use_regexp only with string items (TypeError otherwise, by design)']

STR_LEAVES = ['stra\u00dfe', 'Ma\u00dfe', '\u03bf\u03b4\u03cc\u03c2', '\u039f\u0394\u039f\u03a3', 'somewhere', 'Somewhere here', 'abc', 'ABC', 'a', 'b', 'ab', 'long string somewhere', '', 'x y', '10', '5', '1.5', 'None', 'True', 'a1b2', 'root']
NUM_LEAVES = [0, 1, 2, 5, 10, 1.5, 5.0, True, False, -1, 1234]
KEYS = ['a', 'b', 'ab', 'Key', 'some key', 'k5', '5', 'None', 1, 5, 10, 1.5, None, True, 'root', 'x', "it's", 'say "a"', 'C:\\tmp', 'a\nb', 'tab\there', 'back\\a']
PATTERNS = ['a', 'some', r'\d+', 'a.c', '^a', 'b$', '[a-c]+', r'so?me', 'x y', r'\w+ \w+', '^$', r'[0-9]\.[0-9]', 'here$', r'k\d', r"\['a"]


def ascii_lower_ok(s):
    return s.lower() == ''.join(chr(ord(c) + 32) if 'A' <= c <= 'Z' else c for c in s)


def key_text(k):
    if isinstance(k, str):
        return '"%s"' % k if "'" in k else "'%s'" % k          # the quoting DeepDiff uses for reported paths
    return str(k)


def locations(obj, path='root', keys=(), in_set=False):
    """every location: (path text, key tuple, value, reached through a dict key?, inside a set?)"""
    out = [(path, keys, obj, False, in_set)]
    def rec(o, p, ks, ins):
        if isinstance(o, dict):
            for k, v in o.items():
                np = '%s[%s]' % (p, key_text(k))
                out.append((np, ks + (k,), v, True, ins))
                rec(v, np, ks + (k,), ins)
        elif isinstance(o, (list, tuple, set, frozenset)):
            s = ins or isinstance(o, (set, frozenset))
            for i, v in enumerate(o):
                np = '%s[%d]' % (p, i)
                out.append((np, ks + (i,), v, False, s))
                rec(v, np, ks + (i,), s)
    rec(obj, path, keys, in_set)
    return out


def leaf_matches(v, item, cs, match_string, use_regexp, strict):
    """does the leaf v match the item under the mode (written from the statement)"""
    if isinstance(v, str):
        if not isinstance(item, str):
            if strict or not isinstance(item, (int, float)) or use_regexp:
                return False
            item = str(item)                       # loose: a number is searched by its text
        text, it = (v, item) if cs or not isinstance(item, str) else (v.lower(), item.lower())
        if use_regexp:
            return re.search(it, text) is not None
        return it == text if match_string else it in text
    if isinstance(v, (bool, int, float)):
        if use_regexp:
            return (not strict) and isinstance(item, str) and re.search(item if cs else item.lower(), str(v) if cs else str(v).lower()) is not None
        if isinstance(item, (bool, int, float)) and strict:
            return item == v
        if strict:
            return False
        it = str(item) if isinstance(item, (bool, int, float)) else (item if (cs or not isinstance(item, str)) else item.lower())
        return isinstance(it, str) and it == (str(v) if cs else str(v).lower())
    if v is None:
        return item is None and not use_regexp
    return False


def reference(obj, item, cs, match_string, use_regexp, strict, ex_paths=(), ex_types=(), ex_regex=()):
    eff_cs = cs if isinstance(item, str) else True
    locs = locations(obj)
    excluded = set()
    for (p, ks, v, via_key, ins) in locs:
        if p in ex_paths or any(re.search(r, p) for r in ex_regex) or (bool(ex_types) and isinstance(v, tuple(ex_types))):
            excluded.add(ks)
    def is_excluded(ks):
        return any(ks[:i] in excluded for i in range(len(ks) + 1))
    values, paths = {}, {}
    it_text = str(item) if not isinstance(item, str) else (item if eff_cs else item.lower())
    for (p, ks, v, via_key, ins) in locs:
        if is_excluded(ks):
            continue
        if leaf_matches(v, item, eff_cs, match_string, use_regexp, strict):
            values[p] = v
        if via_key:
            text = p if eff_cs else p.lower()
            if use_regexp:
                hit = isinstance(item, str) and re.search(it_text, text) is not None
            elif match_string:
                hit = it_text == text
            else:
                hit = it_text in text
            if hit:
                paths[p] = v
    return values, paths


def canon(d, kind):
    out = []
    for p, v in d.items():
        out.append('%s|%s|%s' % (kind, enc_str(p), ','.join(val_tokens(v))))
    return out


def has_set(o):
    if isinstance(o, (set, frozenset)):
        return True
    if isinstance(o, dict):
        return any(has_set(v) for v in o.values())
    if isinstance(o, (list, tuple)):
        return any(has_set(v) for v in o)
    return False


def tokens_iter_order(v):
    """wire tokens with set members in Python's iteration order (the indexes DeepSearch reports)"""
    if isinstance(v, (set, frozenset)):
        out = [('S' if isinstance(v, set) else 'Z') + str(len(v))]
        for x in v:
            out += tokens_iter_order(x)
        return out
    if isinstance(v, (list, tuple)):
        out = [('L' if isinstance(v, list) else 'U') + str(len(v))]
        for x in v:
            out += tokens_iter_order(x)
        return out
    if isinstance(v, dict):
        out = ['D%d' % len(v)]
        for k, x in v.items():
            out += val_tokens(k) + tokens_iter_order(x)
        return out
    return val_tokens(v)


def in_universe(obj, item):
    def strs(o):
        if isinstance(o, str):
            yield o
        elif isinstance(o, dict):
            for k, v in o.items():
                yield from strs(k); yield from strs(v)
        elif isinstance(o, (list, tuple, set, frozenset)):
            for v in o:
                yield from strs(v)
    return all(ascii_lower_ok(s) and 're.compile' not in s for s in list(strs(obj)) + ([item] if isinstance(item, str) else []))


TYPE_NAMES = {str: 'str', int: 'int', float: 'float', bool: 'bool', list: 'list', tuple: 'tuple', dict: 'dict', type(None): 'NoneType', set: 'set', frozenset: 'frozenset'}


def search_line(obj, item, cs, ms, ur, strict, ex_paths, ex_types, ex_regex):
    from ..diffing import keys_modelled
    if not keys_modelled(obj) or isinstance(item, tuple):
        raise OutOfUniverse('dictionary keys outside the path model (tuples, bytes)')
    f = lambda b: 'T' if b else 'F'
    return 'SEARCH %s %s %s %s E %d %s T %d %s R %d %s %s %s' % (
        f(cs), f(ms), f(ur), f(strict), len(ex_paths), ' '.join(map(enc_str, ex_paths)), len(ex_types), ' '.join(enc_str(TYPE_NAMES[t]) for t in ex_types),
        len(ex_regex), ' '.join(map(enc_str, ex_regex)), ' '.join(val_tokens(item)), ' '.join(tokens_iter_order(obj)))


def gen_cases(ctx, n):
    g = Gen(ctx.rng, scalars=STR_LEAVES + NUM_LEAVES + [None], keys=KEYS, kinds=('dict', 'list', 'tuple'), max_depth=3, max_width=4, p_leaf=0.4)
    gs = Gen(ctx.rng, scalars=STR_LEAVES + NUM_LEAVES + [None], keys=KEYS, kinds=('dict', 'list', 'tuple', 'set'), max_depth=3, max_width=4, p_leaf=0.4)
    out = []
    for i in range(n):
        obj = (gs if i % 6 == 0 else g).container() if i % 15 else (g.scalar())
        if i % 8 == 3:
            # many containers of one kind in one object (per-search counters, e.g. the warning counter for sets): records with a set / frozenset / tuple each
            m = ctx.rng.randint(9, 16)
            pool = ctx.rng.sample(STR_LEAVES + NUM_LEAVES, 6)
            mk = ctx.rng.choice([set, frozenset, tuple, list])
            def tags():
                return mk(ctx.rng.sample(pool, ctx.rng.randint(1, 3)))
            shape = ctx.rng.randrange(3)
            obj = ([{'id': j, 'tags': tags()} for j in range(m)] if shape == 0 else
                   {'k%d' % j: tags() for j in range(m)} if shape == 1 else [tags() for j in range(m)])
        if i % 8 == 5:
            # dictionaries keyed by equal numbers of different types (and by numbers that print differently), side by side in one object and
            # from one search to the next: each key is rendered as itself
            ks = ctx.rng.sample([True, 1.0, 1, False, 0.0, 0, 2.0, 2], 4)
            obj = {'by_%d' % j: {k: ctx.rng.choice(['True', '1.0', 'hit', 1, 2.5, 'x2.50y'])} for j, k in enumerate(ks)}
            if ctx.rng.random() < 0.5:
                obj = [obj, {ks[0]: {'deep': 'hit'}}]
        if i % 8 == 7:
            # dictionaries with tuple keys (one item, several items, empty) next to int keys and list indexes that would spell the same path
            tk = ctx.rng.sample([(7,), (0, 1), (), (1, (2, 3)), (2.5, None)], 2)
            obj = {tk[0]: ctx.rng.choice(['needle', 41, ['hay', 'needle']]), tk[1]: {'deep': 'needle'}, 7: 'hay', 0: ['x', [41, 43]]}
            if ctx.rng.random() < 0.5:
                obj = [obj, {'k': {tk[0]: 41}}]
        locs = locations(obj)
        leaves = [v for (_, _, v, _, _) in locs if not isinstance(v, (dict, list, tuple, set, frozenset))]
        keys_ = [k for (_, ks, _, via, _) in locs if via for k in ks[-1:]]
        items = []
        for _ in range(3):
            r = ctx.rng.random()
            if r < 0.35 and leaves:
                it = ctx.rng.choice(leaves)
            elif r < 0.55 and any(isinstance(v, str) and v for v in leaves):
                s = ctx.rng.choice([v for v in leaves if isinstance(v, str) and v])
                a = ctx.rng.randrange(len(s)); b = ctx.rng.randint(a + 1, len(s))
                it = s[a:b]
                if ctx.rng.random() < 0.3:
                    it = it.upper()
            elif r < 0.7 and keys_:
                it = ctx.rng.choice(keys_)
                if isinstance(it, str) and ctx.rng.random() < 0.3 and len(it) > 1:
                    it = it[:-1]
            elif r < 0.85:
                it = ctx.rng.choice(['zzz', 'absent', 99, 7.25, '1234', 'SOME', 'Here', None, '5', 5, 1, '1', 'true', 'True', 1.0])
            else:
                nums = [v for v in leaves if isinstance(v, (int, float)) and not isinstance(v, bool)]
                it = str(ctx.rng.choice(nums)) if nums else 'q'
            items.append(it)
        for it in items:
            out.append((obj, it, locs))
    return out


def run(ctx, impl_only=False):
    from deepdiff import DeepSearch, grep, extract
    n = 1200 if ctx.thorough() else 160
    lines, metas = [], []
    for (obj, item, locs) in gen_cases(ctx, n):
        modes = []
        for _ in range(4 if ctx.thorough() else 3):
            cs, ms, strict = ctx.rng.random() < 0.5, ctx.rng.random() < 0.35, ctx.rng.random() < 0.6
            ur = isinstance(item, str) and ctx.rng.random() < 0.25
            modes.append((cs, ms, ur, strict))
        for (cs, ms, ur, strict) in modes:
            it = item
            if ur:
                it = ctx.rng.choice(PATTERNS) if ctx.rng.random() < 0.7 else re.escape(item)
                if not cs and it.lower() != it and '\\' in it:
                    it = it.lower()
            ex_paths, ex_types, ex_regex = [], [], []
            r = ctx.rng.random()
            allp = [p for (p, ks, v, via, ins) in locs if ks]
            combine = ctx.rng.random() < 0.3           # the exclusion options alone, and two or three of them in one call
            if (r < 0.25 or (combine and ctx.rng.random() < 0.6)) and allp:
                ex_paths = ctx.rng.sample(allp, min(len(allp), ctx.rng.randint(1, 2)))
            if 0.25 <= r < 0.4 or (combine and ctx.rng.random() < 0.7):
                ex_types = ctx.rng.sample([str, int, float, bool, list, tuple, dict, type(None)], ctx.rng.randint(1, 2))
            if (0.4 <= r < 0.5 or (combine and ctx.rng.random() < 0.7)) and allp:
                p = ctx.rng.choice(allp)
                ex_regex = [ctx.rng.choice(['^' + re.escape(p) + '$', re.escape(p[4:]), r'\[\d+\]$', r"\['a", r"^root\['nothing'\]"])]
            vb = ctx.rng.choice([1, 2])
            case = {'obj': repr(obj), 'item': repr(it), 'case_sensitive': cs, 'match_string': ms, 'use_regexp': ur, 'strict_checking': strict,
                    'exclude_paths': ex_paths, 'exclude_types': [t.__name__ for t in ex_types], 'exclude_regex_paths': ex_regex, 'verbose_level': vb}
            ctx.evaluations += 1
            snap = copy.deepcopy(obj)
            kw = dict(case_sensitive=cs, match_string=ms, use_regexp=ur, strict_checking=strict, verbose_level=vb)
            if ex_paths: kw['exclude_paths'] = ex_paths
            if ex_types: kw['exclude_types'] = ex_types
            if ex_regex: kw['exclude_regex_paths'] = ex_regex
            try:
                ds = (obj | grep(it, **kw)) if ctx.rng.random() < 0.3 else DeepSearch(obj, it, **kw)
            except Exception as e:
                ctx.violate(case, 'DeepSearch raised %s: %s' % (type(e).__name__, str(e)[:80])); continue
            if not strict_eq(obj, snap):
                ctx.violate(case, 'the searched object was modified')
            got_v, got_p = ds.get('matched_values', {}), ds.get('matched_paths', {})
            if vb == 1:
                # verbose 1 gives sets of paths: recover the values from the locations
                table = {p: v for (p, ks, v, via, ins) in locs}
                bad = [p for p in list(got_v) + list(got_p) if p not in table]
                if bad:
                    ctx.violate(case, 'reported path %s is not a location of the object' % bad[0]); continue
                got_v = {p: table[p] for p in got_v}; got_p = {p: table[p] for p in got_p}
            extra_keys = set(ds.keys()) - {'matched_values', 'matched_paths'}
            if extra_keys:
                ctx.violate(case, 'unexpected result keys %s' % sorted(extra_keys))
            want_v, want_p = reference(obj, it, cs, ms, ur, strict, ex_paths, ex_types, ex_regex)
            if want_v or want_p:
                ctx.nontriv((repr(obj), repr(it), cs, ms, ur, strict, tuple(ex_paths), tuple(t.__name__ for t in ex_types), tuple(ex_regex)))
            ctx.count('mode:%s%s%s%s' % ('cs' if cs else 'ci', '+exact' if ms else '', '+re' if ur else '', '' if strict else '+loose'))
            try:
                cg = sorted(set(canon(got_v, 'V') + canon(got_p, 'P')))
                cw = sorted(set(canon(want_v, 'V') + canon(want_p, 'P')))
            except OutOfUniverse:
                ctx.count('out_of_universe'); continue
            if cg != cw:
                miss = [x for x in cw if x not in cg]; extra = [x for x in cg if x not in cw]
                first = (miss + extra)[0].split('|')
                ctx.violate(case, 'result differs from the reference search: %d missing, %d unexpected (first: %s %s)' % (len(miss), len(extra), first[0], dec_str(first[1])))
            # extract clause (objects without sets)
            if not has_set(obj):
                for p, v in got_v.items():
                    try:
                        ev = extract(obj, p)
                        if not (strict_eq(ev, v)):
                            ctx.violate(case, 'extract(obj, %s) = %r, reported %r' % (p, ev, v)); break
                    except Exception as e:
                        ctx.violate(case, 'extract(obj, %s) raised %s' % (p, type(e).__name__)); break
            if not impl_only and in_universe(obj, it):
                try:
                    lines.append(search_line(obj, it, cs, ms, ur, strict, ex_paths, ex_types, ex_regex))
                    metas.append((case, '{}' if not cg else ' '.join(cg)))
                except (OutOfUniverse, KeyError):
                    ctx.count('out_of_universe')
            if len(ctx.samples) < 5 and want_v:
                ctx.sample({'obj': repr(obj)[:120], 'item': repr(it), 'hits': len(want_v) + len(want_p)})
    # ---- exclude_types names a base type, the object holds instances of its subclasses (bool under int, OrderedDict under dict, a str subclass)
    import collections
    class Tag(str):
        pass
    sub_objs = [{'a': True, 'b': 1, 'c': [False, 2, 'x']}, {'o': collections.OrderedDict([('k', 1), ('j', 'one')]), 'p': {'k': 1, 'j': 'one'}},
                [Tag('one'), 'one', {'t': Tag('one')}], (True, 1, 1.0, 'True')]
    for o in sub_objs:
        for it in (1, True, '1', 'one', 'k', 'True'):
            for ex in ([int], [dict], [bool], [str], [int, str], [float]):
                for (cs, strict) in ((True, True), (False, False)):
                    ctx.evaluations += 1
                    case = {'obj': repr(o), 'item': repr(it), 'case_sensitive': cs, 'match_string': False, 'use_regexp': False, 'strict_checking': strict,
                            'exclude_paths': [], 'exclude_types': [t.__name__ for t in ex], 'exclude_regex_paths': [], 'verbose_level': 2}
                    try:
                        ds = DeepSearch(o, it, verbose_level=2, case_sensitive=cs, strict_checking=strict, exclude_types=ex)
                    except Exception as e:
                        ctx.violate(case, 'DeepSearch raised %s: %s' % (type(e).__name__, str(e)[:80])); continue
                    want_v, want_p = reference(o, it, cs, False, False, strict, (), ex, ())
                    got = (sorted(ds.get('matched_values', {})), sorted(ds.get('matched_paths', {})))
                    want = (sorted(want_v), sorted(want_p))
                    ctx.count('subclass_exclusion')
                    if got != want:
                        ctx.violate(case, 'result differs from the reference search under exclude_types=%s: got %r, expected %r' % ([t.__name__ for t in ex], got, want))
    # regular expression with a non-string item: TypeError by design
    ctx.evaluations += 1
    try:
        DeepSearch([1, 2], 1, use_regexp=True); ctx.violate({'witness': 'regexp_number_item'}, 'use_regexp with a number item did not raise TypeError')
    except TypeError:
        pass
    # ---- boundary witnesses
    for (o, it, kw, want) in [({"a'b": 'xa'}, 'xa', {}, {'matched_values': {'root["a\'b"]': 'xa'}}),                      # fixed F12c
                              ([True], 'True', dict(strict_checking=False), {'matched_values': {'root[0]': True}}),        # fixed F12e
                              ({'a': 5.0, 'b': [5.0, 5]}, 5, dict(exclude_types=[float]), {'matched_values': {"root['b'][1]": 5}}),      # fixed F12a
                              ({'ab': 1, 'c': {'ab': 2}}, 'a', dict(exclude_paths=["root['ab']"]), {'matched_paths': {"root['c']['ab']": 2}}),   # fixed F12b
                              ({'None': 'xa', 'k': None}, None, {}, {'matched_paths': {"root['None']": 'xa'}, 'matched_values': {"root['k']": None}})]:  # fixed F12d
        ctx.evaluations += 1
        try:
            got = dict(DeepSearch(o, it, verbose_level=2, **kw))
        except Exception as e:
            got = 'raised %s' % type(e).__name__
        if got != want:
            ctx.violate({'obj': repr(o), 'item': repr(it), 'case_sensitive': False, 'match_string': False, 'use_regexp': False, 'strict_checking': kw.get('strict_checking', True),
                         'exclude_paths': kw.get('exclude_paths', []), 'exclude_types': [t.__name__ for t in kw.get('exclude_types', [])], 'exclude_regex_paths': [], 'verbose_level': 2},
                        'DeepSearch gives %r, expected %r' % (got, want))
    if ctx.build_ok and not impl_only and lines:
        ans = core.run_model(lines)
        for (case, a), m in zip(metas, ans):
            ctx.traces += 1
            if a != m:
                sa, sm = set(a.split(' ')), set(m.split(' '))
                ctx.diverge(case, 'only-impl: ' + ' '.join(sorted(sa - sm))[:400], 'only-model: ' + ' '.join(sorted(sm - sa))[:400], op='SEARCH')


def search(ctx):
    c2 = core.Ctx(ctx.pid, 'thorough', ctx.seed + 1)
    c2.build_ok = False
    run(c2, impl_only=True)
    return c2.violations


def replay(ctx, payload):
    from deepdiff import DeepSearch
    ok = True
    tn = {'str': str, 'int': int, 'float': float, 'bool': bool, 'list': list, 'tuple': tuple, 'dict': dict, 'NoneType': type(None)}
    for c in payload.get('cases', []):
        case = c['case']
        if 'obj' not in case:
            print('  ', case, c.get('why')); ok = False; continue
        obj, it = eval(case['obj']), eval(case['item'])
        kw = dict(case_sensitive=case['case_sensitive'], match_string=case['match_string'], use_regexp=case['use_regexp'], strict_checking=case['strict_checking'], verbose_level=2)
        ex_types = [tn[t] for t in case['exclude_types']]
        if case['exclude_paths']: kw['exclude_paths'] = case['exclude_paths']
        if ex_types: kw['exclude_types'] = ex_types
        if case['exclude_regex_paths']: kw['exclude_regex_paths'] = case['exclude_regex_paths']
        ds = DeepSearch(obj, it, **kw)
        wv, wp = reference(obj, it, case['case_sensitive'], case['match_string'], case['use_regexp'], case['strict_checking'], case['exclude_paths'], ex_types, case['exclude_regex_paths'])
        good = dict(ds.get('matched_values', {})) == wv and dict(ds.get('matched_paths', {})) == wp
        print('  ', case, '->', dict(ds), 'holds' if good else 'FAILS (reference: values %r paths %r)' % (wv, wp))
        ok = ok and good
    return ok
