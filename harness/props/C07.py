"""C07 — DeepHash: different content hashes differently."""
import itertools, copy
from .. import core, hashing as HS
from ..gen import Gen
from ..wire import OutOfUniverse

ID = 'C07'
LEAN_TARGETS = ['Properties.C07']
THEOREMS = ['Hash.C07_N_spoof', 'Hash.C07_N_ordered_repeats', 'Hash.C07_N_no_hash_ambiguous', 'Hash.C07_str_vs_none',
            'DiffIO.C07_equal_digests_equivalent', 'DiffIO.C07_different_content_differs', 'DiffIO.C07_scalar_injective', 'DiffIO.C07_list_members']
RULE = ('all pairs from a pool of nested values that deliberately contains near-collisions (same items in different containers, nestings that flatten to the same '
        'item sequence, repeats in different positions, strings next to the values they resemble) x the three claimed modes; hash equality is compared with an '
        'independent reference equivalence. distinct = distinct (a, b, mode); non-trivial = a and b are not equivalent')
TRUSTED_BASE = ['hashlib.sha256 assumed collision-free on the inputs considered',
                'the injectivity theorem is proved for the model in the set and multiset modes (order ignored); the ordered mode (ignore_iterable_order=False) is covered by '
                'the negative witness F7, the correspondence and the evaluation only',
                'hypotheses of the theorem: the hasher is injective with non-empty digests free of , | : ; (satisfiable: an escaping function is exhibited in Lean); for SHA-256 hex '
                'digests the second part is a fact, the first the usual collision-freedom idealisation']
ASSUMPTIONS = ['NoSpoof: no str leaf spells the serialisation of a non-str value (finding F5)', 'NoNumAlias (finding F6/F18)',
               'ordered mode: lists without repeated items (finding F7); sets are compared as sets in every mode']

CLAIMED = ['set', 'multiset', 'ordered']


def pool(ctx):
    base = [1, 2, 3, 'a', 'b', None, True, False, 1.5, b'a', 'ab', '', 0]
    P = list(base)
    P += [[1], [1, 1], [1, 2], [2, 1], [1, 2, 1], [1, 1, 2], [[1], 2], [1, [2]], [[1, 2]], [[1], [2]], [], [[]], [[], []], [None], ['a', 'b'], ['ab'], ['a', ['b']],
          (1,), (1, 2), (2, 1), (1, 1), ((1,), 2), (), ((),), {1}, {1, 2}, frozenset([1]), frozenset([1, 2]), set(), frozenset(),
          {'a': 1}, {'a': [1]}, {'a': 1, 'b': 2}, {'b': 2, 'a': 1}, {'a': 2, 'b': 1}, {'a': {'b': 1}}, {'a': None}, {}, {1: 'a'}, {'1': 'a'},
          [1, 'a'], ['a', 1], [1, None], [True], [1.5], ['1'], ['True'], [b'a'], ['a'], [{'a': 1}], [{'a': 1}, {'a': 1}], [[1, 2], [2, 1]], [[1, 2], [1, 2]],
          ['x', 'x', 'y'], ['x', 'y', 'y'], ['x', 'y'], [2, 2, 1], [1, 2, 2],
          [1, [1]], [1, []], [1, [2, 1]], [1, [2]], ['a', ('a', 'b')], ['a', ('b',)], [1, {'k': 1}], [1, {}], [[1], 1], [[], 1], ('a', ['a']), ('a', []),
          {'k': 1, 'j': [1]}, {'k': 1, 'j': []}, [2, [1, [2]]], [2, [1, []]],
          # keys with underscores in every position (only a leading double underscore marks a private key)
          # two keys of one dictionary with one digest (tuples that are permutations of each other): both entries count
          {(1, 2): 'a', (2, 1): 'b'}, {(2, 1): 'b'}, {(1, 2): 'b'}, {(1, 2): 'b', (2, 1): 'a'}, {(1, 2): 'a'}, {(1, 1, 2): 'x', (1, 2): 'y'}, {(1, 2): 'y'}, {(1, 1, 2): 'y'},
          [{(1, 2): 1, (2, 1): 2}], [{(2, 1): 2}], {'k': {('a', 'b'): [1], ('b', 'a'): [2]}}, {'k': {('b', 'a'): [2]}},
          # sets of such tuples under the multiset mode (set members are unique as objects, not as digests)
          {(1, 2), (2, 1)}, {(1, 2)}, frozenset({(1, 2), (2, 1), 3}), frozenset({(2, 1), 3}), [{(1, 2), (2, 1)}, 0], [{(2, 1)}, 0],
          # entries under falsy keys (0, '', None, False, 0.0, ()) count like any other
          {0: 'a'}, {0: 'b'}, {'': 1}, {'': 2}, {None: 1}, {None: 2}, {False: 'x'}, {False: 'y'}, {0.0: [1]}, {0.0: [2]}, {(): 1}, {(): 2}, {'id': 7, 0: 'zero'}, {'id': 7}, [{'id': 7, '': None}], [{'id': 7}],
          {'_id__gt': 1}, {'_id__gt': 2}, {'_user__name': 1}, {'_id': 1}, {'id__gt': 1}, {'_User__token': 'a'}, {'a_': 1}, {'_': 1}, [{'_id__gt': 1}], [{}]]
    # long numbers that differ beyond the usual precision, and the other numeric / date-like leaf types
    import decimal as _dc, datetime as _dtm, uuid as _uuid
    D = _dc.Decimal
    odd = [D('1.0000000000000000000000000000001'), D('1.0000000000000000000000000000002'), D('1.00000000000000000000000000001'), D('12345678901234567890123456789012'),
           D('12345678901234567890123456789013'), D('0.1'), D('0.10'), D('-0.1'), 10 ** 30, 10 ** 30 + 1, -10 ** 30, 1e300, 1.0000000000000002, 1 - 2j, 1 + 2j, 2j,
           _dtm.date(2020, 1, 1), _dtm.date(2020, 1, 2), _dtm.time(1, 2, 3), _dtm.time(1, 2, 3, 5), _dtm.timedelta(1), _dtm.timedelta(1, 0, 1),
           _dtm.timedelta(days=365000), _dtm.timedelta(days=365000, microseconds=1), _dtm.timedelta.max - _dtm.timedelta(microseconds=2), _dtm.timedelta.max - _dtm.timedelta(microseconds=3),
           _dtm.timedelta.min + _dtm.timedelta(microseconds=1), _dtm.timedelta.min, _dtm.timedelta(days=-400000, microseconds=7), _dtm.timedelta(days=-400000, microseconds=8),
           _dtm.datetime(2020, 1, 1, tzinfo=_dtm.timezone.utc), _dtm.datetime(2020, 1, 1, 0, 0, 0, 1, tzinfo=_dtm.timezone.utc), _uuid.UUID(int=1), _uuid.UUID(int=2)]
    P += odd + [[x] for x in odd[:8]] + [{'k': x} for x in odd[:5]]
    g = Gen(ctx.rng, scalars=[1, 2, 'a', None, True, 1.5], keys=['a', 'b'], max_depth=2, max_width=3)
    for _ in range(80 if ctx.thorough() else 25):
        v = g.value()
        P.append(v)
        P.append(g.edit(v) if isinstance(v, (dict, list, tuple)) else v)
        # an element followed by a sibling container that holds the identical object, and the same without it
        x = ctx.rng.choice([1, 'a', None, 2])
        inner = [ctx.rng.choice([2, 'b', 3]), x]
        P.append([x, inner]); P.append([x, inner[:1]])
    return P


def bools_next_to_ints(ctx):
    """a bool and the int it equals inside one value (lists and dictionaries only, so that the leaves are the only hashable sub-values):
    DeepHash replaces a bool by its own marker object before it consults its table, so -- unlike 1 and 1.0 -- True and 1 never share an entry,
    whichever is hashed first, and NoNumAlias need not exclude them"""
    P = [[1, True], [1], [1, 1], [True, 1], [True], [True, True], [[1], [True]], [[1]], [[1], [1]], [[True], [1]], {'a': [1, True]}, {'a': [1]}, {'a': [1, 1]},
         [0, False], [0], [0, 0], [False, 0], [False], {1: [True]}, {1: [1]}, {'k': 1, 'j': [True]}, {'k': 1, 'j': [1]}, [1, [True]], [1, [1]], [1, 'a', True], [1, 'a', 1], [1, 'a'],
         [{'a': 1}, {'a': True}], [{'a': 1}, {'a': 1}], [{'a': 1}], [2, 1, True], [2, 1], [2, 1, 1], [0, 1, False, True], [0, 1], [0, 1, 0, 1]]
    g = Gen(ctx.rng, scalars=[1, True, 0, False, 2, 'a'], keys=['a', 'b', 1], kinds=('dict', 'list'), max_depth=3, max_width=4, p_leaf=0.5)
    def swap(v):
        if isinstance(v, bool):
            return int(v)
        if type(v) is int and v in (0, 1) and ctx.rng.random() < 0.5:
            return bool(v)
        if isinstance(v, list):
            return [swap(x) for x in v]
        if isinstance(v, dict):
            return {k: swap(x) for k, x in v.items()}
        return v
    for _ in range(60 if ctx.thorough() else 15):
        v = g.container()
        P.append(v); P.append(swap(v))
    for mname in CLAIMED:
        rep, order = HS.MODES[mname]
        kw = dict(ignore_repetition=rep, ignore_iterable_order=order)
        hs = []
        for v in P:
            try:
                hs.append(HS.deephash(v, **kw)[0])
            except Exception as e:
                hs.append('raised ' + type(e).__name__ + repr(v))
        for i, j in itertools.combinations(range(len(P)), 2):
            a, b = P[i], P[j]
            ctx.evaluations += 1
            if mname == 'ordered' and HS.canon(a, 'ordered') != HS.canon(b, 'ordered') and HS.canon(a, 'ordered_f7') == HS.canon(b, 'ordered_f7'):
                ctx.count('out_of_domain:F7_pattern'); continue
            eq = HS.canon(a, mname) == HS.canon(b, mname)
            if not eq:
                ctx.nontriv((repr(a), repr(b), mname, 'bools'))
            ctx.count('pairs_bool_int:' + mname)
            if hs[i] == hs[j] and not eq:
                ctx.violate({'a': repr(a), 'b': repr(b), 'mode': mname}, 'same hash although the values are not equivalent under the %s mode (a bool next to the int it equals)' % mname)


class Chain:
    """an ordered iterable that is not registered as a collections.abc.Sequence"""
    def __init__(self, *items):
        self.items = list(items)

    def __iter__(self):
        return iter(self.items)

    def __len__(self):
        return len(self.items)

    def __repr__(self):
        return 'Chain(%s)' % ', '.join(map(repr, self.items))


def ordered_non_sequences(ctx):
    """ordered mode (ignore_iterable_order=False, ignore_repetition=False) on ordered iterables of every kind, not only lists and tuples:
    numpy arrays, deques, ranges, user iterables -- a different order of different items is different content"""
    import collections
    import numpy as np
    mk = {'ndarray': lambda xs: np.array(xs), 'ndarray2d': lambda xs: np.array([xs, xs[::-1]]), 'deque': lambda xs: collections.deque(xs), 'Chain': lambda xs: Chain(*xs),
          'dict_of_ndarray': lambda xs: {'k': np.array(xs)}, 'list_of_Chain': lambda xs: [Chain(*xs), 0], 'range': lambda xs: range(xs[0], xs[0] + 3 * (1 if xs[0] < xs[-1] else -1), 1 if xs[0] < xs[-1] else -1)}
    seqs = [([1, 2, 3], [3, 2, 1]), ([1, 2], [2, 1]), ([5, 7, 9], [9, 5, 7]), ([1.5, 2.5, 0.5], [0.5, 1.5, 2.5])]
    kw = dict(ignore_repetition=False, ignore_iterable_order=False)
    for name, f in mk.items():
        for xs, ys in seqs:
            ctx.evaluations += 1
            try:
                a, b = f(xs), f(ys)
                ha, hb = HS.deephash(a, **kw)[0], HS.deephash(b, **kw)[0]
            except Exception as e:
                ctx.count('ordered_non_sequence_raised:' + type(e).__name__); continue
            ctx.count('ordered_non_sequences')
            ctx.nontriv((name, repr(xs), repr(ys)))
            if ha == hb:
                ctx.violate({'a': repr(a), 'b': repr(b), 'mode': 'ordered', 'kind': name}, 'same hash in the ordered mode although the items come in a different order')


def shared_table(ctx):
    """different content hashed into one long-lived table (temporaries that are freed, a container edited between calls) still gets
    different digests: an entry written for an object that no longer exists, or that has changed, must not answer for another value"""
    from deepdiff import DeepHash
    for mname in CLAIMED:
        rep, order = HS.MODES[mname]
        kw = dict(ignore_repetition=rep, ignore_iterable_order=order)
        table = {}
        seen = {}
        for i in range(120 if ctx.thorough() else 40):
            tmp = [i, i + 100] if i % 3 else (0, {'a': i})
            hsh = DeepHash(tmp, hashes=table, **kw)[tmp]
            ctx.evaluations += 1
            key = HS.canon(tmp, mname)
            for k2, h2 in seen.items():
                if h2 == hsh and k2 != key:
                    ctx.violate({'a': repr(tmp), 'b': repr(k2), 'mode': mname, 'scenario': 'one long-lived hashes table, earlier values freed'},
                                'same hash although the values are not equivalent (an entry of a freed object answered)'); break
            seen[key] = hsh
            del tmp
        lst = [1, 2, 3]
        h1 = DeepHash(lst, hashes=table, **kw)[lst]
        lst.append(4)
        h2 = DeepHash(lst, hashes=table, **kw)[lst]
        lst[0] = 'one'
        h3 = DeepHash(lst, hashes=table, **kw)[lst]
        ctx.evaluations += 1
        if len({h1, h2, h3}) != 3:
            ctx.violate({'a': '[1, 2, 3]', 'b': repr(lst), 'mode': mname, 'scenario': 'one table, the list edited in place between calls'},
                        'same hash for a list before and after it was edited')
        ctx.count('shared_table')


def instants(ctx):
    """datetimes under default_timezone: aware values are equal exactly when they are the same instant (whatever their offset, zero included), a naive
    value stands for its wall time in the default timezone"""
    import datetime as _dtm
    from deepdiff import DeepHash
    tzs = [_dtm.timezone.utc, _dtm.timezone(_dtm.timedelta(hours=5)), _dtm.timezone(_dtm.timedelta(hours=-3, minutes=-30)), _dtm.timezone(_dtm.timedelta(0), 'GMT'), None]
    walls = [(2024, 5, 1, 12, 0, 0), (2024, 5, 1, 7, 0, 0), (2024, 5, 1, 17, 0, 0), (2024, 5, 1, 15, 30, 0), (2024, 5, 1, 12, 0, 1)]
    vals = [_dtm.datetime(*w, tzinfo=tz) for w in walls for tz in tzs]
    for default in [_dtm.timezone(_dtm.timedelta(hours=5)), _dtm.timezone(_dtm.timedelta(hours=-3, minutes=-30)), _dtm.timezone.utc]:
        def instant(v):
            return (v if v.tzinfo is not None else v.replace(tzinfo=default)).astimezone(_dtm.timezone.utc)
        for mname in CLAIMED:
            rep, order = HS.MODES[mname]
            kw = dict(ignore_repetition=rep, ignore_iterable_order=order, default_timezone=default)
            for wrap, wname in ((lambda v: v, 'bare'), (lambda v: [v, 1], 'in a list'), (lambda v: {'k': v}, 'as a dictionary value')):
                hs = []
                for v in vals:
                    w = wrap(v)
                    try:
                        hs.append(DeepHash(w, **kw)[w])
                    except Exception as e:
                        hs.append('raised ' + type(e).__name__ + repr(v))
                for i, j in itertools.combinations(range(len(vals)), 2):
                    ctx.evaluations += 1
                    ctx.count('instants:' + mname)
                    if hs[i] == hs[j] and instant(vals[i]) != instant(vals[j]):
                        ctx.violate({'a': repr(vals[i]), 'b': repr(vals[j]), 'mode': mname, 'scenario': '%s, default_timezone=%r' % (wname, default)},
                                    'same hash although the two datetimes are different instants')
                    elif instant(vals[i]) != instant(vals[j]):
                        ctx.nontriv((repr(vals[i]), repr(vals[j]), mname, wname, repr(default)))


def text_spellings(ctx):
    """texts that are different to == but close in spelling: canonically equivalent Unicode forms (composed / decomposed, compatibility signs), code points no codec
    can encode (lone surrogates) next to the replacement characters a lenient encoder would write; as leaves, items, keys, values, set members, in every mode"""
    from deepdiff import DeepHash
    texts = ['caf\u00e9', 'cafe\u0301', '\u00c5', 'A\u030a', '\u212b', '\uac00', '\u1100\u1161', '\u03a9', '\u2126', 'q\u0307\u0323', 'q\u0323\u0307', '\ufb01', 'fi',
             'a\ud800', 'a\udc00', 'a\udfff', 'a?', 'a\ufffd', '\ud800', '?', 'x\udcffy', 'x?y']
    vals = texts + [t.encode('utf-8') for t in texts if not any(0xd800 <= ord(c) <= 0xdfff for c in t)]
    wraps = [('leaf', lambda v: v), ('item', lambda v: [v, 1]), ('value', lambda v: {'k': v}), ('key', lambda v: {v: 1}), ('member', lambda v: {v, 0}), ('nested', lambda v: ({'a': [(v,)]},))]
    for mname in CLAIMED:
        rep, order = HS.MODES[mname]
        kw = dict(ignore_repetition=rep, ignore_iterable_order=order)
        for wname, wrap in wraps:
            hs = []
            for v in vals:
                w = wrap(v)
                try:
                    hs.append(DeepHash(w, **kw)[w])
                except Exception as e:
                    hs.append('raised %s %r' % (type(e).__name__, v))          # no digest at all: cannot collide
            for i, j in itertools.combinations(range(len(vals)), 2):
                if type(vals[i]) is not type(vals[j]):
                    continue
                ctx.evaluations += 1
                ctx.count('text_spellings:' + mname)
                ctx.nontriv((repr(vals[i]), repr(vals[j]), mname, wname))
                if hs[i] == hs[j]:
                    ctx.violate({'a': ascii(vals[i]), 'b': ascii(vals[j]), 'mode': mname, 'scenario': wname}, 'same hash although the two texts are different')


def run(ctx, impl_only=False):
    findings = {f['id']: f for f in core.load_findings(ID) if f.get('status') == 'open'}
    P = pool(ctx)
    # hashes per mode
    H = {}
    lines, metas = [], []
    for mname in CLAIMED:
        rep, order = HS.MODES[mname]
        kw = dict(ignore_repetition=rep, ignore_iterable_order=order)
        for i, v in enumerate(P):
            try:
                H[(mname, i)] = HS.deephash(v, **kw)
            except Exception as e:
                H[(mname, i)] = ('raised ' + type(e).__name__, 0)
            if not impl_only:
                try:
                    lines.append(HS.hash_line(v, **kw)); metas.append(({'value': repr(v), 'mode': mname}, H[(mname, i)]))
                except OutOfUniverse:
                    pass
    for mname in CLAIMED:
        for i, j in itertools.combinations(range(len(P)), 2):
            a, b = P[i], P[j]
            ctx.evaluations += 1
            if not (HS.no_spoof(a, b) and HS.no_num_alias(a) and HS.no_num_alias(b)):
                ctx.count('out_of_domain'); continue
            if mname == 'ordered' and HS.canon(a, 'ordered') != HS.canon(b, 'ordered') and HS.canon(a, 'ordered_f7') == HS.canon(b, 'ordered_f7'):
                ctx.count('out_of_domain:F7_pattern'); continue      # same items, same counts, same first-occurrence order: the F7 region
            eq = HS.canon(a, mname) == HS.canon(b, mname)
            same = H[(mname, i)][0] == H[(mname, j)][0]
            if not eq:
                ctx.nontriv((repr(a), repr(b), mname))
            ctx.count('pairs:' + mname)
            case = {'a': repr(a), 'b': repr(b), 'mode': mname}
            if same and not eq:
                ctx.violate(case, 'same hash although the values are not equivalent under the %s mode' % mname)
            if eq and not same:
                ctx.count('equivalent_but_different_hash')      # the other direction belongs to C06; recorded, not judged here
        ctx.sample({'mode': mname, 'pool_size': len(P)})
    bools_next_to_ints(ctx)
    ordered_non_sequences(ctx)
    shared_table(ctx)
    instants(ctx)
    text_spellings(ctx)
    # ---- boundary witnesses
    from deepdiff import DeepHash, DeepDiff
    def h(v, **kw):
        return DeepHash(v, **kw)[v]
    wit = {
        'F5a': lambda: h('NONE') != h(None),
        'F5b': lambda: h('int:1') != h(1),
        'F5c': lambda: h('bool:true') != h(True),
        'F5d': lambda: h('list:' + h(1)) != h([1]),
        'F7': lambda: h([1, 2, 1], ignore_iterable_order=False, ignore_repetition=False) != h([1, 1, 2], ignore_iterable_order=False, ignore_repetition=False),
    }
    for fid, fn in wit.items():
        ctx.evaluations += 1
        try:
            ok = fn()
        except Exception:
            ok = False
        if fid in findings:
            (ctx.known_not_reproduced if ok else ctx.known_reproduced).append(fid if ok else '%s: %s' % (fid, findings[fid]['what_fails']))
        elif not ok:
            ctx.violate({'witness': fid}, 'boundary witness %s fails and is not a listed finding' % fid)
    if ctx.build_ok and not impl_only:
        ans = core.run_model(lines)
        for (case, (hh, c)), a_ in zip(metas, ans):
            ctx.traces += 1
            try:
                mh, mc = a_.split(' ')
                mh = ''.join(chr(int(x)) for x in mh.split('.')) if mh != '_' else ''
            except Exception:
                ctx.diverge(case, '%s %s' % (hh, c), a_, op='HASH'); continue
            if mh != hh or int(mc) != c:
                ctx.diverge(case, '%s %s' % (hh, c), '%s %s' % (mh, mc), op='HASH')


def search(ctx):
    c2 = core.Ctx(ctx.pid, 'thorough', ctx.seed + 1)
    c2.build_ok = False
    run(c2, impl_only=True)
    return c2.violations


def replay(ctx, payload):
    ok = True
    for c in payload.get('cases', []):
        case = c['case']
        if 'a' in case:
            a, b = eval(case['a']), eval(case['b'])
            rep, order = HS.MODES[case['mode']]
            kw = dict(ignore_repetition=rep, ignore_iterable_order=order)
            same = HS.deephash(a, **kw)[0] == HS.deephash(b, **kw)[0]
            eq = HS.canon(a, case['mode']) == HS.canon(b, case['mode'])
            good = not (same and not eq)
            print('  ', case, 'same_hash=%s equivalent=%s' % (same, eq), '->', 'holds' if good else 'FAILS')
            ok = ok and good
        else:
            print('  ', case, c.get('why')); ok = False
    return ok
