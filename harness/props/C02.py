"""C02 — an empty diff means equal; a structural copy always gives an empty diff."""
import copy
from .. import core, diffing as DF, hashing as HS
from ..gen import Gen, strict_eq
from ..wire import OutOfUniverse
from . import _difffam as FAM

ID = 'C02'
LEAN_TARGETS = ['Properties.C02']
THEOREMS = ['Diff.C02_copy_empty', 'Diff.C02_alignRefl_of_equal_only', 'Diff.C02_N_spoof_set', 'Diff.C02_empty_implies_equal', 'Diff.C02_set_members_deephash',
            'Diff.C02_empty_implies_equal_deephash']
RULE = ('nested values and (a) their deep copies, (b) their single-edit neighbours (every kind of one-step difference at every depth), (c) random edits, under '
        'view x verbose_level in {1,2} x threshold_to_diff_deeper x zip_ordered_iterables x cache_size x max_passes (and ignore_order for the copy clause); '
        'emptiness is compared with structural / Python equality and the full result with the Lean model. distinct = distinct (t1, t2, config); '
        'non-trivial = t1 and t2 are not structural copies')
TRUSTED_BASE = ['input non-mutation is observed by deep snapshots, not proved (a value model has no mutation)', 'numpy arrays and datetimes: observed only']
ASSUMPTIONS = ['NoSpoof / NoNumAlias for the empty => equal direction with sets (finding F5e)', 'set members are scalars (finding F39: tuples inside sets are compared up to order and repetition)', 'threshold_to_diff_deeper in [0, 1]']

CFGS = [dict(), dict(verbose_level=2), dict(view='tree'), dict(threshold_to_diff_deeper=0), dict(threshold_to_diff_deeper=0.9, verbose_level=2),
        dict(threshold_to_diff_deeper=1, view='tree'), dict(zip_ordered_iterables=True), dict(zip_ordered_iterables=True, threshold_to_diff_deeper=0, verbose_level=2),
        dict(cache_size=0), dict(cache_size=500, max_passes=0), dict(max_passes=1, verbose_level=2)]
IO_CFGS = [dict(ignore_order=True), dict(ignore_order=True, report_repetition=True, verbose_level=2), dict(ignore_order=True, cache_size=0, max_passes=0),
           dict(ignore_order=True, view='tree', cutoff_distance_for_pairs=0.9)]


def special_values():
    import datetime, decimal
    return [datetime.datetime(2020, 1, 2, 3, 4), datetime.date(2020, 1, 2), datetime.time(1, 2, 3), datetime.timedelta(days=1),
            decimal.Decimal('1.50'), {'d': datetime.datetime(2020, 1, 2, tzinfo=datetime.timezone.utc)}, [datetime.date(2020, 1, 1), 1.5]]


def run(ctx, impl_only=False):
    from deepdiff import DeepDiff
    findings = {f['id']: f for f in core.load_findings(ID) if f.get('status') == 'open'}
    g = Gen(ctx.rng, keys=FAM.KEYS_C03, max_depth=3, max_width=4, multiline=True, bytes_=True)
    n = 900 if ctx.thorough() else 120
    reqs = []
    vals = [g.container() for _ in range(n)] + special_values()
    try:
        import numpy as np
        vals += [np.array([1, 2, 3]), {'a': np.array([[1.5, 2.5], [3.5, 4.5]])}]
    except Exception:
        pass
    rp = FAM.rich_pairs(ctx, 120 if ctx.thorough() else 30) + FAM.hostile_pairs(ctx, 160 if ctx.thorough() else 40)
    # keys with a double underscore that is not at the start are ordinary keys: a difference under one is a difference
    for k_ in ['user__id', 'created__gte', 'a__', '_x__y', 'x____', 'é__é']:
        rp += [({k_: 1, 'z': 0}, {k_: 2, 'z': 0}), ({k_: 1, 'z': 0}, {'z': 0}), ({'z': 0}, {k_: None, 'z': 0}), ([0, {'q': {k_: [1, 2]}}], [0, {'q': {k_: [1, 3]}}]), ({k_: {k_: 'a'}}, {k_: {k_: 'b'}})]
    vals += [p[0] for p in rp[:len(rp) // 2]]
    for (v, w) in rp:
        for cfg in [ctx.rng.choice(CFGS) for _ in range(2)]:
            ctx.evaluations += 1
            case = {'t1': repr(v), 't2': repr(w), 'cfg': cfg, 'clause': 'empty=>equal (rich leaves)'}
            try:
                d = DeepDiff(v, w, **cfg)
            except Exception as e:
                ctx.violate(case, 'DeepDiff raised %s: %s' % (type(e).__name__, str(e)[:100])); continue
            if not strict_eq(v, w):
                ctx.nontriv((repr(v), repr(w), repr(sorted(cfg.items()))))
            ctx.count('rich_pair:' + ('empty' if not d else 'nonempty'))
            if not d and not (v == w):
                ctx.violate(case, 'empty diff although t1 != t2')
    for v in vals:
        snap = copy.deepcopy(v)
        is_np = 'numpy' in repr(type(v)) or 'array(' in repr(v)
        # ---- (a) a structural copy gives an empty diff, in every configuration
        for cfg in CFGS + IO_CFGS:
            ctx.evaluations += 1
            c = copy.deepcopy(v)
            case = {'t1': repr(v), 't2': repr(c), 'cfg': cfg, 'clause': 'copy'}
            try:
                d = DeepDiff(v, c, **cfg)
            except Exception as e:
                ctx.violate(case, 'DeepDiff of a copy raised %s: %s' % (type(e).__name__, str(e)[:100])); continue
            if d:
                ctx.violate(case, 'structural copy gave a non-empty diff: %s' % repr(d)[:200])
            ctx.count('copy')
        try:
            unchanged = repr(v) == repr(snap) if is_np else strict_eq(v, snap)
        except Exception:
            unchanged = True
        if not unchanged:
            ctx.violate({'t1': repr(snap), 'now': repr(v)}, 'DeepDiff modified its input')
        if is_np or not isinstance(v, (dict, list, tuple, set, frozenset)):
            continue
        # ---- (b)/(c) neighbours: empty => ==
        neigh = FAM.single_edit_neighbours(ctx, v, 4) + [g.edits(v, 2)]
        for w in neigh:
            for cfg in [ctx.rng.choice(CFGS) for _ in range(3)]:
                ctx.evaluations += 1
                case = {'t1': repr(v), 't2': repr(w), 'cfg': cfg, 'clause': 'empty=>equal'}
                try:
                    d = DeepDiff(v, w, **cfg)
                except Exception as e:
                    ctx.count('raised:' + type(e).__name__); continue
                try:
                    eq = (v == w)
                except Exception:
                    eq = False
                if not strict_eq(v, w):
                    ctx.nontriv((repr(v), repr(w), repr(sorted(cfg.items()))))
                ctx.count('neighbour:' + ('empty' if not d else 'nonempty'))
                if not d and not eq:
                    if HS.no_spoof(v, w) and HS.no_num_alias(v, w):
                        ctx.violate(case, 'empty diff although t1 != t2')
                    else:
                        ctx.count('out_of_domain:spoof_or_alias')
                if strict_eq(v, w) and d:
                    ctx.violate(case, 'structurally equal values gave a non-empty diff')
            if FAM.in_universe(v, w) and not impl_only:
                vb = ctx.rng.choice([1, 2]); z = ctx.rng.random() < 0.4; thr = ctx.rng.choice([0, 0.33, 0.9, 1])
                reqs.append(({'t1': repr(v), 't2': repr(w), 'zip': z, 'thr': thr, 'verbose': vb}, v, w, z, thr, True, vb))
        if len(ctx.samples) < 5:
            ctx.sample({'t1': repr(v)[:120], 'neighbour': repr(neigh[0])[:120]})
    # ---- pairs that share objects (t2 inside t1, shallow copies, one list at several positions): same verdicts as for deep copies
    for (v, w) in FAM.alias_pairs(ctx, 60 if ctx.thorough() else 15):
        for cfg in [ctx.rng.choice(CFGS) for _ in range(2)]:
            ctx.evaluations += 1
            case = {'t1': repr(v), 't2': repr(w), 'cfg': cfg, 'clause': 'shared objects'}
            try:
                d = DeepDiff(v, w, **cfg)
                d2 = DeepDiff(copy.deepcopy(v), copy.deepcopy(w), **cfg)
            except Exception as e:
                ctx.count('raised:' + type(e).__name__); continue
            ctx.count('shared_objects')
            if not d and not (v == w):
                ctx.violate(case, 'empty diff although t1 != t2 (t1 and t2 share objects)')
            if bool(d) != bool(d2):
                ctx.violate(case, 'sharing objects between / inside the inputs changes the verdict')
    # ---- dictionary keys whose location has no path string (frozensets, non-finite floats, tuples that hold them): a difference at or below
    #      such a key is still a difference, in every view
    odd_keys = [frozenset({1, 2}), frozenset(), float('inf'), float('-inf'), (1, frozenset({'a'})), (float('inf'), 2)]
    for _ in range(40 if ctx.thorough() else 12):
        k = ctx.rng.choice(odd_keys)
        inner = ctx.rng.choice([1, 'x', [1, 2], {'a': 1}, None])
        v = {k: inner, 'other': 'x'}
        edits = []
        w1 = copy.deepcopy(v); w1[k] = ctx.rng.choice([2, 'y', [1, 3], {'a': 2}, 7.5]); edits.append(w1)
        w2 = copy.deepcopy(v); del w2[k]; edits.append(w2)
        w3 = {'other': 'x'}; edits.append(w3)
        if isinstance(inner, (list, dict)):
            w4 = copy.deepcopy(v)
            if isinstance(inner, list):
                w4[k].append(9)
            else:
                w4[k]['b'] = 9
            edits.append(w4)
        wrap = ctx.rng.choice([lambda x: x, lambda x: [x, 0], lambda x: {'top': x}])
        for w in edits:
            for (a, b) in ((wrap(v), wrap(w)), (wrap(w), wrap(v))):
                for cfg in [ctx.rng.choice(CFGS) for _ in range(2)]:
                    ctx.evaluations += 1
                    case = {'t1': repr(a), 't2': repr(b), 'cfg': cfg, 'clause': 'empty=>equal (key without a path string)'}
                    try:
                        d = DeepDiff(a, b, **cfg)
                    except Exception as e:
                        ctx.count('raised:' + type(e).__name__); continue
                    ctx.count('unrepresentable_key:' + ('empty' if not d else 'nonempty'))
                    if not d and not (a == b):
                        ctx.violate(case, 'empty diff although t1 != t2')
                    if strict_eq(a, b) and d:
                        ctx.violate(case, 'structurally equal values gave a non-empty diff')
    numpy_pairs(ctx)
    align_sound(ctx)
    local_zone(ctx)
    close_floats(ctx)
    long_inputs(ctx)
    if not impl_only:
        FAM.compare_with_model(ctx, reqs)
    import datetime as _dt2
    wit = {'F65': lambda: bool(DeepDiff({_dt2.time(12, 0, tzinfo=_dt2.timezone.utc)}, {_dt2.time(12, 0, tzinfo=_dt2.timezone(_dt2.timedelta(hours=5)))})),
           'F5e': lambda: bool(DeepDiff({'NONE'}, {None})),
           'F39': lambda: bool(DeepDiff({(1, 1, 2)}, {(1, 2, 2)})) and bool(DeepDiff({(1, 2)}, {(2, 1)})) and bool(DeepDiff([frozenset({(1, 2)})], [frozenset({(2, 1)})]))}
    for fid, fn in wit.items():
        ctx.evaluations += 1
        ok = fn()
        if fid in findings:
            (ctx.known_not_reproduced if ok else ctx.known_reproduced).append(fid if ok else '%s: %s' % (fid, findings[fid]['what_fails']))
        elif not ok:
            ctx.violate({'witness': fid}, 'boundary witness %s fails and is not a listed finding' % fid)


def long_inputs(ctx):
    """inputs with more than ten thousand members / items / keys, edited near their end, at the root and nested: the verdict does not depend on the size"""
    from deepdiff import DeepDiff
    n = 12000 + ctx.rng.randint(0, 500)
    base = list(range(n))
    late = n - 1 - ctx.rng.randint(0, 50)
    early = ctx.rng.randint(0, 50)
    cases = []
    for pos in (late, early):
        cases.append((set(base), (set(base) - {pos}) | {-7}))
        cases.append((frozenset(base), frozenset(base) - {pos}))
        cases.append(({'s': set(base), 'k': 1}, {'s': set(base) | {n + 5}, 'k': 1}))
        cases.append(([0, set(map(str, base))], [0, set(map(str, base)) - {str(pos)} | {'new'}]))
        cases.append((base, base[:pos] + [-1] + base[pos + 1:]))
        cases.append((dict.fromkeys(base, 0), {**dict.fromkeys(base, 0), pos: 1}))
    cases.append((set(base), set(base)))
    cases.append(({'s': frozenset(base)}, {'s': frozenset(reversed(base))}))
    for (a, b) in (cases if ctx.thorough() else cases[:6] + cases[-2:]):
        ctx.evaluations += 1
        case = {'t1': 'container of %d members: %s...' % (n, repr(a)[:60]), 't2': 'edited near position %s' % ('the end' if a != b else '(none)'), 'clause': 'long inputs'}
        try:
            d = DeepDiff(a, b)
        except Exception as e:
            ctx.violate(case, 'DeepDiff raised %s' % type(e).__name__); continue
        ctx.count('long_inputs')
        if a != b:
            ctx.nontriv((repr(a)[:40], n, len(cases)))
        if bool(d) != (a != b):
            ctx.violate(case, 'empty diff although t1 != t2' if not d else 'equal values gave a non-empty diff')


def close_floats(ctx):
    """floats that differ by as little as floats can: adjacent representable numbers, tiny magnitudes, the two smallest positive numbers --
    wherever they sit (leaf, item, dictionary value, set member), t1 != t2, so the plain diff is not empty"""
    import math
    from deepdiff import DeepDiff
    import datetime as _dtm
    tz = lambda h: _dtm.timezone(_dtm.timedelta(hours=h))
    pairs = [('caf\u00e9', 'cafe\u0301'), ('\u03a9', '\u2126'), ('\u00c5', '\u212b'), ('\uac00', '\u1100\u1161'), ('caf\u00e9'.encode(), 'cafe\u0301'.encode()), ('\ufb01', 'fi'), ('a\u00e9\nb', 'ae\u0301\nb'),
             (b'caf\xe9', b'caf\xc3\xa9'), (b'\x80', b'\xc2\x80'), (b'a\xff', b'a\xc3\xbf'), (b'l1\n\xe9', b'l1\n\xc3\xa9'),
             (_dtm.time(12, 0, tzinfo=tz(0)), _dtm.time(12, 0, tzinfo=tz(5))), (_dtm.time(12, 0, tzinfo=tz(0)), _dtm.time(12, 0)), (_dtm.time(1, 2, 3, tzinfo=tz(-8)), _dtm.time(1, 2, 3, tzinfo=tz(9))),
             (0.1, math.nextafter(0.1, 1)), (1.0, math.nextafter(1.0, 2)), (1.0, math.nextafter(1.0, 0)), (1e-20, 2e-20), (0.0, 5e-324), (5e-324, 1e-323), (1e-300, -1e-300),
             (1e16, 1e16 + 2), (-2.5, math.nextafter(-2.5, 0)), (1e-17, 0.0), (3.0000000000000004, 3.0), (123456.789, math.nextafter(123456.789, 0))]
    wraps = [lambda v: v, lambda v: [v], lambda v: {'k': v}, lambda v: (1, v), lambda v: {v}, lambda v: [{'a': [v, 'x']}, 0], lambda v: {'k': {'j': v}, 'z': 1.5}]
    for a, b in pairs:
        for w in wraps:
            if isinstance(a, bytes) and w is wraps[4]:
                continue            # undecodable bytes as set members: DeepHash refuses them by design (encodings=...)
            if isinstance(a, _dtm.time) and w is wraps[4]:
                continue            # times of one wall clock and different offsets as set members: finding F65 (the digest of a time drops its offset)
            for cfg in ({}, {'view': 'tree'}, {'verbose_level': 2}, {'zip_ordered_iterables': True}, {'threshold_to_diff_deeper': 0}):
                ctx.evaluations += 1
                x, y = w(a), w(b)
                case = {'t1': repr(x), 't2': repr(y), 'cfg': cfg, 'clause': 'empty=>equal (adjacent floats)'}
                try:
                    d = DeepDiff(x, y, **cfg)
                except Exception as e:
                    ctx.violate(case, 'DeepDiff raised %s' % type(e).__name__); continue
                ctx.count('close_floats')
                ctx.nontriv((repr(x), repr(y), repr(sorted(cfg.items()))))
                if not d:
                    ctx.violate(case, 'empty diff although t1 != t2')


ZONE_SCRIPT = r'''
import os, sys, json, time
os.environ['TZ'] = %r
time.tzset()
sys.path.insert(0, %r)
import datetime
from deepdiff import DeepDiff
out = []
for a, b, cfg in json.loads(sys.stdin.read()):
    x, y = eval(a), eval(b)
    try:
        d = DeepDiff(x, y, **cfg)
        out.append([bool(d), x == y])
    except Exception as e:
        out.append(['raised ' + type(e).__name__, x == y])
print(json.dumps(out))
'''


def local_zone(ctx):
    """naive datetimes are compared as written, whatever the zone of the process: in interpreters whose local zone has daylight saving
    (POSIX rules, no zone database needed), pairs of naive datetimes around the hour that is skipped / repeated when the clocks change
    -- which a conversion through the local zone would merge -- still give an empty diff exactly when they are equal"""
    import json, subprocess
    zones = ['EST5EDT,M3.2.0,M11.1.0', 'CET-1CEST,M3.5.0,M10.5.0/3'] + (['AEST-10AEDT,M10.1.0,M4.1.0/3', 'UTC0'] if ctx.thorough() else [])
    walls = ['datetime.datetime(2021, 3, 14, 2, 30)', 'datetime.datetime(2021, 3, 14, 3, 30)', 'datetime.datetime(2021, 3, 14, 2, 0)', 'datetime.datetime(2021, 3, 14, 3, 0)',
             'datetime.datetime(2021, 3, 28, 2, 30)', 'datetime.datetime(2021, 3, 28, 3, 30)', 'datetime.datetime(2021, 11, 7, 1, 30)', 'datetime.datetime(2021, 11, 7, 1, 30, fold=1)',
             'datetime.datetime(2021, 10, 31, 2, 30)', 'datetime.datetime(2021, 10, 3, 2, 30)', 'datetime.datetime(2021, 10, 3, 3, 30)', 'datetime.datetime(2021, 6, 1, 12, 0)']
    wraps = ['%s', '[%s]', "{'k': %s}", '(%s, 1)', '{%s}', 'frozenset([%s])', "[1, {'a': [%s]}]"]
    cfgs = [{}, {'ignore_order': True}, {'view': 'tree'}, {'verbose_level': 2}, {'truncate_datetime': 'second'}]
    jobs = []
    for i, a in enumerate(walls):
        for b in walls[i:]:
            w = wraps[(len(jobs) + ctx.rng.randrange(len(wraps))) % len(wraps)]
            jobs.append([w % a, w % b, cfgs[ctx.rng.randrange(len(cfgs))]])
    for tz in zones:
        p = subprocess.run(['/venv/bin/python', '-c', ZONE_SCRIPT % (tz, core.REPO)], input=json.dumps(jobs), capture_output=True, text=True, timeout=600)
        if p.returncode != 0:
            raise core.ToolFailure('zone subprocess failed: ' + p.stderr[-300:])
        res = json.loads(p.stdout.strip().split('\n')[-1])
        for (a, b, cfg), (nonempty, equal) in zip(jobs, res):
            ctx.evaluations += 1
            ctx.count('local_zone:' + tz.split(',')[0])
            case = {'t1': a, 't2': b, 'cfg': cfg, 'clause': 'naive datetimes in a process with local zone TZ=' + tz}
            if not equal:
                ctx.nontriv((a, b, repr(sorted(cfg.items())), tz))
            if isinstance(nonempty, str):
                ctx.violate(case, 'DeepDiff %s' % nonempty)
            elif not nonempty and not equal:
                ctx.violate(case, 'empty diff although t1 != t2')
            elif nonempty and equal and a == b:
                ctx.violate(case, 'a value compared with itself gave a non-empty diff')


def numpy_pairs(ctx):
    """numeric arrays: an empty diff only for arrays of the same shape and content - rows / columns appended or dropped, a changed entry,
    another dtype -, bare and nested, under the tuning parameters"""
    try:
        import numpy as np
    except ImportError:
        return
    from deepdiff import DeepDiff
    base = [np.array([[1, 2], [3, 4]]), np.array([1, 2, 3]), np.array([[1.5, 2.5, 3.5]]), np.array([[[1], [2]], [[3], [4]]]), np.zeros((2, 0)), np.array([[1, 2], [3, 4], [5, 6]])]
    def variants(a):
        out = [a.copy()]
        if a.ndim >= 2 and a.shape[0] >= 1:
            out.append(np.concatenate([a, a[-1:]], axis=0))          # a row appended
            out.append(a[:-1])                                        # a row dropped
        if a.ndim >= 2 and a.shape[1] >= 1:
            out.append(np.concatenate([a, a[:, -1:]], axis=1))       # a column appended
        if a.ndim == 1:
            out.append(np.concatenate([a, a[-1:]])); out.append(a[:-1])
        if a.size:
            b = a.copy(); b.flat[-1] = b.flat[-1] + 1; out.append(b)
        return out
    wraps = [lambda x: x, lambda x: {'a': x, 'n': 1}, lambda x: [0, x]]
    for a in base:
        for b in variants(a):
            for w in wraps:
                for cfg in [{}, dict(cache_size=500), dict(verbose_level=2, view='tree'), dict(threshold_to_diff_deeper=0)]:
                    for (x, y) in ((a, b), (b, a)):
                        t1, t2 = w(x.copy()), w(y.copy())
                        case = {'t1': repr(t1), 't2': repr(t2), 'cfg': cfg, 'clause': 'numpy'}
                        ctx.evaluations += 1
                        try:
                            d = DeepDiff(t1, t2, **cfg)
                        except Exception as e:
                            ctx.violate(case, 'DeepDiff raised %s: %s' % (type(e).__name__, str(e)[:80])); continue
                        same = x.shape == y.shape and bool((x == y).all())
                        ctx.count('numpy:' + ('same' if same else 'different'))
                        if not same:
                            ctx.nontriv((repr(t1), repr(t2), repr(sorted(cfg.items()))))
                        if same and d:
                            ctx.violate(case, 'equal arrays gave a non-empty diff')
                        if not same and not d:
                            ctx.violate(case, 'empty diff although the arrays differ')


def align_sound(ctx):
    """assumption AlignSound of C02_empty_implies_equal on the real difflib: when get_opcodes() answers with 'equal' blocks only (or every
    other block is empty), the two lists of scalars are equal item by item; and AlignRefl: a list against itself gives 'equal' blocks only"""
    import difflib
    pool = [0, 1, 2, 3, True, False, 1.0, 0.0, 2.5, 'a', 'b', '', None, b'a', 'A']
    n = 4000 if ctx.thorough() else 600
    for _ in range(n):
        a = [ctx.rng.choice(pool) for _ in range(ctx.rng.randint(0, 7))]
        r = ctx.rng.random()
        if r < 0.3:
            b = list(a)
        elif r < 0.6:
            b = [({1: True, 0: False, True: 1.0, False: 0, 1.0: 1, 0.0: False}.get(x, x) if type(x) in (int, bool, float) and ctx.rng.random() < 0.5 else x) for x in a]   # == but another type
        else:
            b = list(a)
            if b and ctx.rng.random() < 0.7:
                b[ctx.rng.randrange(len(b))] = ctx.rng.choice(pool)
            if ctx.rng.random() < 0.3:
                b.insert(ctx.rng.randint(0, len(b)), ctx.rng.choice(pool))
        ops = difflib.SequenceMatcher(None, a, b, autojunk=False).get_opcodes()
        silent = all(tag == 'equal' or (i1 == i2 and j1 == j2) for tag, i1, i2, j1, j2 in ops)
        ctx.evaluations += 1
        ctx.count('align_sound:' + ('all_equal' if silent else 'other'))
        if silent and not (len(a) == len(b) and all(x == y for x, y in zip(a, b))):
            ctx.violate({'t1': repr(a), 't2': repr(b), 'clause': 'AlignSound'}, 'difflib answers all-equal for lists that differ: %r' % (ops,))
        if strict_eq(a, b) and not silent:
            ctx.violate({'t1': repr(a), 't2': repr(b), 'clause': 'AlignRefl'}, 'difflib reports a change between a list and its copy: %r' % (ops,))


def search(ctx):
    c2 = core.Ctx(ctx.pid, 'thorough', ctx.seed + 1)
    c2.build_ok = False
    run(c2, impl_only=True)
    return c2.violations


def replay(ctx, payload):
    import datetime, decimal
    from deepdiff import DeepDiff
    env = {'datetime': datetime, 'Decimal': decimal.Decimal}
    try:
        import numpy
        env['array'] = numpy.array
    except Exception:
        pass
    ok = True
    for c in payload.get('cases', []):
        case = c['case']
        try:
            t1, t2 = eval(case['t1'], env), eval(case['t2'], env)
            d = DeepDiff(t1, t2, **case.get('cfg', {}))
            good = (not d) if case.get('clause') == 'copy' else (bool(d) or t1 == t2)
        except Exception as e:
            good = False
        print('  ', case, '->', 'holds' if good else 'FAILS')
        ok = ok and good
    return ok
