"""C18 — LFU cache: correspondence (real heap vs Lean bucket model, after every operation) and an
independent reference LFU evaluated on the implementation."""
import itertools, threading, sys, random
from .. import core

ID = 'C18'
LEAN_TARGETS = ['Properties.C18']
THEOREMS = ['LFU.C18_inv', 'LFU.C18_capacity', 'LFU.C18_refines', 'LFU.C18_get_last_set',
            'LFU.C18_victim_min', 'LFU.C18_atomic_steps']
RULE = ('op sequences over get/set: exhaustive up to a length bound over 3 keys and capacities 1..3, plus random longer '
        'ones over more keys/capacities; distinct = distinct (cap, op sequence); non-trivial = the history evicts at least '
        'once and has at least one successful get')
TRUSTED_BASE = ['pointer representation of lfucache.py abstracted to a bucket list by the harness heap walk',
                'threading.Lock / the GIL (atomicity of get and set is read from the source: whole body under `with self.lock`)']
ASSUMPTIONS = ['values are plain (set(key, value=v)); the report_type variant of set() is unused by DeepDiff and not modelled',
               'thread schedules: only atomic-step interleavings are covered by the theorems; real threads are exercised, not proved']


def heap_walk(cache):
    """Follow freq_link_head/nxt/pre and cache_head/nxt/pre; check pointer symmetry; return the
    bucket list [(freq, [(key, content)])]."""
    out = []
    fn = cache.freq_link_head
    prev = None
    seen = 0
    while fn is not None:
        assert fn.pre is prev, 'freq pre link broken'
        ents = []
        cn = fn.cache_head
        cprev = None
        while cn is not None:
            assert cn.pre is cprev, 'cache pre link broken'
            assert cn.freq_node is fn, 'freq_node back pointer broken'
            assert cache.cache.get(cn.key) is cn, 'dict does not point at the node'
            ents.append((cn.key, cn.content))
            cprev, cn = cn, cn.nxt
            seen += 1
            assert seen <= 10**6
        assert fn.cache_tail is cprev, 'cache_tail wrong'
        out.append((fn.freq, ents))
        prev, fn = fn, fn.nxt
    assert seen == len(cache.cache), 'dict size %d != linked nodes %d' % (len(cache.cache), seen)
    return out


def show_state(bs):
    if not bs:
        return '-'
    return '|'.join('%d[%s]' % (f, ','.join('%d=%d' % kv for kv in es)) for f, es in bs)


def run_impl(cap, ops):
    from deepdiff.lfucache import LFUCache
    from deepdiff.helper import not_found
    try:
        c = LFUCache(cap)
    except ValueError:
        return 'ValueError'
    res = []
    for op in ops:
        before = set(c.cache.keys())
        if op[0] == 'g':
            r = c.get(op[1])
            o = 'nf' if r is not_found else 'v%d' % r
        else:
            c.set(op[1], value=op[2])
            gone = before - set(c.cache.keys())
            assert len(gone) <= 1
            o = 'ev%d' % next(iter(gone)) if gone else 'ok'
        res.append(o + '@' + show_state(heap_walk(c)))
    return ' '.join(res)


def ref_check(cap, ops):
    """Independent reference: dict key -> [val, uses, stamp]; victim = argmin (uses, stamp).
    Evaluates the property on the implementation; returns None or a description of the failure."""
    from deepdiff.lfucache import LFUCache
    from deepdiff.helper import not_found
    c = LFUCache(cap)
    ref, clock = {}, 0
    for i, op in enumerate(ops):
        if op[0] == 'g':
            r = c.get(op[1])
            if op[1] in ref:
                if r is not_found or r != ref[op[1]][0] or type(r) is not type(ref[op[1]][0]):
                    return 'op %d: get(%r) returned %r, last value set was %r' % (i, op[1], r, ref[op[1]][0])
                ref[op[1]][1] += 1
                ref[op[1]][2] = clock
            elif r is not not_found:
                return 'op %d: get(%r) returned %r for an absent/evicted key' % (i, op[1], r)
        else:
            c.set(op[1], value=op[2])
            if op[1] in ref:
                ref[op[1]][0] = op[2]
            else:
                if len(ref) >= cap:
                    victim = min(ref, key=lambda k: (ref[k][1], ref[k][2]))
                    del ref[victim]
                ref[op[1]] = [op[2], 0, clock]
        clock += 1
        if len(c.cache) > cap:
            return 'op %d: %d keys held, capacity %d' % (i, len(c.cache), cap)
        if set(c.cache.keys()) != set(ref.keys()):
            return 'op %d: keys held %r, LFU reference %r' % (i, sorted(c.cache.keys()), sorted(ref.keys()))
        for k, f in c.get_sorted_cache_keys():
            if f != ref[k][1]:
                return 'op %d: use count of %r is %d, %d successful gets since insertion' % (i, k, f, ref[k][1])
        for k in ref:
            if (k in c) is not True:
                return 'op %d: %r not reported by __contains__' % (i, k)
    return None


def line_of(cap, ops):
    return 'LFU %d ' % cap + ' '.join(('g%d' % o[1]) if o[0] == 'g' else 's%d:%d' % (o[1], o[2]) for o in ops)


def gen_cases(ctx):
    cases = []
    L = 6 if ctx.thorough() else 4
    alphabet = [('g', k) for k in (1, 2, 3)] + [('s', k) for k in (1, 2, 3)]
    for cap in (1, 2, 3):
        for seq in itertools.product(alphabet, repeat=L):
            ops = [(o[0], o[1]) if o[0] == 'g' else ('s', o[1], 10 + i) for i, o in enumerate(seq)]
            cases.append((cap, ops))
    ctx.extra['exhaustive_len'] = L
    n = 20000 if ctx.thorough() else 2500
    for _ in range(n):
        cap = ctx.rng.choice([1, 2, 3, 4, 5, 8, 13])
        nk = ctx.rng.randint(1, cap + 4)
        ln = ctx.rng.randint(1, 60)
        ops = []
        for i in range(ln):
            k = ctx.rng.randint(1, nk)
            if ctx.rng.random() < 0.5:
                ops.append(('g', k))
            else:
                ops.append(('s', k, 100 + i))
        cases.append((cap, ops))
    return cases


def threaded(ctx):
    """Concurrent gets and sets: no exception, heap well-formed afterwards, capacity respected."""
    from deepdiff.lfucache import LFUCache
    old = sys.getswitchinterval()
    sys.setswitchinterval(1e-6)
    fails = []
    try:
        for rnd in range(12 if ctx.thorough() else 3):
            cap = ctx.rng.choice([1, 2, 3, 5])
            c = LFUCache(cap)
            errs = []

            def work(seed):
                r = random.Random(seed)
                try:
                    for i in range(1500):
                        k = r.randint(1, cap + 3)
                        if r.random() < 0.5:
                            c.get(k)
                        else:
                            c.set(k, value=i)
                except Exception as e:      # noqa
                    errs.append(repr(e))
            ths = [threading.Thread(target=work, args=(ctx.seed * 1000 + rnd * 50 + t,)) for t in range(8)]
            [t.start() for t in ths]
            [t.join() for t in ths]
            ctx.count('threaded_rounds')
            if errs:
                fails.append({'round': rnd, 'cap': cap, 'why': 'exception in thread: ' + errs[0]})
                continue
            try:
                bs = heap_walk(c)
                n = sum(len(es) for _, es in bs)
                if n > cap:
                    fails.append({'round': rnd, 'cap': cap, 'why': 'holds %d keys > capacity' % n})
                fr = [f for f, _ in bs]
                if fr != sorted(set(fr)) or any(not es for _, es in bs):
                    fails.append({'round': rnd, 'cap': cap, 'why': 'inconsistent frequency list %r' % fr})
            except AssertionError as e:
                fails.append({'round': rnd, 'cap': cap, 'why': 'heap inconsistent after threads: %s' % e})
    finally:
        sys.setswitchinterval(old)
    return fails


def held_lock(ctx):
    """a get issued while another thread is inside set (a key whose __hash__ sleeps keeps it there) still answers for a key that is held and
    cannot have been evicted, and its use is counted; several readers with no eviction possible never see a held key as missing"""
    import time
    from deepdiff.lfucache import LFUCache
    fails = []

    class Slow:
        def __init__(self, n):
            self.n = n; self.slow = False
        def __hash__(self):
            if self.slow:
                time.sleep(0.05)
            return hash(('slow', self.n))
        def __eq__(self, other):
            return isinstance(other, Slow) and other.n == self.n

    for cap in (3, 8):
        c = LFUCache(cap)
        c.set('held', value='v0')
        sk = Slow(1); sk.slow = True
        t = threading.Thread(target=lambda: c.set(sk, value='slow'))
        t.start()
        time.sleep(0.01)
        got = [c.get('held') for _ in range(3)]
        t.join()
        ctx.evaluations += 1
        ctx.count('held_lock_rounds')
        if got != ['v0'] * 3:
            fails.append({'cap': cap, 'why': "get('held') issued while another thread was inside set returned %r, not the held value" % (got,)})
            continue
        try:
            freq = {k: f for f, es in heap_walk(c) for (k, _v) in es} if True else {}
        except Exception:
            freq = {}
        if freq and freq.get('held') not in (None, 3, 4):
            fails.append({'cap': cap, 'why': 'three gets of a held key during a concurrent set left its use count at %r' % freq.get('held')})
    # readers and writers over fewer keys than the capacity: nothing can be evicted, so every get of a key set before the threads start answers
    old = sys.getswitchinterval()
    sys.setswitchinterval(1e-6)
    try:
        c = LFUCache(16)
        for k in range(6):
            c.set(k, value=k)
        missing = []

        def work(seed):
            r = random.Random(seed)
            for i in range(1500):
                k = r.randint(0, 5)
                if r.random() < 0.6:
                    if c.get(k) != k:
                        missing.append(k)
                else:
                    c.set(k, value=k)
        ths = [threading.Thread(target=work, args=(ctx.seed * 77 + t,)) for t in range(8)]
        [t.start() for t in ths]
        [t.join() for t in ths]
        ctx.evaluations += 1
        if missing:
            fails.append({'cap': 16, 'why': '%d gets of keys that are held and cannot be evicted did not return their value under 8 threads' % len(missing)})
    finally:
        sys.setswitchinterval(old)
    return fails


def run(ctx, impl_only=False):
    cases = gen_cases(ctx)
    lines = [line_of(cap, ops) for cap, ops in cases]
    model = None
    if ctx.build_ok and not impl_only:
        model = core.run_model(lines)
    for i, (cap, ops) in enumerate(cases):
        ctx.evaluations += 1
        case = {'cap': cap, 'ops': ops, 'line': lines[i]}
        try:
            impl = run_impl(cap, ops)
        except AssertionError as e:
            ctx.violate(case, 'heap inconsistent: %s' % e)
            continue
        except Exception as e:
            ctx.violate(case, 'operation raised %r' % e)
            continue
        if model is not None:
            ctx.traces += 1
            if impl != model[i]:
                ctx.diverge(case, impl, model[i], op='LFU')
        why = ref_check(cap, ops)
        if why:
            ctx.violate(case, why)
        ev = impl.count('ev')
        hit = impl.count(' v') + (1 if impl.startswith('v') else 0)
        ctx.count('ops', len(ops))
        ctx.count('evictions', ev)
        ctx.count('hits', hit)
        ctx.count('cap=%d' % cap)
        if ev and hit:
            ctx.nontriv(lines[i])
        if i % 997 == 0:
            ctx.sample({'request': lines[i], 'answer': impl})
    # values of every kind, falsy ones and None included, rewritten over held keys (reference only: the model carries ints)
    odd_vals = [None, 0, '', False, (), 0.0, 'x', 5, [1], {'a': 1}]
    for _ in range(3000 if ctx.thorough() else 400):
        cap = ctx.rng.choice([1, 2, 3, 4])
        nk = ctx.rng.randint(1, cap + 2)
        ops = []
        for i in range(ctx.rng.randint(2, 25)):
            k = ctx.rng.randint(1, nk)
            ops.append(('g', k) if ctx.rng.random() < 0.45 else ('s', k, ctx.rng.choice(odd_vals)))
        ctx.evaluations += 1
        ctx.count('odd_value_sequences')
        try:
            why = ref_check(cap, ops)
        except Exception as e:
            why = 'operation raised %r' % e
        if why:
            ctx.violate({'cap': cap, 'ops': [list(map(repr, o)) if o[0] == 's' else list(o) for o in ops], 'line': 'odd values'}, why)
    for f in threaded(ctx):
        ctx.violate({'threads': 8, **f}, f['why'])
    for f in held_lock(ctx):
        ctx.violate({'threads': 'held lock', **f}, f['why'])


def search(ctx):
    """B-case: deeper impl-only search for an input on which the property fails."""
    c2 = core.Ctx(ctx.pid, 'thorough', ctx.seed + 1)
    c2.build_ok = False
    # first the diverging cases themselves
    found = []
    for d in ctx.divergences:
        why = ref_check(d['case']['cap'], [tuple(o) for o in d['case']['ops']])
        if why:
            found.append({'case': d['case'], 'why': why})
    if found:
        return found
    run(c2, impl_only=True)
    return c2.violations


def replay(ctx, payload):
    ok = True
    for c in payload.get('cases', []):
        case = c['case']
        if 'ops' in case:
            why = ref_check(case['cap'], [tuple(o) for o in case['ops']])
            print('  case cap=%s ops=%s -> %s' % (case['cap'], case['ops'], why or 'holds'))
            ok = ok and not why
    return ok
