"""C14 — a persisted delta behaves identically to the original."""
import io, os, copy, tempfile, shutil, json, datetime, decimal
from .. import core, pkl
from ..gen import Gen, shape

ID = 'C14'
LEAN_TARGETS = ['Properties.C14']
THEOREMS = ['Pickle.C14_pickle_roundtrip', 'Pickle.C14_dump_loads', 'Pickle.C14_idempotent', 'Pickle.C14_same_behaviour',
            'Pickle.C14_own_globals_allowed']
RULE = ('deltas built from generated (t1,t2) pairs under ordered / positional / ignore_order+report_repetition configs x bidirectional x '
        'always_include_values; each is dumped and reloaded through bytes, file object, path and (when representable) JSON; payload, behaviour '
        'on several bases and a second dump are compared; the real dump is executed by the Lean VM and the model pickler output is loaded by the '
        'real restricted unpickler. distinct = distinct (delta payload rendering, channel set); non-trivial = delta non-empty')
TRUSTED_BASE = ['CPython pickler/unpickler (C) — modelled by the Lean VM/encoder, validated in both directions on every case, not verified',
                'json module', 'what allowed callables return when called']
ASSUMPTIONS = ['payloads are tree-shaped: real dumps that fetch a mutable container from the memo are skipped for object comparison (counted)',
               'numpy deltas are exercised on the implementation only']


def cfgs():
    out = []
    for mode in ('default', 'zip', 'ignore_order'):
        for bidir in (False, True):
            for aiv in (False, True):
                out.append((mode, bidir, aiv))
    return out


def dd_kwargs(mode):
    if mode == 'zip':
        return {'zip_ordered_iterables': True}
    if mode == 'ignore_order':
        return {'ignore_order': True, 'report_repetition': True}
    return {}


def shared_pairs():
    """the new value holds one mutable object at several places, or an object that contains itself"""
    L = [2, 3]; row = {'r': [1]}
    inner = ['s']; val = {'p': inner, 'q': [inner, 0]}
    C = [2]; C.append(C)
    Dd = {'n': 1}; Dd['self'] = Dd
    return [({'a': 1}, {'a': 1, 'x': L, 'y': L}), ([0], [0, row, row]), ({'a': 1}, {'a': 1, 'v': val}), ({'a': 1}, {'a': 1, 'c': C}), ([0], [0, Dd])]


def special_pairs():
    D = decimal.Decimal
    return [
        ({'a': [1, 2, 3, 4]}, {'a': [1, 3, 4, 5, 6]}),                      # opcodes
        ({'a': 5, 'b': None}, {'a': '5', 'b': 0}),                          # type changes incl. NoneType
        ({'s': {1, 2}, 'f': frozenset([1])}, {'s': {2, 3}, 'f': frozenset([2])}),
        ({'d': D('1.5'), 't': datetime.datetime(2020, 1, 2)}, {'d': D('2.5'), 't': datetime.datetime(2021, 1, 2)}),
        ({'t': datetime.date(2020, 1, 2)}, {'t': datetime.date(2021, 1, 2), 'u': datetime.datetime(2020, 1, 1, tzinfo=datetime.timezone.utc)}),
        ([1, 2, 3, 4, 5], [5, 4, 3, 2, 1, 1]),                              # moved / repetition under ignore_order
        ({'x': (1, 2, 3)}, {'x': (1, 4, 3)}),
        ({'k': 'multi\nline'}, {'k': 'multi\nline2'}),
        ([{'a': 1}, {'b': 2}], [{'b': 2}, {'a': 1, 'c': 3}]),
        ({'a': b'xy'}, {'a': b'xz', 'b': 1.5}),
        ({'a': int}, {'a': str}),                                           # types as values
        ({'name': 'café', 'city': 'Zürich', 'l': ['é']}, {'name': 'cafe', 'city': 'Zürich ü', 'l': ['é', 'ß'], 'k€y': 1}),       # non-ASCII text in values and keys
        ({'user__name': 'a', 'filters': {'owner__id__in': [1], 'x_': 2}, '_p__q': 1}, {'user__name': 'b', 'filters': {'owner__id__in': [1, 2], 'y__': 3}, '_p__q': 2}),   # underscores inside keys
        ({'limit': 10, 'tags': ['a'], 'n': None}, {'limit': None, 'tags': ['a', 'b'], 'n': 'None'}),      # None on either side of a type change
        ([1.0, float('nan'), 2], [1.0, 2]), ({'k': [float('nan'), 'x']}, {'k': ['x']}), ([decimal.Decimal('NaN'), 5, 6], [5, 6, 7]),          # items that are not equal to themselves
    ] + shared_pairs() + [
    ]


def alias_sig(v):
    """which places of a value hold one and the same container object (and where it contains itself): the object graph, not only the tree"""
    seen, groups = {}, []

    def walk(x, path):
        if isinstance(x, (list, dict, set, tuple)):
            if not isinstance(x, tuple):            # only mutable containers: deepcopy hands back the very same tuple when its items are immutable
                if id(x) in seen:
                    seen[id(x)].append(path); return
                seen[id(x)] = [path]
            kids = x.items() if isinstance(x, dict) else enumerate(x) if isinstance(x, (list, tuple)) else []
            for k, y in kids:
                walk(y, path + (repr(k),))
    walk(v, ())
    return sorted(ps for ps in seen.values() if len(ps) > 1)


def tree_only(outs):
    return [o[:2] for o in outs]


def outcome(f):
    try:
        r = f()
        try:
            return ('ok', pkl.symb(r), alias_sig(r))
        except Exception:
            return ('ok', repr(r))
    except Exception as e:
        return ('raise', type(e).__name__)


def json_domain(diff):
    """the deltas the JSON serializer is documented to carry: JSON-plain payloads, plus set payloads of
    set_item_added / set_item_removed whose items are JSON scalars (the convertor table maps set -> list)"""
    for cat, body in diff.items():
        if cat == '_iterable_opcodes':
            return False
        if cat in ('set_item_added', 'set_item_removed'):
            if not all(isinstance(k, str) and isinstance(v, (set, frozenset)) and all(x is None or isinstance(x, (bool, int, float, str)) for x in v)
                       and len({repr(x) for x in v}) == len({(x if not isinstance(x, bool) else int(x)) for x in v}) for k, v in body.items()):
                return False
            continue
        if not json_plain({cat: body}, none_type=True):
            return False
    return True


def json_plain(v, none_type=False):
    """only JSON types with str keys, recursively (type objects allowed for old_type/new_type).  none_type: NoneType as old_type / new_type too --
    the JSON text carries it, but it is read back as None rather than type(None), so the reloaded payload is compared by behaviour only"""
    if v is None or isinstance(v, (bool, int, float, str)):
        return True
    if isinstance(v, list):
        return all(json_plain(x, none_type) for x in v)
    if isinstance(v, dict):
        ok_types = (int, str, float, bool, list, dict) + ((type(None),) if none_type else ())
        return all(isinstance(k, str) and (json_plain(x, none_type) or (k in ('old_type', 'new_type') and isinstance(x, type) and x in ok_types))
                   for k, x in v.items())
    return False


def rich_cases(ctx):
    """deltas whose payload holds the other documented scalar types (Decimal, bytes, aware datetimes, date, time, timedelta, UUID, complex,
    frozenset) and numpy arrays, in the ordered and the ignore-order mode: outside the pickle vocabulary of the Lean model, so only the
    behavioural clauses are checked on the implementation"""
    from deepdiff import DeepDiff, Delta
    from ..deltas import py_eq_t
    from . import _difffam as FAM
    import numpy as np

    def same(a, b):
        if isinstance(a, np.ndarray) or isinstance(b, np.ndarray):
            return isinstance(a, np.ndarray) and isinstance(b, np.ndarray) and a.shape == b.shape and bool((a == b).all())
        if isinstance(a, dict) and isinstance(b, dict):
            return set(a) == set(b) and all(same(a[k], b[k]) for k in a)
        if isinstance(a, list) and isinstance(b, list):
            return len(a) == len(b) and all(same(x, y) for x, y in zip(a, b))
        return py_eq_t(a, b)

    def payload_eq(x, y):
        try:
            return bool(x == y)
        except ValueError:            # numpy arrays inside the payload: compare their text
            return repr(x) == repr(y)

    pairs = [(p, 'ordered') for p in FAM.rich_pairs(ctx, 300 if ctx.thorough() else 60)]
    pairs += [(p, 'ignore_order') for p in FAM.rich_pairs(ctx, 150 if ctx.thorough() else 30, sets=False)]
    pairs += [(p, 'ordered') for p in FAM.hostile_pairs(ctx, 200 if ctx.thorough() else 40)]          # hostile keys, edge-case leaves, shared sub-objects
    arrs = [np.array([1, 2, 3]), np.array([1, 5, 3]), np.array([1.5, 2.5, 3.5]), np.array([[1, 2], [3, 4]]), np.array([[1, 2], [3, 5]]), np.array([0, 0, 0]), np.array([[1.5, 0.0], [0.0, 2.5]])]
    for _ in range(60 if ctx.thorough() else 16):
        a = ctx.rng.choice(arrs)
        same_shape = [b for b in arrs if b.shape == a.shape]
        b = ctx.rng.choice(same_shape)
        w = ctx.rng.choice([lambda x: x, lambda x: {'a': x, 'n': 1}, lambda x: [0, x]])
        pairs.append(((w(a.copy()), w(b.copy())), 'numpy'))
    for _ in range(24 if ctx.thorough() else 8):          # one-dimensional arrays of different lengths (items added / removed)
        k = ctx.rng.randint(2, 5)
        a = np.array([ctx.rng.randint(0, 9) for _ in range(k)])
        b = np.array(list(a[: ctx.rng.randint(1, k)]) + [ctx.rng.randint(10, 19) for _ in range(ctx.rng.randint(0, 3))])
        if ctx.rng.random() < 0.3:
            a, b = a.astype(float) + 0.5, b.astype(float) + 0.5
        w = ctx.rng.choice([lambda x: x, lambda x: {'a': x, 'n': 1}])
        pairs.append(((w(a.copy()), w(b.copy())), 'numpy'))
    NP_ALLOW = {'numpy._core.multiarray.scalar', 'numpy._core.multiarray._reconstruct', 'numpy.core.multiarray.scalar', 'numpy.core.multiarray._reconstruct',
                'numpy.dtype', 'numpy.ndarray', 'numpy.int64', 'numpy.float64', 'numpy.int32', 'numpy.float32'}
    for ((t1, t2), mode) in pairs:
        kw = dict(ignore_order=True, report_repetition=True) if mode == 'ignore_order' else {}
        allow = NP_ALLOW if mode == 'numpy' else None           # finding F44: the dump of a numpy delta names numpy globals that are not on the allow-list
        for bidir in (False, True):
            case = {'t1': repr(t1), 't2': repr(t2), 'mode': 'rich leaves / ' + mode, 'bidirectional': bidir, 'always_include_values': False}
            ctx.evaluations += 1
            root_np = isinstance(t1, np.ndarray)
            add = (lambda d, x: d + x) if root_np else (lambda d, x: x + d)
            try:
                diff = DeepDiff(t1, t2, **kw)
                d = Delta(diff, bidirectional=bidir, raise_errors=True)
                built = copy.deepcopy(d.diff)
                want = add(d, copy.deepcopy(t1))
            except Exception as e:
                ctx.count('delta_build_failed:' + type(e).__name__); continue
            ctx.count('mode:rich_' + mode)
            if not payload_eq(d.diff, built):
                ctx.violate(case, 'applying the delta changed its payload: %r, built as %r' % (d.diff, built))
            if d.diff:
                ctx.nontriv((repr(t1), repr(t2), mode, bidir))
            try:
                b = d.dumps()
                d2 = Delta(b, bidirectional=bidir, raise_errors=True, safe_to_import=allow)
            except Exception as e:
                ctx.violate(case, 'own dump does not load: %s: %s' % (type(e).__name__, str(e)[:100])); continue
            # the allowance must reach every channel: the same bytes reloaded from a file object and from a path
            for chn in ('file', 'path'):
                try:
                    if chn == 'file':
                        dch = Delta(delta_file=io.BytesIO(b), bidirectional=bidir, raise_errors=True, safe_to_import=allow)
                    else:
                        with tempfile.TemporaryDirectory(prefix='verif_c14_') as td_:
                            pp_ = os.path.join(td_, 'rich.pkl')
                            with open(pp_, 'wb') as fh_:
                                d.dump(fh_)
                            dch = Delta(delta_path=pp_, bidirectional=bidir, raise_errors=True, safe_to_import=allow)
                except Exception as e:
                    ctx.violate(dict(case, channel=chn), 'own dump loads from bytes with safe_to_import but not from a %s: %s: %s' % (chn, type(e).__name__, str(e)[:100])); continue
                if not payload_eq(dch.diff, d.diff):
                    ctx.violate(dict(case, channel=chn), 'the payload reloaded from a %s differs from the original' % chn)
                ctx.count('rich_channel:' + chn)
            if not payload_eq(d2.diff, d.diff):              # not the bytes: the pickle of a set follows its iteration order, which a rebuild may change
                ctx.violate(case, 'the reloaded payload %r differs from the original %r' % (d2.diff, d.diff))
            def outc(f):
                try:
                    return ('ok', f())
                except Exception as e:
                    return ('raise', type(e).__name__)
            got = outc(lambda: add(d2, copy.deepcopy(t1)))
            if got[0] != 'ok' or not same(got[1], want):
                ctx.violate(case, 'the reloaded delta gives %r, the original %r' % (got, want))
            if bidir and not root_np:
                a_, b_ = outc(lambda: copy.deepcopy(t2) - d), outc(lambda: copy.deepcopy(t2) - d2)
                if a_[0] != b_[0] or (a_[0] == 'ok' and not same(a_[1], b_[1])) or (a_[0] == 'raise' and a_[1] != b_[1]):
                    ctx.violate(case, 'subtracting the reloaded delta gives %r, the original %r' % (b_, a_))
            d3 = outc(lambda: Delta(d2.dumps(), bidirectional=bidir, raise_errors=True, safe_to_import=allow))
            if d3[0] != 'ok' or not payload_eq(d3[1].diff, d.diff):
                ctx.violate(case, 'a second dump / load cycle changes the payload (%r)' % (d3[1] if d3[0] != 'ok' else d3[1].diff,))


def compare_func_cases(ctx):
    """deltas with moved items (records matched by an id through iterable_compare_func): the reloaded delta must carry an
    equal payload and behave like the original on every base"""
    from deepdiff import DeepDiff, Delta
    from deepdiff.helper import CannotCompare

    def by_id(x, y, level=None):
        try:
            return x['id'] == y['id']
        except Exception:
            raise CannotCompare() from None
    n = 60 if ctx.thorough() else 14
    for _ in range(n):
        k = ctx.rng.randint(2, 5)
        t1 = [{'id': i, 'val': ctx.rng.randint(0, 3)} for i in range(k)]
        t2 = copy.deepcopy(t1)
        ctx.rng.shuffle(t2)
        for r in t2:
            if ctx.rng.random() < 0.4:
                r['val'] = ctx.rng.randint(4, 9)
        if ctx.rng.random() < 0.5:
            t2.insert(ctx.rng.randint(0, len(t2)), {'id': 100 + ctx.rng.randint(0, 9), 'val': 0})
        if ctx.rng.random() < 0.4 and len(t2) > 1:
            del t2[ctx.rng.randrange(len(t2))]
        for io in (False, True):
            for bidir in (False, True):
                case = {'t1': repr(t1), 't2': repr(t2), 'mode': 'iterable_compare_func' + ('+ignore_order' if io else ''), 'bidirectional': bidir, 'always_include_values': False}
                ctx.evaluations += 1
                try:
                    diff = DeepDiff(t1, t2, iterable_compare_func=by_id, ignore_order=io, report_repetition=io)
                    mk = lambda: Delta(diff, bidirectional=bidir)
                    ref = pkl.symb(mk().diff)
                    b = mk().dumps()
                except Exception as e:
                    ctx.count('delta_build_failed:' + type(e).__name__); continue
                ctx.count('mode:compare_func')
                for cat in mk().diff:
                    ctx.count('cat:' + cat)
                if ref:
                    ctx.nontriv((ref, 'compare_func', io, bidir))
                try:
                    if pkl.symb(Delta(b, bidirectional=bidir).diff) != ref:
                        ctx.violate(dict(case, channel='bytes'), 'reloaded payload differs from the original payload'); continue
                except Exception as e:
                    ctx.violate(dict(case, channel='bytes'), 'reload raised %s' % type(e).__name__); continue
                other = copy.deepcopy(t1)
                if other:
                    other[ctx.rng.randrange(len(other))]['val'] = 77
                    other.append({'id': 55, 'val': 5})
                bases = [t1, t2, other]
                ref_out = [outcome(lambda b_=b_: copy.deepcopy(b_) + mk()) for b_ in bases]
                outs = [outcome(lambda b_=b_: copy.deepcopy(b_) + Delta(b, bidirectional=bidir)) for b_ in bases]
                if outs != ref_out:
                    ctx.violate(dict(case, channel='bytes'), 'reloaded delta behaves differently on a base: %r vs %r' % (outs, ref_out))


def run(ctx, impl_only=False):
    from deepdiff import DeepDiff, Delta
    from deepdiff.serialization import json_dumps, json_loads
    findings = {f['id']: f for f in core.load_findings(ID) if f.get('status') == 'open'}
    g = Gen(ctx.rng, keys=['a', 'b', 'c', 'dd'], max_depth=3, max_width=4, multiline=True, bytes_=True)
    gflat = Gen(ctx.rng, scalars=[0, 1, 2, 3, 4, 5, 'a', 'b', 'c'], kinds=('list',), max_depth=1, max_width=7, p_leaf=0)
    n = 900 if ctx.thorough() else 130
    pairs = list(special_pairs())
    for i in range(n):
        pairs.append(gflat.pair(3) if i % 4 == 0 else g.pair(3))
    compare_func_cases(ctx)
    rich_cases(ctx)
    def f66_witness():
        t1_ = [1.0, float('nan'), 2]
        d_ = Delta(DeepDiff(t1_, [1.0, 2], ignore_order=True, report_repetition=True))
        return repr(copy.deepcopy(t1_) + d_) == repr(copy.deepcopy(t1_) + Delta(d_.dumps()))
    core.witnesses(ctx, ID, {'F44': f44_witness, 'F66': f66_witness})
    tmpdir = tempfile.mkdtemp(prefix='verif_c14_')
    journal = io.BytesIO()
    enc_lines, enc_meta, vm_lines, vm_meta = [], [], [], []
    try:
        for pi, (t1, t2) in enumerate(pairs):
            full = pi < len(special_pairs()) or ctx.thorough()
            for (mode, bidir, aiv, rerr) in ([c + (r_,) for c in cfgs() for r_ in (False, True)] if full else [ctx.rng.choice(cfgs()) + (ctx.rng.random() < 0.5,) for _ in range(3)]):
                case = {'t1': repr(t1), 't2': repr(t2), 'mode': mode, 'bidirectional': bidir, 'always_include_values': aiv, 'raise_errors': rerr}
                if mode == 'ignore_order' and 'nan' in repr(t1).lower():
                    ctx.count('out_of_domain:nan_under_ignore_order'); continue        # finding F66: there an item is found by identity first
                try:
                    diff = DeepDiff(t1, t2, **dd_kwargs(mode))
                    d = Delta(diff, bidirectional=bidir, always_include_values=aiv)
                except Exception as e:
                    ctx.count('delta_build_failed:' + type(e).__name__)
                    continue
                ctx.evaluations += 1
                ctx.count('mode:' + mode)
                for cat in d.diff:
                    ctx.count('cat:' + cat)
                try:
                    ref = pkl.symb(d.diff)
                except Exception as e:
                    ctx.count('symb_failed'); continue
                if d.diff:
                    ctx.nontriv((ref, mode, bidir, aiv))
                # ---- pickle channels
                try:
                    b = d.dumps()
                except Exception as e:
                    ctx.violate(case, 'dumps() raised %r' % e); continue
                reloaded = {}
                try:
                    sti = [None, {'verif.X'}, ['verif.X'], 'verif.X', frozenset(['verif.X'])][ctx.evaluations % 5]   # user allowance must only add
                    reloaded['bytes'] = Delta(b, bidirectional=bidir, always_include_values=aiv, safe_to_import=sti)
                    f = io.BytesIO(); d.dump(f); f.seek(0)
                    if f.getvalue() != b:
                        ctx.violate(case, 'dump(file) wrote different bytes than dumps()')
                    reloaded['file'] = Delta(delta_file=f, bidirectional=bidir, always_include_values=aiv)
                    p = os.path.join(tmpdir, 'd%d.pkl' % (ctx.evaluations % 7))
                    with open(p, 'wb') as fh:
                        d.dump(fh)
                    reloaded['path'] = Delta(delta_path=p, bidirectional=bidir, always_include_values=aiv)
                    # several deltas dumped one after the other into one file object: each is reloaded from the position where it was written
                    if len(journal.getvalue()) > 200000:
                        journal.seek(0); journal.truncate()
                    journal.seek(0, 2)
                    off = journal.tell()
                    d.dump(journal)
                    f2 = io.BytesIO(journal.getvalue()); f2.seek(off)
                    reloaded['file_at_offset'] = Delta(delta_file=f2, bidirectional=bidir, always_include_values=aiv)
                    jp = os.path.join(tmpdir, 'journal.pkl')
                    with open(jp, 'ab') as fh:
                        doff = fh.tell()
                        d.dump(fh)
                    with open(jp, 'rb') as fh:
                        fh.seek(doff)
                        reloaded['disk_file_at_offset'] = Delta(delta_file=fh, bidirectional=bidir, always_include_values=aiv)
                except Exception as e:
                    known = False
                    for fid, fd in findings.items():
                        if fd['witness'].get('kind') == 'reload_raises' and fd['witness']['needle'] in str(e):
                            known = True
                    if not known:
                        ctx.violate(case, 'reloading the dump raised %s: %s' % (type(e).__name__, str(e)[:200]))
                    else:
                        ctx.count('known_reload_failure')
                    continue
                bases = [t1, t2, g.edit(t1)]
                # rerr: half of the cases apply with raise_errors=True: a reloaded delta must not object where the original does not
                mk = lambda: Delta(diff, bidirectional=bidir, always_include_values=aiv, raise_errors=rerr)   # fresh object per application:
                ref_out = [outcome(lambda b_=b_: copy.deepcopy(b_) + mk()) for b_ in bases]  # a raising __rsub__ leaves a Delta reversed (finding F23, C08)
                if bidir:
                    ref_out += [outcome(lambda b_=b_: copy.deepcopy(b_) - mk()) for b_ in bases]
                loaders = {'bytes': lambda: Delta(b, bidirectional=bidir, always_include_values=aiv, raise_errors=rerr),
                           'file': lambda: Delta(delta_file=io.BytesIO(b), bidirectional=bidir, always_include_values=aiv, raise_errors=rerr),
                           'path': lambda: Delta(delta_path=p, bidirectional=bidir, always_include_values=aiv, raise_errors=rerr),
                           'file_at_offset': lambda: Delta(delta_file=io.BytesIO(b), bidirectional=bidir, always_include_values=aiv, raise_errors=rerr),
                           'disk_file_at_offset': lambda: Delta(delta_file=io.BytesIO(b), bidirectional=bidir, always_include_values=aiv, raise_errors=rerr)}
                for ch, dx in reloaded.items():
                    try:
                        sx = pkl.symb(dx.diff)
                    except Exception:
                        sx = None
                    if sx != ref:
                        ctx.violate(dict(case, channel=ch), 'reloaded payload differs from the original payload')
                        continue
                    try:
                        again = Delta(dx.dumps(), bidirectional=bidir, always_include_values=aiv)
                        if pkl.symb(again.diff) != ref:
                            ctx.violate(dict(case, channel=ch), 'second dump/load cycle changed the payload')
                    except Exception as e:
                        ctx.violate(dict(case, channel=ch), 'second dump raised %r' % e)
                    outs = [outcome(lambda b_=b_: copy.deepcopy(b_) + loaders[ch]()) for b_ in bases]
                    if bidir:
                        outs += [outcome(lambda b_=b_: copy.deepcopy(b_) - loaders[ch]()) for b_ in bases]
                    if outs != ref_out:
                        ctx.violate(dict(case, channel=ch), 'reloaded delta behaves differently on a base: %r vs %r' % (outs, ref_out))
                    ctx.count('channel:' + ch)
                # ---- JSON channel
                if json_domain(d.diff):
                    try:
                        dj0 = Delta(diff, bidirectional=bidir, always_include_values=aiv, serializer=json_dumps)
                        js = dj0.dumps()
                        json.loads(js)
                        dj = Delta(js, bidirectional=bidir, always_include_values=aiv, deserializer=json_loads)
                        if json_plain(d.diff) and pkl.symb(dj.diff) != ref:
                            ctx.violate(dict(case, channel='json'), 'JSON-reloaded payload differs')
                        else:
                            mkj = lambda: Delta(js, bidirectional=bidir, always_include_values=aiv, deserializer=json_loads, raise_errors=rerr)
                            # second cycles across formats: pickle bytes reloaded with the JSON serializer dump as JSON text, JSON text reloaded
                            # with the default serializer dumps as a pickle; each reloads as the same payload
                            try:
                                if not json_plain(d.diff):
                                    raise StopIteration          # set payloads become lists in the order the set happens to list its members: compared by behaviour above
                                cross1 = Delta(b, bidirectional=bidir, always_include_values=aiv, serializer=json_dumps).dumps()
                                if not isinstance(cross1, str) or pkl.symb(Delta(cross1, bidirectional=bidir, always_include_values=aiv, deserializer=json_loads).diff) != pkl.symb(dj.diff):
                                    ctx.violate(dict(case, channel='pickle->json'), 'a delta reloaded from pickle bytes with serializer=json_dumps does not dump as the JSON text of its payload')
                                cross2 = Delta(js, bidirectional=bidir, always_include_values=aiv, deserializer=json_loads).dumps()
                                if not isinstance(cross2, bytes) or pkl.symb(Delta(cross2, bidirectional=bidir, always_include_values=aiv).diff) != pkl.symb(dj.diff):
                                    ctx.violate(dict(case, channel='json->pickle'), 'a delta reloaded from JSON text with the default serializer does not dump as a pickle of its payload')
                                ctx.count('channel:cross_format')
                            except StopIteration:
                                pass
                            except Exception as e:
                                ctx.violate(dict(case, channel='cross_format'), 'a second dump / load cycle across formats raised %s: %s' % (type(e).__name__, str(e)[:100]))
                            outs = [outcome(lambda b_=b_: copy.deepcopy(b_) + mkj()) for b_ in bases]
                            if bidir:
                                outs += [outcome(lambda b_=b_: copy.deepcopy(b_) - mkj()) for b_ in bases]
                            if tree_only(outs) != tree_only(ref_out):          # JSON is a tree format: shared sub-objects come back as copies
                                ctx.violate(dict(case, channel='json'), 'JSON-reloaded delta behaves differently: %r vs %r' % (outs, ref_out))
                            # the same JSON text reloaded from a path and from a file object: the constructor's
                            # deserializer must reach every channel
                            jpath = os.path.join(tmpdir, 'd.json')
                            try:
                                with open(jpath, 'w', encoding=('latin-1' if ctx.evaluations % 2 else 'utf-8')) as fh:      # the JSON text is plain ASCII: any text file will do
                                    dj0.dump(fh)
                            except UnicodeEncodeError as e:
                                ctx.violate(dict(case, channel='json_path'), 'the JSON text of the delta cannot be written to a latin-1 / utf-8 text file: %s' % str(e)[:80])
                                raise
                            jl = {'json_path': lambda: Delta(delta_path=jpath, bidirectional=bidir, always_include_values=aiv, deserializer=json_loads, raise_errors=rerr),
                                  'json_file': lambda: Delta(delta_file=io.StringIO(js), bidirectional=bidir, always_include_values=aiv, deserializer=json_loads, raise_errors=rerr)}
                            for chj, mkx in jl.items():
                                try:
                                    sj = pkl.symb(mkx().diff)
                                except Exception as e:
                                    ctx.violate(dict(case, channel=chj), 'JSON delta reloaded through %s raised %s: %s' % (chj, type(e).__name__, str(e)[:150]))
                                    continue
                                if sj != pkl.symb(dj.diff):
                                    ctx.violate(dict(case, channel=chj), 'JSON delta reloaded through %s carries another payload than the one reloaded from text' % chj)
                                    continue
                                outs = [outcome(lambda b_=b_: copy.deepcopy(b_) + mkx()) for b_ in bases]
                                if bidir:
                                    outs += [outcome(lambda b_=b_: copy.deepcopy(b_) - mkx()) for b_ in bases]
                                if tree_only(outs) != tree_only(ref_out):
                                    ctx.violate(dict(case, channel=chj), 'JSON delta reloaded through %s behaves differently: %r vs %r' % (chj, outs, ref_out))
                                ctx.count('channel:' + chj)
                        ctx.count('channel:json')
                    except Exception as e:
                        ctx.violate(dict(case, channel='json'), 'JSON channel raised %s: %s' % (type(e).__name__, str(e)[:150]))
                # ---- correspondence requests
                if not impl_only:
                    try:
                        toks = pkl.ops_from_bytes(b)
                        if pkl.aliases_mutable(toks):
                            ctx.count('aliases_mutable_skipped')
                        else:
                            vm_lines.append(pkl.pkl_line(toks)); vm_meta.append((case, ref))
                    except Exception as e:
                        ctx.count('genops_failed')
                    try:
                        enc_lines.append('ENC ' + ' '.join(pkl.obj_tokens(d.diff))); enc_meta.append((case, ref, d.diff))
                    except pkl.NotEncodable:
                        ctx.count('not_in_model_vocabulary')
                if ctx.evaluations % 97 == 1:
                    ctx.sample({'t1': repr(t1)[:120], 't2': repr(t2)[:120], 'mode': mode, 'bidirectional': bidir, 'payload': repr(d.diff)[:300]})
        # ---- F11 witness: JSON + opcodes
        for fid, fd in findings.items():
            if fd['witness'].get('kind') == 'json_opcodes':
                t1, t2 = [1, 2, 3, 4], [1, 3, 4, 5, 6]
                try:
                    dj0 = Delta(DeepDiff(t1, t2), serializer=json_dumps)
                    dj = Delta(dj0.dumps(), deserializer=json_loads)
                    ok = (t1 + dj == t2)
                except Exception as e:
                    ok = False
                (ctx.known_not_reproduced if ok else ctx.known_reproduced).append(fid if ok else '%s: %s' % (fid, fd['what_fails']))
        if ctx.build_ok and not impl_only:
            ans = core.run_model(vm_lines)
            for (case, ref), a in zip(vm_meta, ans):
                ctx.traces += 1
                mo = pkl.model_outcome(a)
                if mo != 'ok ' + ref:
                    ctx.diverge(case, ('ok ' + ref)[:600], mo[:600], op='PKL-real-dump-on-model-VM')
            ans = core.run_model(enc_lines)
            for (case, ref, payload), a in zip(enc_meta, ans):
                ctx.traces += 1
                if not a.startswith('roundtrip-ok ops='):
                    ctx.diverge(case, 'roundtrip-ok', a[:300], op='ENC-model-roundtrip')
                    continue
                toks = a.split(' ops=', 1)[1].split(' ')
                try:
                    byts = pkl.assemble_tokens(toks)
                    out, obj, tr = pkl.real_load(byts)
                    got = pkl.symb(obj) if out == 'ok' else out
                except Exception as e:
                    got = 'assemble/load failed: %r' % e
                if got != ref:
                    ctx.diverge(case, got[:600], ref[:600], op='ENC-model-dump-on-real-unpickler')
    finally:
        shutil.rmtree(tmpdir, ignore_errors=True)


def f44_witness():
    """finding F44: the dump of a delta between numpy arrays loads without any safe_to_import"""
    import numpy as np
    from deepdiff import DeepDiff, Delta
    d = Delta(DeepDiff(np.array([[1, 2], [3, 4]]), np.array([[1, 2], [3, 5]])))
    try:
        Delta(d.dumps())
        return True
    except Exception:
        return False


def search(ctx):
    c2 = core.Ctx(ctx.pid, 'thorough', ctx.seed + 1)
    c2.build_ok = False
    run(c2, impl_only=True)
    return c2.violations


def replay(ctx, payload):
    """re-run the stored (t1, t2, config) cases on the implementation"""
    import datetime, decimal  # noqa: names used by eval of the stored reprs
    from deepdiff import DeepDiff, Delta
    ok = True
    for c in payload.get('cases', []):
        case = c['case']
        try:
            t1 = eval(case['t1'], {'datetime': datetime, 'Decimal': decimal.Decimal}); t2 = eval(case['t2'], {'datetime': datetime, 'Decimal': decimal.Decimal})
            d = Delta(DeepDiff(t1, t2, **dd_kwargs(case['mode'])), bidirectional=case['bidirectional'], always_include_values=case['always_include_values'])
            d2 = Delta(d.dumps(), bidirectional=case['bidirectional'], always_include_values=case['always_include_values'])
            same = pkl.symb(d2.diff) == pkl.symb(d.diff) and outcome(lambda: copy.deepcopy(t1) + d) == outcome(lambda: copy.deepcopy(t1) + d2)
        except Exception as e:
            same = False
            print('   raised', repr(e))
        print('  ', case, '->', 'holds' if same else 'FAILS (%s)' % c.get('why'))
        ok = ok and same
    return ok
