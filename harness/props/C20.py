"""C20 — CLI: diff --create-patch then patch reproduces the file; failures restore it."""
import os, json, tempfile, shutil, builtins, io
from .. import core
from ..pkl import enc_str
from ..gen import Gen

ID = 'C20'
LEAN_TARGETS = ['Properties.C20']
THEOREMS = ['SaveFS.C20_atomic', 'SaveFS.C20_success', 'SaveFS.C20_raises_iff', 'CliPatch.C20_patch_reproduces_at', 'CliPatch.C20_patch_reproduces',
            'CliPatch.C20_patch_reproduces_nested_objects', 'CliPatch.C20_patch_reproduces_list']
RULE = ('generated pairs of JSON documents (string keys; list/dict/str/int/short float/bool/None) x {--backup, none} x a fault injected at each '
        'point of the save path (serialise, open, write incl. partial writes, close) or none; the real CLI runs through click.testing.CliRunner in '
        'a scratch directory; the observed (A content, A.bak, raised) is compared with the Lean state machine. distinct = distinct (A, B, backup, fault); '
        'non-trivial = A != B')
TRUSTED_BASE = ['POSIX rename/remove semantics; partial writes at the OS level; a failure of the restoring rename itself is not modelled',
                'faults are injected in-process by shadowing open/json_dumps inside deepdiff.serialization (no source hook)']
ASSUMPTIONS = ['the end-to-end clause (patch reproduces B) is evaluated on the implementation; its theorem composes C01 and C14 and is not yet stated in Lean',
               'document keys avoid the C09 findings (both quote kinds); documents with double-underscore keys are diffed with --include-private-variables (finding F41: the default hides them)']

FAULTS = ['none', 'ser', 'open', 'write', 'close']
SHIFTED = [(['a', 'b', 'c', 'd', 'e'], ['b', 'c', 'X', 'e']), ([1, 2, 3, 4, 5, 6], [0, 1, 2, 9, 4, 5, 6, 7]), ({'k': ['p', 'q', 'r', 's']}, {'k': ['q', 'Z', 's', 't']}),
           ([10, 20, 30, 40], [20, 30, 41]),
           # a list with several separate edits where a removed value still exists in the new list: an element moved, one of two duplicates dropped
           ({'queue': ['a', 'b', 'c', 'd', 'e']}, {'queue': ['e', 'a', 'b', 'c', 'd']}), (['x', 'y', 'x', 'z', 'w'], ['y', 'x', 'z', 'w', 'q']), ({'l': [1, 2, 3, 1, 4]}, {'l': [0, 2, 3, 1, 4, 5]}),
           ([5, 6, 7, 8, 9, 5], [6, 7, 5, 8, 9]), ({'jobs': ['fetch', 'lint', 'build', 'test']}, {'jobs': ['lint', 'build', 'fetch', 'test', 'ship']}),
           # the document itself is an array of plain values with several separate edits
           ([10, 20, 30, 40, 50, 60, 70], [10, 15, 20, 30, 40, 50, 70]), (['a', 'b', 'c', 'd', 'e', 'f'], ['b', 'c', 'd', 'X', 'e', 'f', 'g']),
           # several lists of one document rebuilt from recorded opcodes (items inserted at the front and at the end), side by side and nested
           ({'tags': ['a', 'b', 'c', 'd'], 'ids': [1, 2, 3, 4, 5]}, {'tags': ['start', 'a', 'b', 'c', 'd', 'end'], 'ids': [0, 1, 2, 3, 4, 5, 6]}),
           ({'x': {'l': [1, 2, 3, 4]}, 'y': [{'m': ['p', 'q', 'r', 's']}], 'z': ['u', 'v', 'w', 'x']},
            {'x': {'l': [0, 1, 2, 3, 4, 5]}, 'y': [{'m': ['o', 'p', 'q', 'r', 's', 't']}], 'z': ['t', 'u', 'v', 'w', 'x', 'y']}),
           # text that is legal JSON but not encodable as it stands (an unpaired surrogate), in a changed leaf, an untouched leaf and a key
           # records whose own keys are named like the fields of a patch entry
           ({'log': [{'id': 1}]}, {'log': [{'id': 1}, {'id': 2, 'old_value': 'x', 'new_value': 'y'}], 'last': {'old_value': 5, 'new_path': 'p', 'n': 1}}),
           ({'log': [{'id': 1}, {'id': 2, 'old_value': 'x', 'n': 0}]}, {'log': [{'id': 1}]}), ([{'old_value': 1, 'k': 2}], [{'old_value': 1, 'k': 2}, {'old_value': 2, 'k': 3}, {'old_type': 'a'}]),
           # leaves that change type where the patch can leave the new value out (it is what the new type makes of the old value)
           ({'flag': 'no', 'l': ['x', 1], 'n': '3', 'e': ''}, {'flag': True, 'l': [True, 1], 'n': 3, 'e': False}), ({'a': 1, 'b': 0, 'c': 2.0}, {'a': True, 'b': False, 'c': 2}),
           # texts made of the same lines with different line ends (the convenience line diff is empty, the values differ)
           ({'t': 'a\nb', 'n': 1}, {'t': 'a\nb\n', 'n': 1}), ({'t': 'x\r\ny'}, {'t': 'x\ny'}), (['l1\nl2\n', 0], ['l1\nl2', 0]),
           ({'t': 'cut \ud83d', 'n': 1}, {'t': 'cut \ud83d', 'n': 2}), ({'t': 'a'}, {'t': 'b \udc00'}), ({'k\ud800': 1, 'n': [1]}, {'k\ud800': 1, 'n': [1, 2]})]


class Boom(Exception):
    pass


def run_cli(args):
    from click.testing import CliRunner
    from deepdiff.commands import cli
    r = CliRunner().invoke(cli, args)
    return r


class FaultyFile:
    def __init__(self, real, fault, partial):
        self._f, self._fault, self._partial = real, fault, partial

    def write(self, s):
        if self._fault == 'write':
            self._f.write(s[:self._partial])
            self._f.flush()
            raise Boom('write failed')
        return self._f.write(s)

    def __enter__(self):
        return self

    def __exit__(self, *a):
        self._f.close()
        if self._fault == 'close' and a[0] is None:
            raise Boom('close failed')
        return False

    def __getattr__(self, n):
        return getattr(self._f, n)


def patch_with_fault(A, patch_path, backup, fault, partial):
    """run `deep patch A patch [--backup]` with a fault injected into the save path; returns exit code"""
    from deepdiff import serialization as S
    saved = {}
    real_open = builtins.open
    real_dumps = S.json_dumps

    def my_open(path, mode='r', *a, **k):
        if 'w' in mode and os.path.abspath(str(path)) == os.path.abspath(A):
            if fault == 'open':
                raise Boom('open failed')
            if fault in ('write', 'close'):
                return FaultyFile(real_open(path, mode, *a, **k), fault, partial)
        return real_open(path, mode, *a, **k)

    def my_dumps(*a, **k):
        if fault == 'ser':
            raise Boom('serialise failed')
        return real_dumps(*a, **k)
    S.open = my_open
    S.json_dumps = my_dumps
    try:
        r = run_cli(['patch', A, patch_path] + (['--backup'] if backup else []))
        return r.exit_code
    finally:
        del S.open
        S.json_dumps = real_dumps


def read_or_none(p):
    try:
        with open(p) as f:
            return f.read()
    except FileNotFoundError:
        return None


def shot(v):
    return '-' if v is None else enc_str(v)


def run(ctx, impl_only=False):
    from deepdiff.serialization import json_dumps
    g = Gen(ctx.rng, scalars=[None, True, False, 0, 1, 2, 3, -1, 10, 1.5, 0.25, 'a', 'b', 'x y', '', 'é'],
            keys=['a', 'b', 'c', 'dd', 'k 1', 'é', "it's"], kinds=('dict', 'list'), max_depth=3, max_width=4)
    gp = Gen(ctx.rng, scalars=[None, True, 0, 1, 2, 1.5, 'a', 'b', ''], keys=['a', 'b', '__p', '__q r', 'old_value', 'new_type'], kinds=('dict', 'list'), max_depth=3, max_width=4)
    findings = {f['id']: f for f in core.load_findings(ID) if f.get('status') == 'open'}
    n = 160 if ctx.thorough() else 44
    tmp = tempfile.mkdtemp(prefix='verif_c20_')
    lines, metas = [], []
    try:
        for i in range(n):
            private = (i % 4 == 3)           # documents with double-underscore keys: the CLI compares them only with --include-private-variables
            gg = gp if private else g
            a = gg.container()
            b = gg.edits(a, ctx.rng.randint(1, 3)) if ctx.rng.random() < 0.9 else a
            if i < len(SHIFTED):
                a, b = SHIFTED[i]; private = False        # flat lists with an item deleted / inserted before a replaced one (opcodes + values_changed)
            A, B, P = os.path.join(tmp, 'A.json'), os.path.join(tmp, 'B.json'), os.path.join(tmp, 'patch.pkl')
            with open(B, 'w') as f:
                json.dump(b, f)
            with open(A, 'w') as f:
                json.dump(a, f)
            r = run_cli(['diff', A, B, '--create-patch'] + (['--include-private-variables'] if private else []))
            ctx.count('documents:' + ('private_keys' if private else 'plain'))
            if r.exit_code != 0:
                ctx.violate({'a': a, 'b': b}, 'diff --create-patch exited %s: %s' % (r.exit_code, r.output[-200:]))
                continue
            with open(P, 'wb') as f:
                f.write(r.stdout_bytes)
            orig = read_or_none(A)
            for backup in (False, True):
                for fault in FAULTS:
                    partial = ctx.rng.randint(0, 5)
                    with open(A, 'w') as f:
                        f.write(orig)
                    if os.path.exists(A + '.bak'):
                        os.remove(A + '.bak')
                    code = patch_with_fault(A, P, backup, fault, partial)
                    gotA, gotBak = read_or_none(A), read_or_none(A + '.bak')
                    case = {'a': a, 'b': b, 'backup': backup, 'fault': fault, 'partial': partial}
                    ctx.evaluations += 1
                    ctx.count('fault:' + fault)
                    if a != b:
                        ctx.nontriv((json.dumps(a, sort_keys=True), json.dumps(b, sort_keys=True), backup, fault))
                    # ---- the property on the implementation
                    if fault == 'none':
                        if code != 0:
                            ctx.violate(case, 'patch exited %s without any fault' % code)
                        else:
                            try:
                                loaded = json.loads(gotA)
                            except Exception as e:
                                loaded = 'unparseable: %r' % e
                            if loaded != b:
                                ctx.violate(case, 'after patch A loads as %r, expected B = %r' % (loaded, b))
                            if backup and gotBak != orig:
                                ctx.violate(case, '--backup: A.bak holds %r, expected the previous content' % (gotBak,))
                            if not backup and gotBak is not None:
                                ctx.violate(case, 'no --backup but A.bak exists')
                    else:
                        if code == 0:
                            ctx.violate(case, 'a failing save exited 0')
                        if gotA != orig:
                            ctx.violate(case, 'after a failed save (%s) A holds %r, expected its original content' % (fault, gotA))
                        if gotBak is not None:
                            ctx.violate(case, 'after a failed save (%s) a stray A.bak remains' % fault)
                    # ---- model request: ser = what json_dumps gives for the patched content (= B)
                    if not impl_only:
                        try:
                            ser = json_dumps(b)
                        except Exception:
                            ser = None
                        # what reached the file before the fault
                        part = (ser or '')[:partial] if fault == 'write' else (ser or '')
                        lines.append('SAVEFS %s %s %s %s %s' % ('T' if backup else 'F', fault, shot(ser), enc_str(orig), enc_str(part)))
                        metas.append((case, 'A=%s BAK=%s raised=%s' % (shot(gotA), shot(gotBak), 'T' if code != 0 else 'F')))
            if i % 5 == 0:
                ctx.sample({'A': a, 'B': b})
        # ---- a history on one file: several --backup patches in a row, then a failing save. A.bak always holds the content just before the
        #      last successful patch, and a failed save leaves A (and A.bak) exactly as they were before the failing call
        A, B, P = os.path.join(tmp, 'H.json'), os.path.join(tmp, 'HB.json'), os.path.join(tmp, 'hpatch.pkl')
        for f in (A, A + '.bak'):
            if os.path.exists(f):
                os.remove(f)
        versions = [{'v': 0, 'l': [1, 2]}, {'v': 1, 'l': [1, 2, 3]}, {'v': 2, 'l': [2, 3], 'n': None}, {'v': 3, 'l': []}]
        with open(A, 'w') as f:
            json.dump(versions[0], f)
        for step in range(1, len(versions)):
            with open(B, 'w') as f:
                json.dump(versions[step], f)
            r = run_cli(['diff', A, B, '--create-patch'])
            with open(P, 'wb') as f:
                f.write(r.stdout_bytes)
            before = read_or_none(A)
            code = patch_with_fault(A, P, True, 'none', 0)
            ctx.evaluations += 1
            case = {'history': versions[: step + 1], 'backup': True, 'fault': 'none', 'step': step}
            if code != 0 or json.loads(read_or_none(A)) != versions[step]:
                ctx.violate(case, 'step %d of a patch history did not produce the next version' % step)
            if read_or_none(A + '.bak') != before:
                ctx.violate(case, '--backup: after step %d A.bak holds %r, expected the content just before that patch' % (step, read_or_none(A + '.bak')))
        with open(B, 'w') as f:
            json.dump({'v': 4}, f)
        r = run_cli(['diff', A, B, '--create-patch'])
        with open(P, 'wb') as f:
            f.write(r.stdout_bytes)
        for backup in (False, True):
            for fault in FAULTS[1:]:
                beforeA, beforeBak = read_or_none(A), read_or_none(A + '.bak')
                code = patch_with_fault(A, P, backup, fault, 3)
                ctx.evaluations += 1
                case = {'history': versions, 'backup': backup, 'fault': fault, 'scenario': 'a failing save after earlier --backup patches'}
                if code == 0:
                    ctx.violate(case, 'a failing save exited 0')
                if read_or_none(A) != beforeA:
                    ctx.violate(case, 'after a failed save (%s) A holds %r, expected its content before the call %r' % (fault, read_or_none(A), beforeA))
                # what happens to a backup file left by an earlier call is not part of the property (the save uses A.bak as its scratch name)
                if beforeBak is not None and read_or_none(A + '.bak') is None:
                    with open(A + '.bak', 'w') as f:
                        f.write(beforeBak)
        ctx.count('history')
        # ---- boundary witness F41: without --include-private-variables a double-underscore key of B is not reproduced
        A, B, P = os.path.join(tmp, 'A.json'), os.path.join(tmp, 'B.json'), os.path.join(tmp, 'patch.pkl')
        with open(A, 'w') as f:
            json.dump({'a': 1}, f)
        with open(B, 'w') as f:
            json.dump({'a': 1, '__x': 2}, f)
        r = run_cli(['diff', A, B, '--create-patch'])
        with open(P, 'wb') as f:
            f.write(r.stdout_bytes)
        run_cli(['patch', A, P])
        ctx.evaluations += 1
        ok = json.load(open(A)) == {'a': 1, '__x': 2}
        if 'F41' in findings:
            (ctx.known_not_reproduced if ok else ctx.known_reproduced).append('F41' if ok else 'F41: %s' % findings['F41']['what_fails'])
        elif not ok:
            ctx.violate({'witness': 'F41'}, 'boundary witness F41 fails and is not a listed finding')
    finally:
        shutil.rmtree(tmp, ignore_errors=True)
    if ctx.build_ok and not impl_only and lines:
        ans = core.run_model(lines)
        for (case, impl), a in zip(metas, ans):
            ctx.traces += 1
            # on success compare the JSON *value*: the model's `ser` is json_dumps(B) while the CLI serialises the patched object
            if impl != a:
                if case['fault'] == 'none':
                    ia = impl.split(' ')[0]; ma = a.split(' ')[0]
                    if impl.split(' ')[1:] == a.split(' ')[1:] and ia != 'A=-' and ma != 'A=-':
                        dec = lambda t: json.loads(''.join(chr(int(x)) for x in t[2:].split('.'))) if t[2:] != '_' else None
                        try:
                            if dec(ia) == dec(ma):
                                ctx.count('same_json_value_different_text')
                                continue
                        except Exception:
                            pass
                ctx.diverge(case, impl, a, op='SAVEFS')


def search(ctx):
    c2 = core.Ctx(ctx.pid, 'thorough', ctx.seed + 1)
    c2.build_ok = False
    run(c2, impl_only=True)
    return c2.violations


def replay(ctx, payload):
    ok = True
    tmp = tempfile.mkdtemp(prefix='verif_c20_')
    try:
        for c in payload.get('cases', []):
            case = c['case']
            a, b = case['a'], case['b']
            A, B, P = os.path.join(tmp, 'A.json'), os.path.join(tmp, 'B.json'), os.path.join(tmp, 'patch.pkl')
            json.dump(a, open(A, 'w')); json.dump(b, open(B, 'w'))
            r = run_cli(['diff', A, B, '--create-patch'])
            open(P, 'wb').write(r.stdout_bytes)
            orig = read_or_none(A)
            code = patch_with_fault(A, P, case.get('backup', False), case.get('fault', 'none'), case.get('partial', 0))
            gotA, gotBak = read_or_none(A), read_or_none(A + '.bak')
            if case.get('fault', 'none') == 'none':
                good = code == 0 and json.loads(gotA) == b
            else:
                good = gotA == orig and gotBak is None and code != 0
            print('  ', case, '-> A=%r bak=%r exit=%s' % (gotA, gotBak, code), 'holds' if good else 'FAILS')
            ok = ok and good
            for p in (A + '.bak',):
                if os.path.exists(p):
                    os.remove(p)
    finally:
        shutil.rmtree(tmp, ignore_errors=True)
    return ok
