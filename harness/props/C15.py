"""C15 — loading never resolves a global outside the allow-list (and own dumps load)."""
import os, copy, sys, io, pickle, copyreg, types, datetime, decimal, uuid, collections, re as _re
from .. import core, pkl

ID = 'C15'
LEAN_TARGETS = ['Properties.C15']
THEOREMS = ['Pickle.C15_exact_membership', 'Pickle.C15_gate', 'Pickle.C15_result_allowed', 'Pickle.C15_reject_first',
            'Pickle.C15_global_rejected', 'Pickle.C15_stack_global_rejected', 'Pickle.C15_table_neighbours',
            'Pickle.C15_N_ext_cache', 'Pickle.C15_N_bytearray_dump_rejected', 'Pickle.C15_date_timezone_allowed']
RULE = ('(a) every (module, attribute) pair of every loaded module + dotted chains and near-miss spellings of allowed names: real '
        'find_class decision vs model; (b) crafted pickle programs for protocols 0-5 with allowed/forbidden globals (GLOBAL, STACK_GLOBAL, '
        'INST, OBJ, EXT) nested in lists/dicts/tuples/reduce arguments, executed by the real restricted unpickler and by the Lean VM; '
        '(c) real Delta dumps of supported value types must load. distinct = distinct request line; non-trivial = names a global')
TRUSTED_BASE = ['CPython routes every global-resolving opcode through find_class (validated by executing crafted programs on both sides, not proved)',
                'what an allowed callable does when called is outside the model (symbolic call nodes)']
ASSUMPTIONS = ['sharing of mutable containers through the pickle memo is not modelled', 'byte-level framing is handled by pickletools.genops']

SENTINEL_HITS = []


def install_sentinel():
    m = types.ModuleType('verif_sentinel')

    def touch(*a, **k):
        SENTINEL_HITS.append(a)
        return 0

    class Boom:
        def __init__(self, *a):
            SENTINEL_HITS.append(('Boom',) + a)
    m.touch = touch
    m.Boom = Boom
    m.touchdown = touch          # 'verif_sentinel.touch' is a proper substring of 'verif_sentinel.touchdown'
    touch.__module__ = 'verif_sentinel'
    Boom.__module__ = 'verif_sentinel'
    sys.modules['verif_sentinel'] = m
    return m


def fc_real(m, n, safe):
    from deepdiff import serialization as S
    spelled = safe or None
    if safe and len(safe) == 1 and (hash((m, n)) & 1):
        spelled = list(safe)[0]                    # a single name may be given as a plain string
    elif safe and (hash((m, n)) & 2):
        spelled = list(safe)                       # ... or any iterable
    u = S._RestrictedUnpickler(io.BytesIO(b''), safe_to_import=spelled)
    try:
        r = u.find_class(m, n)
        return 'ok', r
    except S.ForbiddenModule:
        return 'forbidden ' + pkl.enc_str(m + '.' + n), None
    except (ModuleNotFoundError, getattr(S, 'ModuleNotFoundError', ModuleNotFoundError)):      # deepdiff defines its own class of that name
        return 'modnotfound ' + pkl.enc_str(m + '.' + n), None
    except AttributeError:
        return 'attrerror ' + pkl.enc_str(m + '.' + n), None


def name_pairs(ctx):
    import os, subprocess, shutil, socket, importlib, ctypes, json, builtins  # noqa: make the universe bigger
    pairs = []
    mods = sorted(sys.modules)
    for mn in mods:
        mod = sys.modules.get(mn)
        if mod is None:
            continue
        try:
            names = list(vars(mod))
        except Exception:
            continue
        if not ctx.thorough():
            # quick: every attribute of the allowed modules and of a fixed dangerous set, a sample elsewhere
            keep = mn in ('builtins', 'os', 'posix', 'subprocess', 'sys', 'datetime', 'decimal', 'uuid', 'collections', 're',
                          'deepdiff.helper', 'orderly_set', 'orderly_set.sets', 'pickle', 'importlib', 'shutil', 'socket', 'ctypes',
                          'deepdiff.serialization', 'verif_sentinel')
            if not keep:
                names = names[:: max(1, len(names) // 3)]
        for nm in names:
            if isinstance(nm, str) and ' ' not in nm and '\n' not in nm:
                pairs.append((mn, nm))
    # dotted chains / near misses on allowed names
    from deepdiff.serialization import SAFE_TO_IMPORT
    for a in sorted(pkl.builtin_allow()):
        m, _, n = a.rpartition('.')
        for mm, nn in [(m, n), (m, n + '.__init__'), (m, n.lower()), (m, n.upper()), (m.upper(), n), (m, n[:-1]), (m, n + 'x'),
                       (m + '.' + n, '__class__'), (a, ''), ('', a), (m, ''), (m.split('.')[0], '.'.join(m.split('.')[1:] + [n])),
                       (m, n + '.__globals__'), (m + 'x', n), (' ' + m, n), (m, n + ' ')]:
            if ' ' in mm + nn or '\n' in mm + nn:
                continue
            pairs.append((mm, nn))
    # the module of one allow-list entry with the name of another (builtins.Decimal, datetime.OrderedDict, ...): not on the list, whether or
    # not the module has such an attribute
    allow_ = sorted(pkl.builtin_allow())
    mods_ = sorted({a.rpartition('.')[0] for a in allow_}); nms_ = sorted({a.rpartition('.')[2] for a in allow_})
    extra_names = ['NoneType', 'iprange', 'Pattern', 'namedtuple', 'SetOrdered', 'type', 'object']
    for mm in mods_:
        for nn in nms_ + extra_names:
            if mm + '.' + nn not in pkl.builtin_allow():
                pairs.append((mm, nn))
    for mm, nn in [('builtins', 'eval'), ('builtins', 'exec'), ('builtins', '__import__'), ('os', 'system'), ('posix', 'system'),
                   ('subprocess', 'Popen'), ('builtins', 'getattr'), ('verif_sentinel', 'touch'), ('verif_sentinel', 'Boom'),
                   ('datetime', 'datetime.now'), ('builtins', 'bin.__self__'), ('uuid', 'UUID.__init__.__globals__'),
                   ('collections', 'OrderedDict.fromkeys'), ('orderly_set', 'sets.OrderedSet'), ('deepdiff', 'helper.Opcode')]:
        pairs.append((mm, nn))
    return pairs


def part_a(ctx):
    """find_class decision on names."""
    from deepdiff.serialization import SAFE_TO_IMPORT
    pairs = name_pairs(ctx)
    safes = [(), ('verif_sentinel.touch',), ('os.path', 'Builtins.eval', 'builtins'), ('verif_sentinel.touchdown',), ('os.path.join',)]
    lines, meta = [], []
    for (m, n) in pairs:
        for si, safe in enumerate(safes if (m in ('verif_sentinel', 'os', 'builtins') or ctx.rng.random() < 0.05) else safes[:1]):
            lines.append('FC S %d %s %s %s %s' % (len(safe), ' '.join(pkl.enc_str(s) for s in safe), pkl.enc_str(m), pkl.enc_str(n),
                                                  pkl.resolve_flag(m, n)))
            meta.append((m, n, safe))
    lines = [' '.join(l.split()) for l in lines]
    model = core.run_model(lines) if ctx.build_ok else None
    for i, (m, n, safe) in enumerate(meta):
        ctx.evaluations += 1
        out, obj = fc_real(m, n, set(safe))
        allowed = (m + '.' + n) in pkl.allow_list(safe)
        ctx.count('fc_allowed' if allowed else 'fc_forbidden')
        case = {'kind': 'find_class', 'module': m, 'name': n, 'safe_to_import': list(safe)}
        # property on the implementation
        if not allowed and not out.startswith('forbidden'):
            ctx.violate(case, 'find_class(%r, %r) did not raise ForbiddenModule although %r is not on the allow-list (outcome %s)' % (m, n, m + '.' + n, out))
        if allowed and out.startswith('forbidden'):
            ctx.violate(case, 'find_class(%r, %r) raised ForbiddenModule although the name is on the allow-list' % (m, n))
        if model is not None:
            ctx.traces += 1
            impl = out if out != 'ok' else 'ok G' + pkl.enc_str(m) + '/' + pkl.enc_str(n)
            if impl != model[i]:
                ctx.diverge(case, impl, model[i], op='FC')
        if allowed:
            ctx.nontriv(lines[i])
        if i % 4001 == 0:
            ctx.sample({'request': lines[i][:200], 'impl': out})


# ------------------------------------------------------------------ crafted programs

CALLS = [('builtins', 'int', [('str', '7')]), ('builtins', 'str', [('int', 5)]), ('builtins', 'set', [('list', [('int', 1), ('int', 2)])]),
         ('builtins', 'frozenset', [('list', [('int', 1)])]), ('builtins', 'list', [('tuple', [('int', 1)])]),
         ('builtins', 'tuple', [('list', [('int', 1)])]), ('builtins', 'complex', [('int', 1), ('int', 2)]),
         ('builtins', 'range', [('int', 1), ('int', 5)]), ('builtins', 'slice', [('int', 1), ('int', 2)]),
         ('builtins', 'bin', [('int', 5)]), ('builtins', 'bool', [('int', 1)]), ('builtins', 'float', [('str', '1.5')]),
         ('decimal', 'Decimal', [('str', '1.5')]), ('datetime', 'timedelta', [('int', 1), ('int', 2)]),
         ('datetime', 'datetime', [('int', 2020), ('int', 1), ('int', 2)]), ('datetime', 'time', [('int', 1), ('int', 2)]),
         ('uuid', 'UUID', [('str', '12345678123456781234567812345678')]), ('collections', 'OrderedDict', []),
         ('deepdiff.helper', 'Opcode', [('str', 'equal'), ('int', 0), ('int', 1), ('int', 0), ('int', 1)]),
         ('deepdiff.helper', 'SetOrdered', [('list', [('int', 1)])])]
FORBIDDEN = [('os', 'system'), ('builtins', 'eval'), ('builtins', 'exec'), ('builtins', 'getattr'), ('subprocess', 'Popen'),
             ('verif_sentinel', 'touch'), ('verif_sentinel', 'Boom'), ('builtins', '__import__'), ('datetime', 'datetime.now'),
             ('builtins', 'bin.__self__'), ('posix', 'system'), ('importlib', 'import_module'), ('builtins', 'bytearray'),
             ('datetime', 'tzinfo'), ('nosuchmodule', 'x'), ('builtins', 'Int')]


def gen_expr(rng, depth, proto, want_forbidden, state):
    """random expression; places at most one forbidden global when want_forbidden and none placed yet"""
    def leaf():
        r = rng.random()
        if r < 0.3:
            return ('int', rng.choice([0, 1, 7, 255, 256, 70000, -3, 2**40]))
        if r < 0.6:
            return ('str', rng.choice(['a', 'root', 'os', 'system', 'builtins', 'eval', 'é', '', 'x y']))
        if r < 0.7:
            return ('none',)
        if r < 0.8:
            return ('bool', rng.random() < 0.5)
        return ('str', 'k%d' % rng.randint(0, 5))

    def glob(forbidden):
        if forbidden:
            m, n = rng.choice(FORBIDDEN)
            state['placed'].append((m, n))
        else:
            m, n, _ = rng.choice(CALLS)
        form = rng.choice(['global', 'stack'])
        if '.' in n and form == 'global':
            form = 'stack' if proto >= 4 else 'global'
        return ('global', m, n, form)

    def call(forbidden):
        if forbidden:
            m, n = rng.choice(FORBIDDEN)
            state['placed'].append((m, n))
            args = [('str', 'echo pwned')]
        else:
            m, n, args = rng.choice(CALLS)
        style = rng.choice(['reduce', 'reduce', 'inst', 'obj'])
        if style == 'reduce' or '.' in n or ' ' in m + n:
            form = rng.choice(['global', 'stack'])
            return ('reduce', ('global', m, n, form), ('tuple', args))
        if style == 'inst':
            return ('inst', m, n, args)
        return ('obj', ('global', m, n, rng.choice(['global', 'stack'])), args)

    if depth <= 0:
        return leaf()
    r = rng.random()
    put_forbidden = want_forbidden and not state['placed'] and rng.random() < 0.35
    if put_forbidden:
        return call(True) if rng.random() < 0.6 else glob(True)
    if r < 0.2:
        return leaf()
    if r < 0.4:
        return ('list', [gen_expr(rng, depth - 1, proto, want_forbidden, state) for _ in range(rng.randint(0, 3))])
    if r < 0.55:
        return ('tuple', [gen_expr(rng, depth - 1, proto, want_forbidden, state) for _ in range(rng.randint(0, 4))])
    if r < 0.75:
        n = rng.randint(0, 3)
        return ('dict', [(('str', 'k%d' % i), gen_expr(rng, depth - 1, proto, want_forbidden, state)) for i in range(n)])
    if r < 0.85:
        return call(False)
    if r < 0.92:
        return glob(False)
    if r < 0.96:
        return ('persid', rng.choice(['<<NoneType>>', 'other']))
    return ('ext', rng.choice([1, 200, 300]))


def contains_call(e):
    if not isinstance(e, tuple):
        return False
    if e[0] in ('reduce', 'inst', 'obj', 'newobj', 'build', 'ext', 'global', 'persid'):
        return True
    return any(contains_call(x) if isinstance(x, tuple) else any(contains_call(y) if isinstance(y, tuple) else (isinstance(y, tuple) and False) for y in (x if isinstance(x, list) else []))
               for x in e[1:] if isinstance(x, (tuple, list))) or any(
        isinstance(x, list) and any((isinstance(y, tuple) and (contains_call(y) or (len(y) == 2 and isinstance(y[1], tuple) and contains_call(y[1])))) for y in x)
        for x in e[1:])


def part_b(ctx):
    from deepdiff.serialization import SAFE_TO_IMPORT
    EXT = [(200, 'builtins', 'set'), (300, 'os', 'system')]
    for code, m, n in EXT:
        try:
            copyreg.add_extension(m, n, code)
        except ValueError:
            pass
    try:
        n = 6000 if ctx.thorough() else 900
        cases = []
        for i in range(n):
            proto = i % 6
            want = ctx.rng.random() < 0.6
            state = {'placed': []}
            e = gen_expr(ctx.rng, ctx.rng.randint(1, 4), proto, want, state)
            if want and not state['placed'] and ctx.rng.random() < 0.8:
                m, nn = ctx.rng.choice(FORBIDDEN)
                state['placed'].append((m, nn))
                e = ('list', [e, ('reduce', ('global', m, nn, ctx.rng.choice(['global', 'stack'])), ('tuple', [('str', 'x')]))])
            safe = ctx.rng.choice([(), (), ('verif_sentinel.touch',), ('os.path',)])
            try:
                b = pkl.Asm(proto, ctx.rng).program(e)
                toks = pkl.ops_from_bytes(b)
            except Exception as ex:
                ctx.count('asm_skipped')
                continue
            cases.append((proto, e, safe, b, toks, state['placed']))
        lines = [pkl.pkl_line(toks, safe, EXT) for (_, _, safe, _, toks, _) in cases]
        model = core.run_model(lines) if ctx.build_ok else None
        for i, (proto, e, safe, b, toks, placed) in enumerate(cases):
            ctx.evaluations += 1
            del SENTINEL_HITS[:]
            mods_before = set(sys.modules)
            out, obj, tr = pkl.real_load(b, safe_to_import=set(safe) or None)
            allow = pkl.allow_list(safe)
            case = {'kind': 'program', 'proto': proto, 'safe_to_import': list(safe), 'pickle_hex': b.hex(), 'ops': toks}
            ctx.count('proto%d' % proto)
            ctx.count('outcome:' + out.split(' ')[0])
            # ---- property on the implementation
            bad_res = [mn for mn in tr.resolved if (mn[0] + '.' + mn[1]) not in allow]
            if bad_res:
                ctx.violate(case, 'resolved %r which is not on the allow-list' % (bad_res,))
            hits_allowed = 'verif_sentinel.touch' in allow
            if SENTINEL_HITS and not hits_allowed:
                ctx.violate(case, 'forbidden sentinel callable was invoked: %r' % (SENTINEL_HITS[:2],))
            new_mods = set(sys.modules) - mods_before
            if new_mods:
                ctx.violate(case, 'loading imported modules %r' % sorted(new_mods))
            req_bad = [mn for mn in tr.requested if (mn[0] + '.' + mn[1]) not in allow]
            if req_bad and not out.startswith('forbidden ' + pkl.enc_str(req_bad[0][0] + '.' + req_bad[0][1])):
                ctx.violate(case, 'a global outside the allow-list (%r) was requested but the outcome is %s, not ForbiddenModule for it' % (req_bad[0], out))
            placed_bad = [mn for mn in placed if (mn[0] + '.' + mn[1]) not in allow]
            if placed_bad and out == 'ok':
                ctx.violate(case, 'payload naming forbidden global %r loaded' % (placed_bad,))
            # ---- correspondence
            if model is not None:
                ctx.traces += 1
                mo = pkl.model_outcome(model[i])
                io_ = out
                if out == 'ok':
                    # compare rendered object only for data-only programs; symbolic nodes are not comparable with live objects
                    io_ = 'ok'
                    mo_cmp = 'ok' if mo.startswith('ok ') else mo
                    if mo.startswith('ok ') and not any(t.split('=')[0] in ('reduce', 'inst', 'obj', 'newobj', 'build', 'ext', 'global', 'stackglobal', 'persid', 'binpersid') for t in toks):
                        try:
                            if pkl.symb(obj) != mo[3:]:
                                ctx.diverge(case, pkl.symb(obj), mo[3:], op='PKL-object')
                        except Exception as ex:
                            ctx.count('symb_failed')
                else:
                    mo_cmp = 'ok' if mo.startswith('ok ') else mo
                if io_ != mo_cmp and not (io_ == 'vmerror' and mo_cmp == 'ok'):
                    ctx.diverge(case, out, model[i][:300], op='PKL-outcome')
                elif io_ == 'vmerror' and mo_cmp == 'ok':
                    ctx.count('real_call_failed_model_symbolic')   # an allowed callable raised when really called
                if pkl.ev_resolved(tr) != pkl.model_resolved(model[i]) and not (io_ == 'vmerror'):
                    ctx.diverge(case, pkl.ev_resolved(tr), pkl.model_resolved(model[i]), op='PKL-resolved-events')
            if placed or tr.requested:
                ctx.nontriv(lines[i])
            if i % 301 == 0:
                ctx.sample({'proto': proto, 'ops': ' '.join(toks)[:300], 'impl': out, 'resolved': tr.resolved[:4]})
    finally:
        for code, m, n in EXT:
            try:
                copyreg.remove_extension(m, n, code)
            except ValueError:
                pass


# ------------------------------------------------------------------ converse: own dumps load

SUPPORTED = {
    'int': 3, 'str': 'x', 'float': 1.5, 'bool': True, 'none': None, 'bytes': b'ab', 'list': [1, 'a'], 'tuple': (1, 2), 'set': {1, 2},
    'frozenset': frozenset([1]), 'dict': {'k': [1]}, 'Decimal': decimal.Decimal('1.5'), 'datetime': datetime.datetime(2020, 1, 2, 3, 4, 5),
    'datetime_tz': datetime.datetime(2020, 1, 2, tzinfo=datetime.timezone.utc), 'date': datetime.date(2020, 1, 2),
    'time': datetime.time(1, 2, 3), 'timedelta': datetime.timedelta(days=1, seconds=5), 'uuid': uuid.UUID(int=5), 'complex': 1 + 2j,
    'range': range(3), 'type': int, 'slice': slice(1, 2), 'bytearray': bytearray(b'a'), 'OrderedDict': collections.OrderedDict([(1, 2)]),
}


def own_dump_cases(ctx):
    from deepdiff import DeepDiff, Delta
    cases = []
    for name, v in SUPPORTED.items():
        for bidir in (False, True):
            for shape in ('added', 'changed', 'typechange', 'inlist'):
                if shape == 'added':
                    t1, t2 = {'a': 1}, {'a': 1, 'b': v}
                elif shape == 'changed':
                    t1, t2 = {'a': v}, {'a': [copy.deepcopy(v), 1]}
                elif shape == 'typechange':
                    t1, t2 = {'a': 'zz'}, {'a': v}
                else:
                    t1, t2 = [1, 2], [1, 2, v]
                cases.append((name, bidir, shape, t1, t2))
    return cases


def part_c(ctx):
    from deepdiff import DeepDiff, Delta
    findings = {f['witness']['type']: f for f in core.load_findings(ID) if f.get('status') == 'open' and f.get('witness', {}).get('kind') == 'own_dump'}
    failed_types = {}
    lines, metas = [], []
    for (name, bidir, shape, t1, t2) in own_dump_cases(ctx):
        ctx.evaluations += 1
        case = {'kind': 'own_dump', 'type': name, 'bidirectional': bidir, 'shape': shape, 't1': repr(t1), 't2': repr(t2)}
        try:
            d = Delta(DeepDiff(t1, t2), bidirectional=bidir)
            b = d.dumps()
        except Exception as e:
            ctx.count('own_dump_unsupported:' + name)
            continue
        out, obj, tr = pkl.real_load(b)
        ctx.count('own_dump:' + out.split(' ')[0])
        if out != 'ok':
            failed_types.setdefault(name, []).append((case, out))
        try:
            toks = pkl.ops_from_bytes(b)
            lines.append(pkl.pkl_line(toks)); metas.append((case, out, obj, tr))
        except Exception:
            pass
    if ctx.build_ok and lines:
        model = core.run_model(lines)
        for (case, out, obj, tr), ans, ln in zip(metas, model, lines):
            ctx.traces += 1
            if pkl.aliases_mutable(ln.split(' P ', 1)[1].split(' ')):
                ctx.count('own_dump_aliases_mutable_skipped'); continue
            mo = pkl.model_outcome(ans)
            if out == 'ok':
                try:
                    sy = 'ok ' + pkl.symb(obj)
                except Exception as e:
                    ctx.count('symb_failed'); continue
                if sy != mo:
                    ctx.diverge(case, sy[:400], mo[:400], op='PKL-own-dump')
            elif out != mo:
                ctx.diverge(case, out, mo[:300], op='PKL-own-dump')
    for name, lst in failed_types.items():
        if name in findings:
            ctx.known_reproduced.append('%s: %s' % (findings[name]['id'], findings[name]['what_fails']))
        else:
            case, out = lst[0]
            ctx.violate(case, 'a dump Delta itself produced for a supported value type (%s) does not load: %s' % (name, out))
    for name, f in findings.items():
        if name not in failed_types:
            ctx.known_not_reproduced.append(f['id'])


def ext_cache_witness():
    """F22: returns True when the warmed-extension-cache bypass still reproduces."""
    import struct
    from deepdiff.serialization import pickle_load
    code = 300
    try:
        copyreg.add_extension('os', 'system', code)
    except ValueError:
        pass
    payload = pickle.PROTO + b'\x02' + pickle.EXT2 + struct.pack('<H', code) + pickle.STOP
    try:
        pkl.clear_extension_cache()
        try:
            pickle_load(payload)
            cold = 'loaded'
        except Exception as e:
            cold = type(e).__name__
        pickle.loads(payload)          # some other unpickler in the process warms the cache
        try:
            r = pickle_load(payload)
            warm = 'loaded'
        except Exception as e:
            warm = type(e).__name__
        return cold, warm
    finally:
        pkl.clear_extension_cache()
        try:
            copyreg.remove_extension('os', 'system', code)
        except ValueError:
            pass


def part_d(ctx):
    cold, warm = ext_cache_witness()
    ctx.evaluations += 1
    f = [x for x in core.load_findings(ID) if x['id'] == 'F22' and x.get('status') == 'open']
    case = {'kind': 'ext_cache', 'cold': cold, 'warm': warm}
    if cold != 'ForbiddenModule':
        ctx.violate(case, 'EXT opcode naming os.system loaded with a cold extension cache (%s)' % cold)
    if warm == 'loaded':
        if f:
            ctx.known_reproduced.append('F22: ' + f[0]['what_fails'])
        else:
            ctx.violate(case, 'EXT opcode served os.system from the copyreg extension cache without ForbiddenModule')
    elif f:
        ctx.known_not_reproduced.append('F22')


def part_e(ctx):
    """a rejected payload has no side effect: a global of a sub-module that is importable but not imported yet (its package is) is refused
    without importing the sub-module, i.e. without running its top-level code"""
    import tempfile, shutil, pickle, importlib
    from deepdiff import serialization as S
    tmp = tempfile.mkdtemp(prefix='verif_c15_')
    try:
        pkg = os.path.join(tmp, 'verif_pkg15')
        os.makedirs(os.path.join(pkg, 'tasks'))
        open(os.path.join(pkg, '__init__.py'), 'w').write('')
        open(os.path.join(pkg, 'tasks', '__init__.py'), 'w').write('')
        marker = os.path.join(tmp, 'marker')
        for rel in ('maintenance.py', os.path.join('tasks', 'cleanup.py')):
            open(os.path.join(pkg, rel), 'w').write('open(%r, "a").write("ran\\n")\ndef run(*a):\n    return 1\n' % marker)
        sys.path.insert(0, tmp)
        importlib.invalidate_caches()
        import verif_pkg15, verif_pkg15.tasks     # noqa: the packages are loaded, their sub-modules are not
        names = [('verif_pkg15.maintenance', 'run'), ('verif_pkg15.tasks.cleanup', 'run')]
        for stdlib in (('json.tool', 'main'), ('logging.config', 'dictConfig'), ('xml.dom.minidom', 'parse'), ('email.mime.text', 'MIMEText')):
            if stdlib[0] not in sys.modules and stdlib[0].rsplit('.', 1)[0] in sys.modules:
                names.append(stdlib)
        for (m, n) in names:
            for proto in (0, 2, 4):
                before = m in sys.modules
                payload = (b'c' + m.encode() + b'\n' + n.encode() + b'\n.') if proto < 4 else (b'\x80\x04\x8c' + bytes([len(m)]) + m.encode() + b'\x8c' + bytes([len(n)]) + n.encode() + b'\x93.')
                ctx.evaluations += 1
                case = {'kind': 'import_side_effect', 'module': m, 'name': n, 'protocol': proto}
                try:
                    S.pickle_load(payload)
                    ctx.violate(case, 'a payload naming %s.%s loaded' % (m, n))
                except S.ForbiddenModule:
                    ctx.count('side_effect_forbidden')
                except Exception as e:
                    ctx.count('side_effect_other:' + type(e).__name__)
                if not before and m in sys.modules:
                    ctx.violate(case, 'the rejected payload imported %s (its top-level code ran)' % m)
                    del sys.modules[m]
        if os.path.exists(marker):
            ctx.violate({'kind': 'import_side_effect', 'module': 'verif_pkg15.*', 'name': 'run'}, 'top-level code of a forbidden module ran while the payload was rejected')
    finally:
        if tmp in sys.path:
            sys.path.remove(tmp)
        for k in [k for k in sys.modules if k.startswith('verif_pkg15')]:
            del sys.modules[k]
        shutil.rmtree(tmp, ignore_errors=True)


def part_f(ctx):
    """the JSON dumps of a delta: loading one resolves no name outside the allow-list either -- a type name that is not one of the documented ones stays a text,
    and applying the loaded delta calls nothing"""
    import builtins, json, os
    from deepdiff import Delta
    from deepdiff.serialization import json_loads, SAFE_TO_IMPORT, TYPE_STR_TO_TYPE
    allowed = {getattr(builtins, n.split('.', 1)[1]) for n in SAFE_TO_IMPORT if n.startswith('builtins.') and hasattr(builtins, n.split('.', 1)[1])} | set(TYPE_STR_TO_TYPE.values())
    names = [n for n in dir(builtins) if not n.startswith('_') and callable(getattr(builtins, n)) and getattr(builtins, n) not in allowed]
    names = ['eval', 'exec', 'open', '__import__', 'getattr', 'compile', 'breakpoint', 'input'] + ctx.rng.sample(names, min(len(names), 40 if ctx.thorough() else 10))
    apply_ok = {'eval', 'exec'}          # the delta is applied only where a resolved name could do no more than set the flag (input / breakpoint / exit would block or end the check)
    flag = 'VERIF_C15_JSON_HIT'

    def walk(v):
        if isinstance(v, dict):
            for x in v.values():
                yield from walk(x)
        elif isinstance(v, (list, tuple, set, frozenset)):
            for x in v:
                yield from walk(x)
        else:
            yield v

    for name in names:
        hostile = "__import__('os').environ.__setitem__('%s', '1')" % flag
        for payload in ({'type_changes': {"root['a']": {'old_type': 'str', 'new_type': name}}},
                        {'type_changes': {"root['a']": {'old_type': name, 'new_type': 'str', 'new_value': 'v'}}},
                        {'type_changes': {'root[0]': {'old_type': 'builtins.' + name, 'new_type': 'builtins.' + name}}}):
            text = json.dumps(payload)
            for route in ('json_loads', 'Delta'):
                case = {'clause': 'JSON dump naming a builtin outside the allow-list', 'name': name, 'route': route, 'payload': text}
                ctx.evaluations += 1
                os.environ.pop(flag, None)
                try:
                    if route == 'json_loads':
                        loaded = json_loads(text)
                    else:
                        d = Delta(text, deserializer=json_loads, raise_errors=False, log_errors=False)
                        loaded = d.diff
                        if name in apply_ok:
                            try:
                                {'a': hostile} + d
                                [hostile] + d
                            except BaseException:
                                pass
                except Exception as e:
                    ctx.count('json_refused:' + type(e).__name__); continue
                ctx.count('json_loaded')
                ctx.nontriv((name, route, text))
                bad = [v for v in walk(loaded) if (callable(v) or isinstance(v, type)) and v not in allowed]
                if bad:
                    ctx.violate(case, 'loading the JSON dump resolved %r, which is not on the allow-list' % bad[:3])
                if os.environ.pop(flag, None):
                    ctx.violate(case, 'applying the loaded delta evaluated a value of the target')


def run(ctx):
    core.witnesses(ctx, ID, {'F44': f44_witness})
    install_sentinel()
    part_a(ctx)
    part_b(ctx)
    part_c(ctx)
    part_d(ctx)
    part_e(ctx)
    part_f(ctx)


def f44_witness():
    """finding F44: the dump of a delta between numpy arrays loads without any safe_to_import"""
    import numpy as np
    from deepdiff import DeepDiff, Delta
    d = Delta(DeepDiff(np.array([[1, 2], [3, 4]]), np.array([[1, 2], [3, 5]])))
    try:
        Delta(d.dumps())
        return True
    except Exception:
        return False


def search(ctx):
    c2 = core.Ctx(ctx.pid, 'thorough', ctx.seed + 1)
    c2.build_ok = False
    install_sentinel()
    part_a(c2); part_b(c2); part_c(c2); part_d(c2)
    return c2.violations


def replay(ctx, payload):
    install_sentinel()
    from deepdiff.serialization import SAFE_TO_IMPORT
    ok = True
    for c in payload.get('cases', []):
        case = c['case']
        if case.get('kind') == 'program':
            b = bytes.fromhex(case['pickle_hex'])
            out, obj, tr = pkl.real_load(b, safe_to_import=set(case['safe_to_import']) or None)
            allow = pkl.allow_list(case['safe_to_import'])
            bad = [mn for mn in tr.resolved if (mn[0] + '.' + mn[1]) not in allow]
            print('  program proto=%s -> %s resolved=%s' % (case['proto'], out, tr.resolved))
            ok = ok and not bad
        elif case.get('kind') == 'find_class':
            out, _ = fc_real(case['module'], case['name'], set(case['safe_to_import']))
            allowed = (case['module'] + '.' + case['name']) in pkl.allow_list(case['safe_to_import'])
            print('  find_class(%r,%r) -> %s (allowed=%s)' % (case['module'], case['name'], out, allowed))
            ok = ok and (allowed == (not out.startswith('forbidden')))
        else:
            print('  ', case, c.get('why'))
            ok = False
    return ok
