"""C11 — ignore/tolerance options only remove differences and never make DeepDiff fail."""
import copy, datetime, enum, itertools, math, decimal
from .. import core, diffing as DF, hashing as HS
from ..gen import Gen, strict_eq
from ..pkl import enc_str
from ..wire import val_tokens, OutOfUniverse
from . import _difffam as FAM

ID = 'C11'
LEAN_TARGETS = ['Properties.C11']
THEOREMS = ['DiffO.C11_similar_empty', 'DiffO.C11_case_leaf', 'DiffO.C11_strtype_leaf', 'DiffO.C11_numtype_leaf', 'DiffO.C11_epsilon_leaf', 'DiffO.C11_significant_leaf', 'DiffO.C11_excluded_leaf', 'DiffO.C11_private_key', 'DiffO.C11_exclude_misaligned_fixed', 'DiffO.C11_N_colliding_keys_order', 'DiffO.C11_copy_empty_all_options']
RULE = ('nested values (dict with str/int/float/None keys, list, tuple, set of scalars; leaves str, bytes, int, float, bool, None, aware/naive datetimes, enum members, nan) x '
        'each option F in {ignore_string_case, ignore_string_type_changes, ignore_numeric_type_changes, significant_digits, math_epsilon, truncate_datetime, default_timezone, '
        'ignore_private_variables, exclude_types, ignore_nan_inequality, use_enum_value} and pairs of options x a normaliser for F applied at 1..all eligible positions, dict keys '
        'included: (1) DeepDiff(x, N_F(x), **F) == {}; (2) DeepDiff(a, b) == {} implies DeepDiff(a, b, **F) == {} for single options and pairs; (3) DeepDiff(a, b, **F) does not '
        'raise when DeepDiff(a, b) does not, on generated pairs with edits. Both alignment modes. distinct = distinct (x, option, altered positions); non-trivial = the plain diff '
        'of the normalised pair is not empty (the option had something to remove)')
TRUSTED_BASE = ['datetime / zoneinfo arithmetic of the standard library', 'binary floating point rounding inside number_to_string is observed, not modelled']
ASSUMPTIONS = ['ignore_private_variables is on by default: "the option" is True against False', 'perturbations stay away from rounding boundaries (leaves have <= 2 decimals, '
               'significant_digits >= 3, |delta| <= 10^-(digits+2); |delta| < epsilon/2)', 'two keys of one dict never collapse to the same cleaned key']


class Color(enum.Enum):
    RED = 1
    GREEN = 'green'


UTC = datetime.timezone.utc
TZ5 = datetime.timezone(datetime.timedelta(hours=5))
TZM3 = datetime.timezone(datetime.timedelta(hours=-3, minutes=-30))
DT = [datetime.datetime(2024, 5, 1, 12, 30, 15, tzinfo=UTC), datetime.datetime(2023, 1, 2, 3, 4, 5, 600, tzinfo=TZ5), datetime.datetime(2020, 2, 29, 23, 59, 59)]
STRS = ['a', 'Hello', 'WORLD', 'mixed Case', 'x y', '', 'abc', 'Zed9']
NUMS = [0, 1, 2, 10, -3, 1.5, 2.25, 0.1, 10.0, 3.0, 100]

OPTIONS = {
    'ignore_string_case': dict(ignore_string_case=True),
    'ignore_string_type_changes': dict(ignore_string_type_changes=True),
    'ignore_numeric_type_changes': dict(ignore_numeric_type_changes=True),
    'significant_digits': dict(significant_digits=3),
    'math_epsilon': dict(math_epsilon=0.01),
    'truncate_datetime': dict(truncate_datetime='minute'),
    'default_timezone': dict(default_timezone=TZ5),
    'ignore_private_variables': dict(ignore_private_variables=True),
    'exclude_types': dict(exclude_types=[float]),
    'ignore_nan_inequality': dict(ignore_nan_inequality=True),
    'use_enum_value': dict(use_enum_value=True),
}
BASE_OFF = {'ignore_private_variables': dict(ignore_private_variables=False)}      # the "without the option" side for an option that is on by default


def plain_kwargs(name):
    return dict(BASE_OFF.get(name, {}))


# ---------------------------------------------------------------- normalisers: (eligible?, alter)
def n_case(rng, v):
    if isinstance(v, str) and v.isascii() and v.lower() != v.upper():     # bytes.lower() is ASCII-only: non-ASCII letter case is not what the option promises for bytes
        return rng.choice([v.upper(), v.lower(), v.swapcase()])
    if isinstance(v, bytes) and v.lower() != v.upper():          # byte strings: the ASCII letters only, whatever the other bytes are (text in any encoding, binary data)
        return rng.choice([v.upper(), v.lower(), v.swapcase()])
    return None


def n_strtype(rng, v):
    if isinstance(v, str):
        return v.encode('utf-8')
    if isinstance(v, bytes):
        try:
            return v.decode('utf-8')
        except UnicodeDecodeError:
            return None          # not a text: no str to stand for it
    return None


def n_numtype(rng, v):
    if type(v) is int:
        return float(v)
    if type(v) is float and v == v and abs(v) < 1e15 and v == int(v):
        return int(v)
    return None


def n_sig(rng, v):
    if type(v) is float and v == v and abs(v) != float('inf'):
        return v + rng.choice([1e-5, -1e-5, 2e-6])
    if type(v) is complex and v == v and abs(v) != float('inf'):
        return complex(v.real + rng.choice([1e-5, -1e-5, 0.0]), v.imag + rng.choice([1e-5, -1e-5, 2e-6]))
    return None


def n_eps(rng, v):
    if type(v) is float and v == v and abs(v) != float('inf'):
        return v + rng.choice([0.004, -0.004, 0.001])
    if type(v) is complex and v == v and abs(v) != float('inf'):
        return complex(v.real + rng.choice([0.002, -0.002, 0.0]), v.imag + rng.choice([0.002, -0.002, 0.001]))
    return None


def n_trunc(rng, v):
    if isinstance(v, datetime.datetime):
        return v.replace(second=(v.second + rng.randint(1, 20)) % 60 if v.second < 39 else v.second - rng.randint(1, 30), microsecond=rng.randint(0, 999999))
    return None


def n_tz_same_instant(rng, v):
    if isinstance(v, datetime.datetime) and v.tzinfo is not None:
        return v.astimezone(rng.choice([UTC, TZ5, TZM3]))
    return None


def n_default_tz(rng, v):
    """a naive datetime and the same wall time stamped with the default timezone"""
    if isinstance(v, datetime.datetime) and v.tzinfo is None:
        return v.replace(tzinfo=TZ5)
    return None


def n_excluded(rng, v):
    if type(v) is float:
        return v * 3 + 1.25
    return None


def n_nan(rng, v):
    if type(v) is float and v != v:
        return float('nan')
    return None


def n_enum(rng, v):
    if isinstance(v, Color):
        return v.value
    return None


NORMALISERS = {
    'ignore_string_case': (n_case, True),
    'ignore_string_type_changes': (n_strtype, True),
    'ignore_numeric_type_changes': (n_numtype, True),
    'significant_digits': (n_sig, False),
    'math_epsilon': (n_eps, False),
    'truncate_datetime': (n_trunc, False),
    'default_timezone': (n_default_tz, False),
    'exclude_types': (n_excluded, False),
    'ignore_nan_inequality': (n_nan, False),
    'use_enum_value': (n_enum, True),
}
NONASCII = ['é', 'Ünï', 'naïve café', '日本']
import decimal as _decimal
ODD_NUMS = [float('inf'), float('-inf'), 1 - 2j, -1.5 + 0.25j, 2j, 3 + 0j, -4.5j, _decimal.Decimal('Infinity'), _decimal.Decimal('2.50')]
NANS = [float('nan'), _decimal.Decimal('NaN')]          # a nan differs from itself in the plain diff: only where a non-empty plain diff is allowed
ODD_DATES = [datetime.date(2024, 5, 1), datetime.date(2020, 2, 29), datetime.timedelta(days=1, seconds=5), datetime.timedelta(0), datetime.time(12, 30, 15), datetime.time(1, 2, 3, 400)]


def apply_normaliser(rng, v, fn, keys_too, p=0.6, stats=None):
    """alter v at random eligible positions (leaves; dict keys when keys_too)"""
    if isinstance(v, dict):
        out = {}
        for k, x in v.items():
            nk = k
            if keys_too and rng.random() < p and not (isinstance(k, (str, bytes)) and k[:2] in ('__', b'__')):      # private keys stay private
                a = fn(rng, k)
                if a is not None:
                    nk = a
                    if stats is not None: stats['keys'] += 1
            out[nk] = apply_normaliser(rng, x, fn, keys_too, p, stats)
        if len(out) != len(v):
            return copy.deepcopy(v)            # two keys collapsed: leave this dict alone
        return out
    if isinstance(v, list):
        return [apply_normaliser(rng, x, fn, keys_too, p, stats) for x in v]
    if isinstance(v, tuple):
        return tuple(apply_normaliser(rng, x, fn, keys_too, p, stats) for x in v)
    if isinstance(v, (set, frozenset)):
        return copy.deepcopy(v)
    if rng.random() < p:
        a = fn(rng, v)
        if a is not None:
            if stats is not None: stats['leaves'] += 1
            return a
    return copy.deepcopy(v)


def private_normaliser(rng, v, stats):
    """add / change / drop double-underscore keys in dicts"""
    if isinstance(v, dict):
        out = {k: private_normaliser(rng, x, stats) for k, x in v.items()}
        r = rng.random()
        if r < 0.4:
            out['__hidden'] = rng.choice([1, 'x', [1, 2]]); stats['keys'] += 1
        elif r < 0.6 and '__p' in out:
            out['__p'] = 'changed'; stats['keys'] += 1
        elif r < 0.8 and '__p' in out:
            del out['__p']; stats['keys'] += 1
        return out
    if isinstance(v, list):
        return [private_normaliser(rng, x, stats) for x in v]
    if isinstance(v, tuple):
        return tuple(private_normaliser(rng, x, stats) for x in v)
    return copy.deepcopy(v)


def gen_value(ctx, name=None):
    scal = STRS + NUMS + [None, True, False]
    keys = ['a', 'b', 'Key', 'x y', 'ab', 1, 2, 10, 1.5, None, '__p']
    if name in ('truncate_datetime', 'default_timezone', None):
        scal = scal + DT + ODD_DATES
    if name in ('significant_digits', 'ignore_numeric_type_changes', 'math_epsilon', None):
        scal = scal + ODD_NUMS + (NANS if name is None else [])
    if name in ('ignore_string_type_changes', None):
        scal = scal + NONASCII
    if name in ('ignore_nan_inequality',):
        scal = scal + [float('nan')]
    if name in ('use_enum_value',):
        scal = scal + [Color.RED, Color.GREEN]
        keys = ['a', 'b', 'Key', 'x y', 2, 10, None, '__p', Color.RED, Color.GREEN]          # not 1 / 'green': they would collapse with the members' values
    if name in ('ignore_string_type_changes',):
        scal = scal + [b'a', b'bytes']
    if name in ('ignore_string_case',):
        scal = scal + [b'\x89PNG\r\n', b'Caf\xe9 Bar', b'abc', b'MiXed \xff\xfe', 'Caf\u00e9'.encode(), b'\x00A']
    if name in ('ignore_string_case', 'ignore_string_type_changes'):
        keys = ['a', 'b', 'Key', 'x y', 'ab', 'UP'] + (['é', '日本'] if name == 'ignore_string_type_changes' else [])
    g = Gen(ctx.rng, scalars=scal, keys=keys, kinds=('dict', 'list', 'tuple'), max_depth=3, max_width=4, p_leaf=0.4)
    return g.container()


def safe_diff(t1, t2, **kw):
    from deepdiff import DeepDiff
    try:
        return DeepDiff(t1, t2, **kw), None
    except Exception as e:
        return None, e


def run(ctx, impl_only=False):
    from deepdiff import DeepDiff
    findings = {f['id']: f for f in core.load_findings(ID) if f.get('status') == 'open'}
    n = 500 if ctx.thorough() else 60
    names = list(NORMALISERS) + ['ignore_private_variables']
    # ---- (1) normaliser => empty
    for name in names:
        for i in range(n):
            x = gen_value(ctx, name)
            stats = {'keys': 0, 'leaves': 0}
            if name == 'ignore_private_variables':
                y = private_normaliser(ctx.rng, x, stats)
            else:
                fn, keys_too = NORMALISERS[name]
                y = apply_normaliser(ctx.rng, x, fn, keys_too, p=ctx.rng.choice([0.3, 0.6, 1.0]), stats=stats)
            if stats['keys'] + stats['leaves'] == 0:
                ctx.count('normaliser_no_position:' + name); continue
            for zip_ in (False, True):
                kw = dict(OPTIONS[name], zip_ordered_iterables=zip_)
                case = {'clause': 'normaliser', 'option': name, 'x': repr(x), 'y': repr(y), 'zip': zip_}
                ctx.evaluations += 1
                d, e = safe_diff(x, y, **kw)
                if e is not None:
                    ctx.violate(case, 'DeepDiff raised %s: %s' % (type(e).__name__, str(e)[:80])); continue
                plain, e0 = safe_diff(x, y, zip_ordered_iterables=zip_, **plain_kwargs(name))
                if e0 is None and plain:
                    ctx.nontriv((name, repr(x), repr(y), zip_))
                ctx.count('normaliser:%s' % name)
                if stats['keys']:
                    ctx.count('normaliser_on_keys:%s' % name)
                if d:
                    ctx.violate(case, 'a value altered only in what %s ignores gives a non-empty diff: %s' % (name, str(d)[:150]))
            # the same pair under the option plus a second one, and with the second option's normaliser applied on top
            others_all = [o for o in OPTIONS if o != name]
            for other in [others_all[(2 * i + t) % len(others_all)] for t in range(3 if ctx.thorough() else 2)]:      # every pair is met every few cases
                y2 = y
                if other in NORMALISERS and ctx.rng.random() < 0.6:
                    fn2, keys2 = NORMALISERS[other]
                    st2 = {'keys': 0, 'leaves': 0}
                    y2 = apply_normaliser(ctx.rng, y, fn2, keys2, p=0.5, stats=st2)
                elif other == 'ignore_private_variables' and ctx.rng.random() < 0.6:
                    y2 = private_normaliser(ctx.rng, y, {'keys': 0, 'leaves': 0})
                kw = dict(OPTIONS[name]); kw.update(OPTIONS[other])
                case = {'clause': 'normaliser', 'options': [name, other], 'x': repr(x), 'y': repr(y2), 'zip': False}
                ctx.evaluations += 1
                d, e = safe_diff(x, y2, **kw)
                ctx.count('normaliser_pair')
                if e is not None:
                    ctx.violate(case, 'DeepDiff raised %s: %s' % (type(e).__name__, str(e)[:80]))
                elif d:
                    ctx.violate(case, 'a value altered only in what %s and %s ignore gives a non-empty diff: %s' % (name, other, str(d)[:150]))
            if len(ctx.samples) < 6 and i == 0:
                ctx.sample({'option': name, 'x': repr(x)[:100], 'y': repr(y)[:100]})
    # ---- sets that hold two members the option identifies (twins): altering one twin into the other collapses the set; still nothing to report
    twin_src = {'ignore_string_case': ['Alpha', 'mixed Case', 'Zed9'], 'ignore_string_type_changes': ['k', 'abc', ''],
                'significant_digits': [1.5, 2.25, 100.125], 'use_enum_value': [Color.RED, Color.GREEN]}
    for name, pool in twin_src.items():
        fn = NORMALISERS[name][0]
        for i in range(max(6, n // 10)):
            a = ctx.rng.choice(pool)
            b = fn(ctx.rng, a)
            if b is None:
                continue
            try:
                filler = set(ctx.rng.sample(['p', 'q', 7, 8.5, None, (1, 2)], ctx.rng.randint(0, 3)))
                mk = ctx.rng.choice([set, frozenset])
                s_both, s_one = mk({a, b} | filler), mk({ctx.rng.choice([a, b])} | filler)
            except TypeError:
                continue
            wrap = ctx.rng.choice([lambda v: v, lambda v: {'s': v, 'z': 1}, lambda v: [v, 0]])
            for x, y in ((wrap(s_both), wrap(s_one)), (wrap(s_one), wrap(s_both))):
                kw = dict(OPTIONS[name])
                case = {'clause': 'normaliser', 'option': name, 'x': repr(x), 'y': repr(y), 'zip': False}
                ctx.evaluations += 1
                d, e = safe_diff(x, y, **kw)
                ctx.count('twin_set_members:' + name)
                if e is not None:
                    ctx.violate(case, 'DeepDiff raised %s: %s' % (type(e).__name__, str(e)[:80]))
                elif d:
                    ctx.violate(case, 'a set whose members %r and %r are one value under %s, with one of them altered into the other, gives a non-empty diff: %s' % (a, b, name, str(d)[:150]))
    # timezone of the same instant: empty under the default options and under every datetime option
    for i in range(n):
        x = gen_value(ctx, 'default_timezone')
        stats = {'keys': 0, 'leaves': 0}
        y = apply_normaliser(ctx.rng, x, n_tz_same_instant, False, p=1.0, stats=stats)
        if not stats['leaves']:
            continue
        for kw in ({}, OPTIONS['default_timezone'], OPTIONS['truncate_datetime']):
            ctx.evaluations += 1
            d, e = safe_diff(x, y, **kw)
            case = {'clause': 'normaliser', 'option': 'same instant, other timezone ' + repr(sorted(kw)), 'x': repr(x), 'y': repr(y), 'zip': False}
            if e is not None:
                ctx.violate(case, 'DeepDiff raised %s' % type(e).__name__)
            elif d:
                ctx.violate(case, 'the same instant in another timezone is reported: %s' % str(d)[:120])
            ctx.count('normaliser:same_instant')
    # numeric dictionary keys under significant_digits together with an option that switches key cleaning on: keys (and float leaves) moved by
    # less than the tolerance still name the same entry -- for every number of digits, 0 included
    for digits in (0, 1, 3):
        step = 10.0 ** (-digits)
        def near(v, digits=digits, step=step):
            base = float(('%.' + str(digits) + 'f') % v)
            return base + ctx.rng.choice([0.2, 0.3, -0.2] if base != 0 else [0.2, 0.3]) * step
        for second in (dict(ignore_numeric_type_changes=True), dict(ignore_string_case=True), dict(ignore_string_type_changes=True), dict(use_enum_value=True)):
            for i in range(max(3, n // 20)):
                ks = ctx.rng.sample([3.0, 7.5, 12.25, 0.0, -4.0, 100.5, 2.5], ctx.rng.randint(1, 3))
                if len({('%.' + str(digits) + 'f') % k for k in ks}) < len(ks):
                    continue
                inner = {k: ctx.rng.choice([1, 'a', 2.5, [1.5, 'x']]) for k in ks}
                x = ctx.rng.choice([lambda d: d, lambda d: {'m': d, 'z': 1}, lambda d: [d, 0]])(inner)
                def alt(v):
                    if isinstance(v, dict):
                        return {(near(k) if isinstance(k, float) else k): alt(w) for k, w in v.items()}
                    if isinstance(v, list):
                        return [alt(w) for w in v]
                    return near(v) if type(v) is float else v
                y = alt(x)
                kw = dict(second, significant_digits=digits)
                ctx.evaluations += 1
                d, e = safe_diff(x, y, **kw)
                case = {'clause': 'normaliser', 'option': 'numeric keys within the tolerance of significant_digits=%d, with %s' % (digits, sorted(second)[0]), 'x': repr(x), 'y': repr(y), 'zip': False}
                ctx.count('normaliser:significant_digits_keys')
                ctx.nontriv(('sigkeys', repr(x), repr(y), repr(sorted(kw.items()))))
                if e is not None:
                    ctx.violate(case, 'DeepDiff raised %s: %s' % (type(e).__name__, str(e)[:80]))
                elif d:
                    ctx.violate(case, 'keys and leaves moved by less than the tolerance of significant_digits=%d give a non-empty diff: %s' % (digits, str(d)[:150]))
    # truncation is done on the datetime's own clock: two aware datetimes of one local day (hour) differ only in what truncate_datetime='day'
    # ('hour') drops, whatever default_timezone they are converted to afterwards and however far their offset is from it
    TZS = [datetime.timezone(datetime.timedelta(hours=-5)), datetime.timezone(datetime.timedelta(hours=5, minutes=30)), datetime.timezone(datetime.timedelta(hours=9)), UTC]
    for tz in TZS:
        for unit, (wa, wb) in (('day', ((23, 41, 7), (1, 2, 3))), ('day', ((0, 0, 1), (23, 59, 59))), ('hour', ((18, 5, 0), (18, 55, 30))), ('minute', ((7, 7, 1), (7, 7, 59)))):
            a_ = datetime.datetime(2020, 1, 1, *wa, tzinfo=tz); b_ = datetime.datetime(2020, 1, 1, *wb, tzinfo=tz)
            for dz in (None, TZ5, datetime.timezone(datetime.timedelta(hours=9))):
                kw = dict(truncate_datetime=unit)
                if dz is not None:
                    kw['default_timezone'] = dz
                for x, y, extra in [(a_, b_, {}), ({'k': a_}, {'k': b_}, {}), ([a_, 1], [b_, 1], {}), ({a_}, {b_}, {}), ((a_, 'x'), (b_, 'x'), {}), ([1, a_], [b_, 1], {'ignore_order': True})]:
                    ctx.evaluations += 1
                    d, e = safe_diff(x, y, **dict(kw, **extra))
                    case = {'clause': 'normaliser', 'option': 'same local %s, offset %s, options %r' % (unit, tz, sorted(dict(kw, **extra))), 'x': repr(x), 'y': repr(y), 'zip': False}
                    ctx.count('normaliser:truncate_own_clock')
                    ctx.nontriv(('trunc', repr(x), repr(y), repr(sorted(kw))))
                    if e is not None:
                        ctx.violate(case, 'DeepDiff raised %s' % type(e).__name__)
                    elif d:
                        ctx.violate(case, 'two datetimes of one local %s give a non-empty diff under truncate_datetime=%r: %s' % (unit, unit, str(d)[:150]))
    # flat sequences of plain leaves with a repeated datetime / string (the difflib pass aligns the repeat with its twin and shifts the rest; only
    # the pairwise pass is empty and must be the one kept), each item altered in what the option drops
    D0 = datetime.datetime(2021, 3, 4, 5, 6, 7, tzinfo=UTC)
    for i in range(max(6, n // 10)):
        base = [D0 + datetime.timedelta(days=k) for k in range(ctx.rng.randint(2, 4))]
        xs = [base[0]] + base                                   # [D, D, E, F]
        ys = [v + datetime.timedelta(microseconds=ctx.rng.randint(1, 900)) if ctx.rng.random() < 0.8 else v for v in xs]
        ys[1] = xs[1]
        mk_ = ctx.rng.choice([list, tuple])
        for x, y, kw, what in [(mk_(xs), mk_(ys), dict(truncate_datetime='second'), 'truncate_datetime'),
                               (mk_(['a', 'A'] + xs[1:]), mk_(['A', 'A'] + ys[1:]), dict(truncate_datetime='second', ignore_string_case=True), 'truncate_datetime + ignore_string_case'),
                               (mk_(['k', 'K', 'm', 'n']), mk_(['K', 'K', 'M', 'N']), dict(ignore_string_case=True), 'ignore_string_case')]:
            for w in (lambda v: v, lambda v: {'l': v}):
                ctx.evaluations += 1
                d, e = safe_diff(w(x), w(y), **kw)
                case = {'clause': 'normaliser', 'option': what + ' on a flat sequence with a repeated item', 'x': repr(w(x)), 'y': repr(w(y)), 'zip': False}
                ctx.count('normaliser:repeated_item_flat')
                ctx.nontriv(('flatrep', repr(x), repr(y), what))
                if e is not None:
                    ctx.violate(case, 'DeepDiff raised %s' % type(e).__name__)
                elif d:
                    ctx.violate(case, 'items altered only in what %s ignores give a non-empty diff: %s' % (what, str(d)[:150]))
    # datetimes where DeepDiff compares by digest (members of sets and frozensets, tuples in sets, items under ignore_order):
    # the digest must read a naive datetime the way the comparison of two leaves does -- in the configured default timezone
    NAIVE = [datetime.datetime(2020, 2, 29, 23, 59, 59), datetime.datetime(2024, 5, 1, 0, 15), datetime.datetime(2023, 12, 31, 22, 0, 0, 5)]
    for tz in (TZ5, TZM3, UTC, datetime.timezone(datetime.timedelta(hours=5, minutes=30))):
        for i in range(max(6, n // 10)):
            k = ctx.rng.randint(1, 3)
            mem = ctx.rng.sample(NAIVE, k) + ctx.rng.sample([1, 'a', None, 2.5], ctx.rng.randint(0, 2))
            def alt(v):
                if isinstance(v, datetime.datetime) and ctx.rng.random() < 0.8:
                    w = v.replace(tzinfo=tz)
                    return w.astimezone(ctx.rng.choice([UTC, TZ5, TZM3])) if ctx.rng.random() < 0.5 else w
                return v
            mem2 = [alt(v) for v in mem]
            if mem2 == mem and all(a.tzinfo == b.tzinfo for a, b in zip(mem, mem2) if isinstance(a, datetime.datetime)):
                continue
            shapes = [(set(mem), set(mem2), {}), (frozenset(mem), frozenset(mem2), {}), ({'s': set(mem)}, {'s': set(mem2)}, {}),
                      ({(v, 1) for v in mem}, {(v, 1) for v in mem2}, {}), ([set(mem), 1], [set(mem2), 1], {}),
                      (list(mem), list(reversed(mem2)), {'ignore_order': True}), ([(v, 'x') for v in mem], [(v, 'x') for v in reversed(mem2)], {'ignore_order': True})]
            for x, y, extra in shapes:
                for kw in (dict(default_timezone=tz), dict(default_timezone=tz, truncate_datetime='minute')):
                    kw = dict(kw, **extra)
                    ctx.evaluations += 1
                    d, e = safe_diff(x, y, **kw)
                    case = {'clause': 'normaliser', 'option': 'naive datetime vs the same instant stamped, compared by digest ' + repr(sorted(kw)), 'x': repr(x), 'y': repr(y), 'zip': False, 'tz': repr(tz)}
                    ctx.count('normaliser:default_timezone_hashed')
                    if e is not None:
                        ctx.violate(case, 'DeepDiff raised %s' % type(e).__name__)
                    elif d:
                        ctx.violate(case, 'a naive datetime and the same wall time stamped with default_timezone are reported as different where items are compared by digest: %s' % str(d)[:150])
    # ---- (2) plain-empty => empty under options and pairs; (3) no option makes DeepDiff raise
    opt_names = list(OPTIONS)
    combos = [(a,) for a in opt_names] + list(itertools.combinations(opt_names, 2))
    g_pairs = max(40, n // 2)
    for i in range(g_pairs):
        a = gen_value(ctx, None)
        r = ctx.rng.random()
        if r < 0.4:
            b = copy.deepcopy(a)
        else:
            g = Gen(ctx.rng, scalars=STRS + NUMS + [None, True] + DT, keys=['a', 'b', 'Key', 1, 2, 1.5, None, '__p'], kinds=('dict', 'list', 'tuple'), max_depth=2, max_width=3)
            b = g.edits(a, ctx.rng.randint(1, 2))
        plain, e0 = safe_diff(a, b)
        if e0 is not None:
            ctx.count('plain_raises'); continue
        for combo in (combos if (ctx.thorough() or i % 5 == 0) else ctx.rng.sample(combos, 12)):
            kw = {}
            for nme in combo:
                kw.update(OPTIONS[nme])
            case = {'clause': 'monotone/total', 'options': list(combo), 'x': repr(a), 'y': repr(b), 'zip': False}
            ctx.evaluations += 1
            d, e = safe_diff(a, b, **kw)
            ctx.count('options:%d' % len(combo))
            if e is not None:
                ctx.violate(case, 'options %s make DeepDiff raise %s (%s) on inputs it accepts without them' % ('+'.join(combo), type(e).__name__, str(e)[:60]))
            elif not plain and d:
                ctx.violate(case, 'the plain diff is empty but the diff under %s is not: %s' % ('+'.join(combo), str(d)[:120]))
            if plain:
                ctx.nontriv(('pair', repr(a), repr(b), combo))
    # ---- re-inserted dictionaries: the same items in another insertion order (plain diff empty), with keys that collide under a key-cleaning option
    #      kept in their relative order (the swapped order is finding F50): every option and pair must leave the diff empty
    coll = [('Key', 'key'), ('A', 'a'), (b'a', 'a'), ('b', b'b'), (1.0000001, 1), ('Straße', 'STRASSE')]
    for i in range(g_pairs):
        k1, k2 = ctx.rng.choice(coll)
        filler = ctx.rng.sample(['p', 'q', 'r', 2, 3.5, None, (1, 2)], ctx.rng.randint(0, 4))
        vals = [0, 1, 'x', 'X', 2.5, None, [1, 'a'], {'z': 1}]
        items = [(k, ctx.rng.choice(vals)) for k in filler]
        pos = sorted(ctx.rng.sample(range(len(items) + 2), 2))
        items.insert(pos[0], (k1, ctx.rng.choice(vals))); items.insert(pos[1], (k2, ctx.rng.choice(vals)))
        a = dict(items)
        rest = [kv for kv in items if kv[0] not in (k1, k2)]
        ctx.rng.shuffle(rest)
        pos2 = sorted(ctx.rng.sample(range(len(rest) + 2), 2))
        rest.insert(pos2[0], (k1, a[k1])); rest.insert(pos2[1], (k2, a[k2]))
        b = copy.deepcopy(dict(rest))
        if ctx.rng.random() < 0.5:
            a, b = {'w': [a]}, {'w': [b]}
        plain, e0 = safe_diff(a, b)
        if e0 is not None or plain:
            ctx.count('reinserted_plain_nonempty'); continue
        for combo in (combos if ctx.thorough() else ctx.rng.sample(combos, 12)):
            kw = {}
            for nme in combo:
                kw.update(OPTIONS[nme])
            case = {'clause': 'monotone/total', 'options': list(combo), 'x': repr(a), 'y': repr(b), 'zip': False}
            ctx.evaluations += 1
            d, e = safe_diff(a, b, **kw)
            ctx.count('reinserted_colliding_keys')
            if e is not None:
                ctx.violate(case, 'options %s make DeepDiff raise %s (%s) on inputs it accepts without them' % ('+'.join(combo), type(e).__name__, str(e)[:60]))
            elif d:
                ctx.violate(case, 'the plain diff is empty but the diff under %s is not: %s' % ('+'.join(combo), str(d)[:120]))
    # ---- every kind of leaf at a dictionary value, a tuple item and a nested position, against a copy and against a numeric twin of another type,
    #      under each option and each pair of numeric options: nothing may raise that the plain diff accepts, a copy stays empty
    odd = ODD_NUMS + NANS + ODD_DATES + NONASCII + DT + [_decimal.Decimal('-Infinity'), _decimal.Decimal('0.001'), 10 ** 20, b'caf\xc3\xa9', Color.GREEN]
    twins = {_decimal.Decimal('2.50'): 2.5, _decimal.Decimal('0.001'): 0.001, 3 + 0j: 3, 2.5: _decimal.Decimal('2.5')}
    cases_ = []
    for x in odd:
        cases_.append((x, copy.deepcopy(x)))
        if x in twins:
            cases_ += [(x, twins[x]), (twins[x], x)]          # a twin pair in both orientations
    for (x, y) in cases_:
        a = {'k': x, 'l': (x, 1), 'm': {'n': [x]}}
        b = {'k': y, 'l': (y, 1), 'm': {'n': [y]}}
        plain, e0 = safe_diff(a, b)
        if e0 is not None:
            ctx.count('plain_raises'); continue
        for combo in [(o,) for o in opt_names] + [('math_epsilon', 'ignore_numeric_type_changes'), ('significant_digits', 'ignore_numeric_type_changes'),
                                                  ('math_epsilon', 'significant_digits'), ('truncate_datetime', 'default_timezone')]:
            kw = {}
            for nme in combo:
                kw.update(OPTIONS[nme])
            case = {'clause': 'monotone/total', 'options': list(combo), 'x': repr(a), 'y': repr(b), 'zip': False}
            ctx.evaluations += 1
            d, e = safe_diff(a, b, **kw)
            ctx.count('odd_leaf_cases')
            if e is not None:
                ctx.violate(case, 'options %s make DeepDiff raise %s (%s) on inputs it accepts without them' % ('+'.join(combo), type(e).__name__, str(e)[:60]))
            elif not plain and d:
                ctx.violate(case, 'the plain diff is empty but the diff under %s is not: %s' % ('+'.join(combo), str(d)[:120]))
    # ---- two NaN objects at one position: ignore_nan_inequality makes them equal, and no second option takes that back
    for wrap_ in (lambda v: v, lambda v: [1, v], lambda v: {'k': v, 'z': 1}, lambda v: (v, 'x'), lambda v: {'a': {'b': [v, [0]]}}):
        a, b = wrap_(float('nan')), wrap_(float('nan'))
        for other in opt_names:
            if other == 'ignore_nan_inequality':
                continue
            kw = dict(OPTIONS['ignore_nan_inequality']); kw.update(OPTIONS[other])
            case = {'clause': 'monotone/total', 'options': ['ignore_nan_inequality', other], 'x': repr(a), 'y': repr(b), 'zip': False}
            ctx.evaluations += 1
            d, e = safe_diff(a, b, **kw)
            ctx.count('nan_pairs')
            if e is not None:
                ctx.violate(case, 'options ignore_nan_inequality+%s make DeepDiff raise %s' % (other, type(e).__name__))
            elif d:
                ctx.violate(case, 'two NaN are equal under ignore_nan_inequality, but not together with %s: %s' % (other, str(d)[:120]))
    # ---- correspondence with the option-aware Lean model (values of the PyVal universe)
    if not impl_only:
        model_correspondence(ctx)
    # ---- clauses (2) and (3) over hostile keys, edge-case leaves and shared sub-objects (implementation only), ordered and order-ignoring
    from . import _difffam as FAM
    extra = dict(OPTIONS)
    extra.update({'significant_digits_0': dict(significant_digits=0), 'truncate_day': dict(truncate_datetime='day'), 'exclude_float': dict(exclude_types=[float]),
                  'ignore_nan_inequality': dict(ignore_nan_inequality=True), 'keep_private': dict(ignore_private_variables=False)})
    names_x = sorted(extra)
    for (t1, t2) in FAM.hostile_pairs(ctx, 120 if ctx.thorough() else 24):
        for (a, b) in ((t1, t2), (t1, copy.deepcopy(t1))):
            for io in (False, True):
                base_kw = dict(ignore_order=True) if io else {}
                plain, e0 = safe_diff(a, b, **base_kw)
                if e0 is not None:
                    ctx.count('hostile_plain_raised:' + type(e0).__name__); continue
                for nm in ctx.rng.sample(names_x, 5):
                    kw = dict(extra[nm], **base_kw)
                    ctx.evaluations += 1
                    d, e = safe_diff(a, b, **kw)
                    case = {'clause': 'plain-empty / totality (hostile values)', 'option': nm + (' + ignore_order' if io else ''), 'x': repr(a), 'y': repr(b), 'zip': False}
                    ctx.count('hostile_options')
                    if e is not None:
                        ctx.violate(case, 'DeepDiff raises %s under %s on inputs it accepts without it: %s' % (type(e).__name__, nm, str(e)[:100]))
                    elif not plain and d:
                        ctx.violate(case, 'the plain diff is empty, under %s it is not: %s' % (nm, str(d)[:150]))
                    elif plain:
                        ctx.nontriv((repr(a), repr(b), nm, io, 'hostile'))
    # ---- boundary witnesses
    import datetime as _dt
    regress = [
        ('F9', lambda: DeepDiff({1: 5}, {1: 5}, ignore_string_case=True) == {} and DeepDiff({1.5: 'a', 'K': 1}, {1.5: 'A', 'k': 1}, ignore_string_case=True) == {}
            and DeepDiff({2: b'x'}, {2: 'x'}, ignore_string_type_changes=True) == {}),
        ('F26', lambda: 'type_changes' in DeepDiff([1], [_dt.datetime(2024, 5, 1)], ignore_numeric_type_changes=True, math_epsilon=0.01)
            and 'type_changes' in DeepDiff([_dt.datetime(2024, 5, 1)], [1], ignore_numeric_type_changes=True, truncate_datetime='minute')
            and DeepDiff({_dt.datetime(2024, 5, 1): 1}, {_dt.datetime(2024, 5, 1): 1}, ignore_numeric_type_changes=True) == {}),
    ]
    def _f72():
        import enum as _en
        class _C(_en.Enum):
            RED = 1
            GREEN = 2
        return (bool(DeepDiff([_C.RED, _C.GREEN], [2, 3], ignore_order=True, use_enum_value=True)) and DeepDiff([_C.RED, _C.GREEN], [2, 1], ignore_order=True, use_enum_value=True) == {}
                and 0 <= DeepDiff([[_C.RED, 5], [_C.GREEN]], [[2], [1, 6]], ignore_order=True, use_enum_value=True, get_deep_distance=True).get('deep_distance', 0) <= 1)
    regress.append(('F72', _f72))
    regress.append(('F69', lambda: 'values_changed' in DeepDiff({b'\xff': 1}, {b'\xff': 2}, ignore_string_type_changes=True) and DeepDiff({b'\xfe\x00': [1]}, {b'\xfe\x00': [1]}, ignore_string_type_changes=True, ignore_string_case=True) == {}))
    regress.append(('F27', lambda: DeepDiff([1.5, 'a'], ['a', b'a'], exclude_types=[float], ignore_string_type_changes=True) == {}
                    and DeepDiff((10.0, 10), (31.25, 10), exclude_types=[float]) == {}))
    class _K(enum.Enum):
        RED = 1; GREEN = 'green'
    import decimal as _dc
    def _total(f):
        try:
            f(); return True
        except Exception:
            return False
    regress += [
        ('F31', lambda: _total(lambda: DeepDiff([_dt.date(2020, 1, 1)], [_dt.date(2020, 1, 2)], truncate_datetime='minute'))
            and _total(lambda: DeepDiff([_dt.timedelta(1)], [_dt.timedelta(2)], truncate_datetime='day'))
            and DeepDiff([_dt.date(2020, 1, 1), _dt.timedelta(1)], [_dt.date(2020, 1, 1), _dt.timedelta(1)], truncate_datetime='hour') == {}),
        ('F32', lambda: 'values_changed' in DeepDiff([1 - 2j], [1 - 3j], significant_digits=2) and DeepDiff([1 - 2j], [1 - 2.00001j], significant_digits=2) == {}),
        ('F33', lambda: 'values_changed' in DeepDiff([float('nan')], [1.0], significant_digits=0) and 'values_changed' in DeepDiff([float('inf')], [1.0], significant_digits=0)
            and DeepDiff([float('-inf'), 2.4], [float('-inf'), 2.1], significant_digits=0) == {}),
        ('F34', lambda: 'values_changed' in DeepDiff([_dc.Decimal('Infinity')], [_dc.Decimal(1)], significant_digits=2)
            and DeepDiff([_dc.Decimal('-Infinity')], [_dc.Decimal('-Infinity')], significant_digits=0) == {}),
        ('F35', lambda: DeepDiff(['é', {'日本': 1}], ['é'.encode(), {'日本'.encode(): 1}], ignore_string_type_changes=True) == {}
            and 'values_changed' in DeepDiff(['é'], ['è'.encode()], ignore_string_type_changes=True)),
        ('F36', lambda: DeepDiff({_K.GREEN: 1, 'b': [_K.RED]}, {'green': 1, 'b': [1]}, use_enum_value=True) == {}
            and DeepDiff({_K.RED: 'x'}, {1: 'x'}, use_enum_value=True, significant_digits=3) == {}
            and DeepDiff({_K.RED: 'x'}, {1.0: 'x'}, use_enum_value=True, ignore_numeric_type_changes=True) == {}
            and DeepDiff({_K.GREEN: 'x'}, {'GREEN': 'x'}, use_enum_value=True, ignore_string_case=True) == {}),
        ('F37', lambda: DeepDiff(['Ünï'], ['Ünï'.encode()], ignore_string_type_changes=True, ignore_string_case=True) == {}
            and DeepDiff(['Ünï'.encode()], ['üNÏ'.encode()], ignore_string_case=True) == {}),
        ('F38', lambda: 'values_changed' in DeepDiff([1 - 2j], [1 - 3j], math_epsilon=0.01) and DeepDiff([1 - 2j], [1 - 2.001j], math_epsilon=0.01) == {}
            and 'values_changed' in DeepDiff([1 - 2j], [100], math_epsilon=0.01, ignore_numeric_type_changes=True)),
    ]
    for fid, fn in regress:
        ctx.evaluations += 1
        try:
            ok = fn()
        except Exception as e:
            ok = False
        if not ok:
            ctx.violate({'witness': fid}, 'the repaired case %s fails again' % fid)
    open_witnesses(ctx, findings)


def open_witnesses(ctx, findings):
    from deepdiff import DeepDiff
    import enum as _enum
    class _E(_enum.Enum):
        A = 1
    wit = {'F40': lambda: DeepDiff([{1.0, 5}], [{1.0000001, 5}], math_epsilon=0.01) == {},
           'F70': lambda: bool(DeepDiff([10 ** 400], [10 ** 400 + 1], significant_digits=3) is not None) and bool(DeepDiff([10 ** 400], [10 ** 400 + 1], ignore_numeric_type_changes=True) is not None),
           'F71': lambda: bool(DeepDiff(['a'], [_E.A], use_enum_value=True, ignore_string_case=True) is not None) and bool(DeepDiff([_E.A], ['a'], use_enum_value=True, math_epsilon=0.1) is not None),
           'F50': lambda: (DeepDiff({'A': 1, 'a': 2}, {'a': 2, 'A': 1}) == {} and DeepDiff({'A': 1, 'a': 2}, {'a': 2, 'A': 1}, ignore_string_case=True) == {}
                           and DeepDiff({b'x': 1, 'x': 2}, {'x': 2, b'x': 1}, ignore_string_type_changes=True) == {})}
    for fid, fn in wit.items():
        ctx.evaluations += 1
        try:
            ok = fn()
        except Exception:
            ok = False
        if fid in findings:
            (ctx.known_not_reproduced if ok else ctx.known_reproduced).append(fid if ok else '%s: %s' % (fid, findings[fid]['what_fails']))
        elif not ok:
            ctx.violate({'witness': fid}, 'boundary witness %s fails and is not a listed finding' % fid)


TYPE_NAMES = {str: 'str', int: 'int', float: 'float', bool: 'bool', list: 'list', tuple: 'tuple', dict: 'dict', type(None): 'NoneType', bytes: 'bytes', set: 'set'}


def floats_of(v):
    if type(v) is float:
        yield v
    elif isinstance(v, dict):
        for k, x in v.items():
            yield from floats_of(k); yield from floats_of(x)
    elif isinstance(v, (list, tuple, set, frozenset)):
        for x in v:
            yield from floats_of(x)


def no_inexact_tie(v, digits):
    """number_to_string rounds the binary value; the model rounds the short decimal: they agree unless the decimal is a tie that the binary value is not"""
    for x in floats_of(v):
        d = decimal.Decimal(repr(x))
        q = d.quantize(decimal.Decimal(1).scaleb(-digits), rounding=decimal.ROUND_DOWN)
        rest = abs(d - q)
        if rest * 2 == decimal.Decimal(1).scaleb(-digits) and decimal.Decimal(x) != d:
            return False
    return True


def diffo_line(t1, t2, zip_, thr, vb, case, strtype, numtype, sig, eps, ex_types):
    n, d = DF.thr_frac(thr)
    f = lambda b: 'T' if b else 'F'
    if eps is None:
        e = '-'
    else:
        de = decimal.Decimal(str(eps)); sgn, digs, ex = de.as_tuple()
        e = '%d/%d' % (int(''.join(map(str, digs))) * (10 ** ex if ex > 0 else 1), -ex if ex < 0 else 0)
    return 'DIFFO %s %d %d T %d %s %s %s %s %s T %d %s %s %s' % (
        f(zip_), n, d, vb, f(case), f(strtype), f(numtype), '-' if sig is None else str(sig), e,
        len(ex_types), ' '.join(enc_str(TYPE_NAMES[t]) for t in ex_types), ' '.join(val_tokens(t1)), ' '.join(val_tokens(t2)))


def collapsing_set(v, hkw):
    """a set two of whose members get one digest under the options (1.5 and 2.25 at significant_digits=0): the implementation keeps one item per digest, which one
    depends on the iteration order of the set -- outside the model universe (the region of finding F29)"""
    from deepdiff import DeepHash
    if isinstance(v, (set, frozenset)):
        hs = []
        for m in v:
            try:
                h_ = DeepHash(m, **hkw)[m]
            except Exception:
                continue                  # a member of an excluded type has no digest: it is left out, it cannot collapse with another
            if isinstance(h_, str):
                hs.append(h_)
        return len(set(hs)) < len(hs)
    if isinstance(v, dict):
        return any(collapsing_set(x, hkw) for x in v.values())
    if isinstance(v, (list, tuple)):
        return any(collapsing_set(x, hkw) for x in v)
    return False


def model_correspondence(ctx):
    from deepdiff import DeepDiff
    n = 700 if ctx.thorough() else 100
    keys = ['a', 'b', 'Key', 'KEY', 'x y', 'ab', 1, 2, 10, 1.5, None, True]
    pairs = FAM.gen_pairs(ctx, n, keys=keys, multiline=False, bytes_=True, flat_share=0.25, equal_share=0.05)
    # pairs that differ only in what some option ignores
    g = Gen(ctx.rng, scalars=STRS + NUMS + [None, True, False, b'a', b'Hello', 1.004, 2.2549, 0.125], keys=keys, kinds=('dict', 'list', 'tuple', 'set'), max_depth=3, max_width=4, p_leaf=0.4)
    for _ in range(n):
        x = g.container()
        name = ctx.rng.choice(['ignore_string_case', 'ignore_string_type_changes', 'ignore_numeric_type_changes', 'significant_digits', 'math_epsilon', 'exclude_types'])
        fn, keys_too = NORMALISERS[name]
        y = apply_normaliser(ctx.rng, x, fn, keys_too and name != 'ignore_string_type_changes', p=0.6)
        if ctx.rng.random() < 0.3:
            y = g.edit(y)
        pairs.append((x, y))
    lines, metas = [], []
    # fixed requests: a set member of an excluded type next to a member the other options would identify with it (false alarm 21): (case, strtype, numtype, sig, eps, ex_types)
    forced = {}
    for (t1_, t2_, opt_) in [([{1.5, 2, 'a'}, 0], [{2, 'a'}, 0], (False, False, True, 0, None, [int])), ({'s': {1.5, True, 'a'}}, {'s': {'a'}}, (False, False, False, None, None, [int])),
                             ([{'a', b'x'}], [{'a', 'x'}], (False, True, False, None, None, [bytes])), ({'k': frozenset({2.0, 2, 'q'})}, {'k': frozenset({2, 'q'})}, (False, False, True, 2, None, [float])),
                             ([{1, 'A', 'b'}], [{'a', 'b'}], (True, False, False, None, None, [int]))]:
        pairs.append((t1_, t2_)); forced[len(pairs) - 1] = opt_
    for pi_, (t1, t2) in enumerate(pairs):
        if not (DF.keys_modelled(t1) and DF.keys_modelled(t2) and DF.set_items_modelled(t1) and DF.set_items_modelled(t2) and HS.no_spoof(t1, t2)):
            ctx.count('corr_out_of_universe'); continue
        for rep_ in range(3):
            r = ctx.rng
            case, strtype, numtype = r.random() < 0.4, r.random() < 0.4, r.random() < 0.4
            sig = r.choice([None, None, 0, 1, 2, 3, 5])
            eps = r.choice([None, None, None, 0.01, 0.5])
            ex_types = r.choice([[], [], [], [float], [str], [int], [list], [bool], [type(None)]])
            zip_, thr, vb = r.random() < 0.4, r.choice([0, 0.33, 0.9]), r.choice([1, 2])
            if pi_ in forced:
                case, strtype, numtype, sig, eps, ex_types = forced[pi_]
            eff_sig = sig if sig is not None else (12 if numtype else None)
            if eff_sig is not None and not (no_inexact_tie(t1, eff_sig) and no_inexact_tie(t2, eff_sig)):
                ctx.count('corr_out_of_universe:inexact_tie'); continue
            kw = dict(zip_ordered_iterables=zip_, threshold_to_diff_deeper=thr, verbose_level=vb, ignore_string_case=case, ignore_string_type_changes=strtype,
                      ignore_numeric_type_changes=numtype)
            if sig is not None: kw['significant_digits'] = sig
            if eps is not None: kw['math_epsilon'] = eps
            if ex_types: kw['exclude_types'] = ex_types
            case_d = {'clause': 'model', 'x': repr(t1), 'y': repr(t2), 'zip': zip_, 'kw': {k: (v if not isinstance(v, list) else [t.__name__ for t in v]) for k, v in kw.items()}}
            ctx.evaluations += 1
            hkw_ = {k: v for k, v in kw.items() if k in ('ignore_string_case', 'ignore_string_type_changes', 'ignore_numeric_type_changes', 'significant_digits', 'exclude_types')}
            if collapsing_set(t1, hkw_) or collapsing_set(t2, hkw_):
                ctx.count('corr_out_of_universe:collapsing_set'); continue
            try:
                dd = DeepDiff(t1, t2, **kw)
                a = DF.impl_answer(dd, vb)
            except OutOfUniverse as e:
                try:
                    diffo_line(t1, t2, zip_, thr, vb, case, strtype, numtype, sig, eps, ex_types)
                    if ctx.build_ok:        # the inputs are inside the universe, a reported value is not: no model answer equals it
                        ctx.diverge(case_d, 'a reported value outside the universe of the inputs: %s' % str(e)[:120], '(every value of a model result is a part of an input)', op='DIFFO')
                except (OutOfUniverse, KeyError):
                    ctx.count('corr_out_of_universe')
                continue
            except DF.BadDiffText as e:
                ctx.count('corr_out_of_universe:text'); continue
            except Exception as e:
                a = 'RAISED ' + type(e).__name__
                ctx.violate(case_d, 'DeepDiff raised %s: %s' % (type(e).__name__, str(e)[:80])); continue
            try:
                lines.append(diffo_line(t1, t2, zip_, thr, vb, case, strtype, numtype, sig, eps, ex_types)); metas.append((case_d, a))
            except (OutOfUniverse, KeyError):
                ctx.count('corr_out_of_universe')
    if ctx.build_ok and lines:
        ans = core.run_model(lines)
        for (case_d, a), m in zip(metas, ans):
            ctx.traces += 1
            if a != m:
                sa, sm = set(a.split(' ')), set(m.split(' '))
                ctx.diverge(case_d, 'only-impl: ' + ' '.join(sorted(sa - sm))[:400], 'only-model: ' + ' '.join(sorted(sm - sa))[:400], op='DIFFO')


def search(ctx):
    c2 = core.Ctx(ctx.pid, 'thorough', ctx.seed + 1)
    c2.build_ok = False
    run(c2, impl_only=True)
    return c2.violations


def replay(ctx, payload):
    from deepdiff import DeepDiff
    env = {'datetime': datetime, 'Color': Color, 'nan': float('nan'), '__builtins__': {}}
    ok = True
    for c in payload.get('cases', []):
        case = c['case']
        if 'x' not in case:
            print('  ', case, c.get('why')); ok = False; continue
        try:
            x = eval(case['x'].replace('<Color.RED: 1>', 'Color.RED').replace("<Color.GREEN: 'green'>", 'Color.GREEN'), env)
            y = eval(case['y'].replace('<Color.RED: 1>', 'Color.RED').replace("<Color.GREEN: 'green'>", 'Color.GREEN'), env)
        except Exception as e:
            print('  cannot rebuild the inputs of', case, e); ok = False; continue
        names = [case['option']] if 'option' in case else case['options']
        kw = {}
        for nme in names:
            kw.update(OPTIONS.get(nme, {}))
        d, e = safe_diff(x, y, zip_ordered_iterables=case.get('zip', False), **kw)
        good = e is None and (not d or case['clause'] != 'normaliser')
        print('  ', case, '->', d if e is None else 'raised %r' % e, 'holds' if good else 'FAILS')
        ok = ok and good
    return ok
