"""Pickle glue shared by C14/C15: genops -> canonical model ops, symbolic rendering of real objects,
an assembler for crafted programs, instrumentation of the real restricted unpickler."""
import sys, io, pickle, pickletools, struct, types, copyreg, re
from . import core


def enc_str(s):
    if s == '':
        return '_'
    return '.'.join(str(ord(c)) for c in s)


def enc_bytes(b):
    return enc_str(bytes(b).decode('latin-1'))


INT_OPS = {'INT', 'BININT', 'BININT1', 'BININT2', 'LONG', 'LONG1', 'LONG4'}
STR_OPS = {'UNICODE', 'BINUNICODE', 'SHORT_BINUNICODE', 'BINUNICODE8', 'STRING', 'BINSTRING', 'SHORT_BINSTRING'}
BYTES_OPS = {'BINBYTES', 'SHORT_BINBYTES', 'BINBYTES8'}
SIMPLE = {'STOP': 'stop', 'NONE': 'none', 'NEWTRUE': 'newtrue', 'NEWFALSE': 'newfalse', 'EMPTY_LIST': 'emptylist',
          'EMPTY_TUPLE': 'emptytuple', 'EMPTY_DICT': 'emptydict', 'EMPTY_SET': 'emptyset', 'MARK': 'mark', 'POP': 'pop',
          'POP_MARK': 'popmark', 'DUP': 'dup', 'APPEND': 'append', 'APPENDS': 'appends', 'SETITEM': 'setitem',
          'SETITEMS': 'setitems', 'ADDITEMS': 'additems', 'LIST': 'list', 'TUPLE': 'tuple', 'TUPLE1': 'tuple1',
          'TUPLE2': 'tuple2', 'TUPLE3': 'tuple3', 'DICT': 'dict', 'FROZENSET': 'frozenset', 'MEMOIZE': 'memoize',
          'STACK_GLOBAL': 'stackglobal', 'OBJ': 'obj', 'NEWOBJ': 'newobj', 'NEWOBJ_EX': 'newobjex', 'REDUCE': 'reduce',
          'BUILD': 'build', 'BINPERSID': 'binpersid', 'FRAME': 'frame'}


def ops_from_bytes(b):
    """pickle bytes -> canonical model op tokens (raises ValueError if pickletools cannot parse)."""
    toks = []
    for op, arg, pos in pickletools.genops(b):
        n = op.name
        if n in SIMPLE:
            toks.append(SIMPLE[n])
        elif n == 'PROTO':
            toks.append('proto=%d' % arg)
        elif n in INT_OPS:
            if arg is True:
                toks.append('newtrue')
            elif arg is False:
                toks.append('newfalse')
            else:
                toks.append('int=%d' % arg)
        elif n in ('FLOAT', 'BINFLOAT'):
            toks.append('float=' + enc_str(repr(arg)))
        elif n in STR_OPS:
            toks.append('str=' + enc_str(arg if isinstance(arg, str) else arg.decode('latin-1')))
        elif n in BYTES_OPS:
            toks.append('bytes=' + enc_bytes(arg))
        elif n == 'BYTEARRAY8':
            toks.append('bytearray=' + enc_bytes(arg))
        elif n in ('PUT', 'BINPUT', 'LONG_BINPUT'):
            toks.append('put=%d' % arg)
        elif n in ('GET', 'BINGET', 'LONG_BINGET'):
            toks.append('get=%d' % arg)
        elif n in ('GLOBAL', 'INST'):
            m, _, nm = arg.partition(' ')
            toks.append(('global=' if n == 'GLOBAL' else 'inst=') + enc_str(m) + ',' + enc_str(nm))
        elif n in ('EXT1', 'EXT2', 'EXT4'):
            toks.append('ext=%d' % arg)
        elif n == 'PERSID':
            toks.append('persid=' + enc_str(arg))
        else:
            toks.append('unsupported=' + n)
    return toks


MUTABLE_MAKERS = {'emptylist', 'emptydict', 'emptyset', 'list', 'dict', 'reduce', 'newobj', 'newobjex', 'build', 'inst', 'obj',
                  'append', 'appends', 'setitem', 'setitems', 'additems'}


def aliases_mutable(tokens):
    """True when the program fetches from the memo an object that was memoised as a mutable
    container / constructed object (the value model does not follow such sharing)."""
    memo, n, prev = {}, 0, None
    for t in tokens:
        name = t.split('=')[0]
        if name == 'memoize':
            memo[n] = prev in MUTABLE_MAKERS or prev == 'bytearray'
            n += 1
            continue
        if name == 'put':
            memo[int(t.split('=')[1])] = prev in MUTABLE_MAKERS or prev == 'bytearray'
            continue
        if name == 'get' and memo.get(int(t.split('=')[1])):
            return True
        prev = name
    return False


def clear_extension_cache():
    copyreg._extension_cache.clear()


_BUILTIN_ALLOW = None


def builtin_allow():
    """The built-in allow-list as written in the source (ast literal), not the live module-level
    set: a load that mutates the live set must not move the reference."""
    global _BUILTIN_ALLOW
    if _BUILTIN_ALLOW is None:
        import ast, os
        t = ast.parse(open(os.path.join(core.REPO, 'deepdiff', 'serialization.py'), encoding='utf-8').read())
        for node in t.body:
            if isinstance(node, ast.Assign) and any(isinstance(x, ast.Name) and x.id == 'SAFE_TO_IMPORT' for x in node.targets):
                _BUILTIN_ALLOW = frozenset(ast.literal_eval(node.value))
        if _BUILTIN_ALLOW is None:
            raise core.ToolFailure('SAFE_TO_IMPORT literal not found')
    return _BUILTIN_ALLOW


def allow_list(extra=()):
    return set(builtin_allow()) | set(extra)


def resolve_flag(m, n):
    if m not in sys.modules:
        return 'nomod'
    try:
        getattr(sys.modules[m], n)
        return 'ok'
    except AttributeError:
        return 'noattr'


def env_table(extra=()):
    """every way of splitting an allowed dotted string into (module, name), with the outcome of
    sys.modules[module] / getattr"""
    rows = []
    for a in sorted(allow_list(extra)):
        idx = [i for i, c in enumerate(a) if c == '.']
        for i in idx:
            m, n = a[:i], a[i + 1:]
            rows.append((m, n, resolve_flag(m, n)))
    return rows


def pkl_line(tokens, safe=(), ext=()):
    env = env_table(safe)
    parts = ['PKL', 'S', str(len(safe))] + [enc_str(s) for s in safe]
    parts += ['X', str(len(ext))]
    for code, m, n in ext:
        parts += [str(code), enc_str(m), enc_str(n)]
    parts += ['E', str(len(env))]
    for m, n, f in env:
        parts += [enc_str(m), enc_str(n), f]
    parts += ['P'] + list(tokens)
    return ' '.join(parts)


# ---------------------------------------------------------------- symbolic rendering of real objects

def render_float(x):
    return 'f' + enc_str(repr(x))


def symb(obj, proto=4):
    """What the pickler emits for `obj`, as the model's rendering: plain data structurally, anything
    else through __reduce_ex__ (call / newobj / built / extended)."""
    t = type(obj)
    if obj is None:
        return 'N'
    if t is bool:
        return 'T' if obj else 'F'
    if t is int:
        return 'i%d' % obj
    if t is float:
        return render_float(obj)
    if t is str:
        return 's' + enc_str(obj)
    if t is bytes:
        return 'b' + enc_bytes(obj)
    if t is bytearray:
        return 'y' + enc_bytes(obj)
    if t is list:
        return 'L(' + ','.join(symb(x, proto) for x in obj) + ')'
    if t is tuple:
        return 'U(' + ','.join(symb(x, proto) for x in obj) + ')'
    if t is dict:
        return 'D(' + ','.join(symb(k, proto) + ':' + symb(v, proto) for k, v in obj.items()) + ')'
    if t is set:
        return 'S(' + ','.join(sorted(symb(x, proto) for x in obj)) + ')'
    if t is frozenset:
        return 'Z(' + ','.join(sorted(symb(x, proto) for x in obj)) + ')'
    if obj is type(None):
        return 'NT'
    if isinstance(obj, type) or isinstance(obj, (types.FunctionType, types.BuiltinFunctionType)):
        return 'G' + enc_str(obj.__module__) + '/' + enc_str(obj.__qualname__)
    rv = copyreg.dispatch_table.get(t)
    rv = rv(obj) if rv else obj.__reduce_ex__(proto)
    if isinstance(rv, str):
        return 'G' + enc_str(obj.__module__) + '/' + enc_str(rv)
    func, args = rv[0], rv[1]
    state = rv[2] if len(rv) > 2 else None
    listitems = rv[3] if len(rv) > 3 else None
    dictitems = rv[4] if len(rv) > 4 else None
    fname = getattr(func, '__name__', '')
    if fname == '__newobj__':
        r = 'O(' + symb(args[0], proto) + ';' + symb(tuple(args[1:]), proto) + ')'
    elif fname == '__newobj_ex__':
        r = 'OX(' + symb(args[0], proto) + ';' + symb(tuple(args[1]), proto) + ';' + symb(dict(args[2]), proto) + ')'
    else:
        r = 'C(' + symb(func, proto) + ';' + symb(tuple(args), proto) + ')'
    if listitems is not None:
        items = list(listitems)
        if items:
            r = 'E(' + r + ';' + ','.join(symb(x, proto) for x in items) + ')'
    if dictitems is not None:
        items = list(dictitems)
        if items:
            flat = []
            for k, v in items:
                flat += [symb(k, proto), symb(v, proto)]
            r = 'E(' + r + ';' + ','.join(flat) + ')'
    if state is not None:
        r = 'B(' + r + ';' + symb(state, proto) + ')'
    return r


# ---------------------------------------------------------------- instrumented real load

class Trace:
    def __init__(self):
        self.resolved = []
        self.requested = []


def real_load(content, safe_to_import=None):
    """Run deepdiff.serialization.pickle_load on `content` with find_class wrapped (call-through) so
    that every resolution request and every successful resolution is recorded.
    Returns (outcome string, object or None, Trace)."""
    from deepdiff import serialization as S
    tr = Trace()
    orig = S._RestrictedUnpickler.find_class

    def wrapped(self, module, name):
        tr.requested.append((module, name))
        r = orig(self, module, name)
        tr.resolved.append((module, name))
        return r
    S._RestrictedUnpickler.find_class = wrapped
    clear_extension_cache()
    try:
        try:
            obj = S.pickle_load(content, safe_to_import=safe_to_import)
            return 'ok', obj, tr
        except S.ForbiddenModule as e:
            m = re.match(r"Module '(.*)' is forbidden", str(e), re.S)
            return 'forbidden ' + enc_str(m.group(1) if m else '?'), None, tr
        except (ModuleNotFoundError, getattr(S, 'ModuleNotFoundError', ModuleNotFoundError)) as e:
            m = re.match(r"DeepDiff Delta did not find (.*) in your modules", str(e), re.S)
            return 'modnotfound ' + enc_str(m.group(1) if m else '?'), None, tr
        except AttributeError as e:
            if tr.requested and (not tr.resolved or len(tr.requested) > len(tr.resolved)):
                mn = tr.requested[-1]
                return 'attrerror ' + enc_str(mn[0] + '.' + mn[1]), None, tr
            return 'vmerror', None, tr
        except Exception as e:   # noqa
            return 'vmerror', None, tr
    finally:
        S._RestrictedUnpickler.find_class = orig


def ev_resolved(tr):
    return '|'.join('r:' + enc_str(m + '.' + n) for m, n in tr.resolved)


def model_resolved(answer):
    """extract the r: events (in order) from a model answer"""
    if ' ev=' not in answer:
        return ''
    evs = answer.split(' ev=', 1)[1]
    out, depth, cur = [], 0, ''
    # events are separated by '|' at depth 0 of parentheses
    for ch in evs:
        if ch == '(':
            depth += 1
        elif ch == ')':
            depth -= 1
        if ch == '|' and depth == 0:
            out.append(cur); cur = ''
        else:
            cur += ch
    if cur:
        out.append(cur)
    return '|'.join(e for e in out if e.startswith('r:'))


def model_outcome(answer):
    return answer.split(' ev=', 1)[0]


# ---------------------------------------------------------------- assembler for crafted programs

class Asm:
    """Builds pickle bytes for a chosen protocol from an expression tree."""

    def __init__(self, proto, rng):
        self.p, self.rng, self.out = proto, rng, io.BytesIO()
        self.memo_n = 0

    def w(self, b):
        self.out.write(b)

    def maybe_memo(self):
        if self.rng.random() < 0.3:
            if self.p >= 4 and self.rng.random() < 0.7:
                self.w(pickle.MEMOIZE)
            else:
                self.w(pickle.BINPUT + bytes([self.memo_n % 256])) if self.p >= 1 else self.w(pickle.PUT + b'%d\n' % self.memo_n)
            self.memo_n += 1

    def int_(self, i):
        if self.p == 0:
            self.w(pickle.INT + b'%d\n' % i)
        elif 0 <= i < 256:
            self.w(pickle.BININT1 + bytes([i]))
        elif 0 <= i < 65536:
            self.w(pickle.BININT2 + struct.pack('<H', i))
        elif -2**31 <= i < 2**31:
            self.w(pickle.BININT + struct.pack('<i', i))
        else:
            self.w(pickle.LONG + b'%dL\n' % i)

    def str_(self, s):
        b = s.encode('utf-8', 'surrogatepass')
        if self.p == 0:
            self.w(pickle.UNICODE + s.encode('raw-unicode-escape').replace(b'\\', b'\\u005c').replace(b'\n', b'\\u000a') + b'\n')
        elif self.p >= 4 and len(b) < 256 and self.rng.random() < 0.7:
            self.w(pickle.SHORT_BINUNICODE + bytes([len(b)]) + b)
        else:
            self.w(pickle.BINUNICODE + struct.pack('<I', len(b)) + b)

    def global_(self, m, n, form):
        if form == 'stack' and self.p >= 4:
            self.str_(m); self.maybe_memo(); self.str_(n); self.w(pickle.STACK_GLOBAL)
        else:
            self.w(pickle.GLOBAL + m.encode('utf-8') + b'\n' + n.encode('utf-8') + b'\n')

    def emit(self, e):
        k = e[0]
        if k == 'none':
            self.w(pickle.NONE)
        elif k == 'bool':
            if self.p >= 2:
                self.w(pickle.NEWTRUE if e[1] else pickle.NEWFALSE)
            else:
                self.w(pickle.INT + (b'01\n' if e[1] else b'00\n'))
        elif k == 'int':
            self.int_(e[1])
        elif k == 'str':
            self.str_(e[1]); self.maybe_memo()
        elif k == 'list':
            if self.p >= 1 and self.rng.random() < 0.7:
                self.w(pickle.EMPTY_LIST); self.maybe_memo()
                if len(e[1]) == 1:
                    self.emit(e[1][0]); self.w(pickle.APPEND)
                elif e[1]:
                    self.w(pickle.MARK); [self.emit(x) for x in e[1]]; self.w(pickle.APPENDS)
            else:
                self.w(pickle.MARK); [self.emit(x) for x in e[1]]; self.w(pickle.LIST)
        elif k == 'tuple':
            n = len(e[1])
            if n == 0 and self.p >= 1:
                self.w(pickle.EMPTY_TUPLE)
            elif 1 <= n <= 3 and self.p >= 2 and self.rng.random() < 0.7:
                [self.emit(x) for x in e[1]]; self.w([pickle.TUPLE1, pickle.TUPLE2, pickle.TUPLE3][n - 1])
            else:
                self.w(pickle.MARK); [self.emit(x) for x in e[1]]; self.w(pickle.TUPLE)
            self.maybe_memo()
        elif k == 'dict':
            if self.p >= 1 and self.rng.random() < 0.7:
                self.w(pickle.EMPTY_DICT)
                if len(e[1]) == 1:
                    self.emit(e[1][0][0]); self.emit(e[1][0][1]); self.w(pickle.SETITEM)
                elif e[1]:
                    self.w(pickle.MARK)
                    for a, b in e[1]:
                        self.emit(a); self.emit(b)
                    self.w(pickle.SETITEMS)
            else:
                self.w(pickle.MARK)
                for a, b in e[1]:
                    self.emit(a); self.emit(b)
                self.w(pickle.DICT)
        elif k == 'set':
            if self.p >= 4:
                self.w(pickle.EMPTY_SET)
                if e[1]:
                    self.w(pickle.MARK); [self.emit(x) for x in e[1]]; self.w(pickle.ADDITEMS)
            else:   # older protocols: set(list)
                self.emit(('reduce', ('global', 'builtins', 'set', 'global'), ('tuple', [('list', e[1])])))
        elif k == 'frozenset' and self.p >= 4:
            self.w(pickle.MARK); [self.emit(x) for x in e[1]]; self.w(pickle.FROZENSET)
        elif k == 'global':
            self.global_(e[1], e[2], e[3]); self.maybe_memo()
        elif k == 'ext':
            code = e[1]
            if code < 256:
                self.w(pickle.EXT1 + bytes([code]))
            elif code < 65536:
                self.w(pickle.EXT2 + struct.pack('<H', code))
            else:
                self.w(pickle.EXT4 + struct.pack('<i', code))
        elif k == 'reduce':
            self.emit(e[1]); self.emit(e[2]); self.w(pickle.REDUCE)
        elif k == 'newobj':
            self.emit(e[1]); self.emit(e[2]); self.w(pickle.NEWOBJ)
        elif k == 'inst':    # INST module name args
            self.w(pickle.MARK); [self.emit(x) for x in e[3]]
            self.w(pickle.INST + e[1].encode() + b'\n' + e[2].encode() + b'\n')
        elif k == 'obj':     # MARK cls args OBJ
            self.w(pickle.MARK); self.emit(e[1]); [self.emit(x) for x in e[2]]; self.w(pickle.OBJ)
        elif k == 'build':
            self.emit(e[1]); self.emit(e[2]); self.w(pickle.BUILD)
        elif k == 'persid':
            if self.p >= 1:
                self.str_(e[1]); self.w(pickle.BINPERSID)
            else:
                self.w(pickle.PERSID + e[1].encode() + b'\n')
        else:
            raise ValueError(k)

    def program(self, e):
        if self.p >= 2:
            self.w(pickle.PROTO + bytes([self.p]))
        self.emit(e)
        self.w(pickle.STOP)
        return self.out.getvalue()


# ---------------------------------------------------------------- objects -> ENC tokens, op tokens -> bytes

class NotEncodable(Exception):
    pass


def obj_tokens(obj, proto=4):
    """prefix tokens of an object for the model's ENC request (same reading as symb())"""
    t = type(obj)
    if obj is None:
        return ['N']
    if t is bool:
        return ['T' if obj else 'F']
    if t is int:
        return ['i%d' % obj]
    if t is float:
        return ['f' + enc_str(repr(obj))]
    if t is str:
        return ['s' + enc_str(obj)]
    if t is bytes:
        return ['b' + enc_bytes(obj)]
    if t in (list, tuple, set, frozenset):
        items = list(obj)
        if t in (set, frozenset):
            items = sorted(items, key=lambda x: symb(x, proto))
        out = [{list: 'L', tuple: 'U', set: 'S', frozenset: 'Z'}[t] + str(len(items))]
        for x in items:
            out += obj_tokens(x, proto)
        return out
    if t is dict:
        out = ['D%d' % len(obj)]
        for k, v in obj.items():
            out += obj_tokens(k, proto) + obj_tokens(v, proto)
        return out
    if obj is type(None):
        return ['NT']
    if isinstance(obj, type) or isinstance(obj, (types.FunctionType, types.BuiltinFunctionType)):
        return ['G' + enc_str(obj.__module__) + '/' + enc_str(obj.__qualname__)]
    rv = copyreg.dispatch_table.get(t)
    rv = rv(obj) if rv else obj.__reduce_ex__(proto)
    if isinstance(rv, str) or len(rv) > 3 and (rv[3] is not None or (len(rv) > 4 and rv[4] is not None)):
        raise NotEncodable(repr(t))
    func, args = rv[0], rv[1]
    state = rv[2] if len(rv) > 2 else None
    fname = getattr(func, '__name__', '')
    if fname == '__newobj__':
        r = ['O'] + obj_tokens(args[0], proto) + obj_tokens(tuple(args[1:]), proto)
    elif fname == '__newobj_ex__':
        raise NotEncodable(repr(t))
    else:
        r = ['C'] + obj_tokens(func, proto) + obj_tokens(tuple(args), proto)
    if state is not None:
        r = ['B'] + r + obj_tokens(state, proto)
    return r


def dec_str(t):
    if t == '_':
        return ''
    return ''.join(chr(int(x)) for x in t.split('.'))


def assemble_tokens(tokens):
    """canonical op tokens (the model pickler's vocabulary) -> pickle bytes"""
    out = io.BytesIO()
    w = out.write
    for t in tokens:
        name, _, arg = t.partition('=')
        if name == 'proto':
            w(pickle.PROTO + bytes([int(arg)]))
        elif name == 'frame':
            pass
        elif name == 'stop':
            w(pickle.STOP)
        elif name == 'none':
            w(pickle.NONE)
        elif name == 'newtrue':
            w(pickle.NEWTRUE)
        elif name == 'newfalse':
            w(pickle.NEWFALSE)
        elif name == 'int':
            i = int(arg)
            if 0 <= i < 256:
                w(pickle.BININT1 + bytes([i]))
            elif 0 <= i < 65536:
                w(pickle.BININT2 + struct.pack('<H', i))
            elif -2**31 <= i < 2**31:
                w(pickle.BININT + struct.pack('<i', i))
            else:
                enc = pickle.encode_long(i)
                w(pickle.LONG1 + bytes([len(enc)]) + enc) if len(enc) < 256 else w(pickle.LONG4 + struct.pack('<i', len(enc)) + enc)
        elif name == 'float':
            w(pickle.BINFLOAT + struct.pack('>d', float(dec_str(arg))))
        elif name == 'str':
            b = dec_str(arg).encode('utf-8', 'surrogatepass')
            w(pickle.SHORT_BINUNICODE + bytes([len(b)]) + b) if len(b) < 256 else w(pickle.BINUNICODE + struct.pack('<I', len(b)) + b)
        elif name == 'bytes':
            b = dec_str(arg).encode('latin-1')
            w(pickle.SHORT_BINBYTES + bytes([len(b)]) + b) if len(b) < 256 else w(pickle.BINBYTES + struct.pack('<I', len(b)) + b)
        else:
            simple = {'emptylist': pickle.EMPTY_LIST, 'emptytuple': pickle.EMPTY_TUPLE, 'emptydict': pickle.EMPTY_DICT,
                      'emptyset': pickle.EMPTY_SET, 'mark': pickle.MARK, 'append': pickle.APPEND, 'appends': pickle.APPENDS,
                      'setitem': pickle.SETITEM, 'setitems': pickle.SETITEMS, 'additems': pickle.ADDITEMS, 'tuple': pickle.TUPLE,
                      'tuple1': pickle.TUPLE1, 'tuple2': pickle.TUPLE2, 'tuple3': pickle.TUPLE3, 'frozenset': pickle.FROZENSET,
                      'memoize': pickle.MEMOIZE, 'stackglobal': pickle.STACK_GLOBAL, 'binpersid': pickle.BINPERSID,
                      'reduce': pickle.REDUCE, 'newobj': pickle.NEWOBJ, 'build': pickle.BUILD, 'list': pickle.LIST, 'dict': pickle.DICT}
            if name not in simple:
                raise ValueError('cannot assemble ' + t)
            w(simple[name])
    return out.getvalue()
