"""Ignore-order runs of the real DeepDiff with the pairing decisions observed (no source hook: the two
methods are wrapped in this process), and IODIFF requests for the model."""
import threading
from .wire import val_tokens, OutOfUniverse
from .pkl import enc_str
from .diffing import thr_frac, keys_modelled, set_items_modelled

_state = threading.local()


def _install():
    from deepdiff import DeepDiff
    if getattr(DeepDiff, '_verif_io_wrapped', False):
        return
    orig_iter = DeepDiff._diff_iterable_with_deephash
    orig_pairs = DeepDiff._get_most_in_common_pairs_in_iterables
    orig_dist = DeepDiff._get_rough_distance_of_hashed_objs

    def iter_w(self, level, *a, **k):
        st = getattr(_state, 'rec', None)
        if st is None or st['depth'] > 0:
            return orig_iter(self, level, *a, **k)
        st['paths'].append(level.path())
        try:
            return orig_iter(self, level, *a, **k)
        finally:
            st['paths'].pop()

    def pairs_w(self, hashes_added, hashes_removed, *a, **k):
        res = orig_pairs(self, hashes_added, hashes_removed, *a, **k)
        st = getattr(_state, 'rec', None)
        if st is not None and st['depth'] == 0 and st['paths']:
            added = set(hashes_added)
            for ha, hr in res.items():
                if ha in added:
                    st['pairs'].append((st['paths'][-1], ha, hr))
        return res

    def dist_w(self, *a, **k):
        st = getattr(_state, 'rec', None)
        if st is None:
            return orig_dist(self, *a, **k)
        st['depth'] += 1
        try:
            return orig_dist(self, *a, **k)
        finally:
            st['depth'] -= 1

    DeepDiff._diff_iterable_with_deephash = iter_w
    DeepDiff._get_most_in_common_pairs_in_iterables = pairs_w
    DeepDiff._get_rough_distance_of_hashed_objs = dist_w
    DeepDiff._verif_io_wrapped = True


def run_observed(t1, t2, **kw):
    """DeepDiff(t1, t2, ignore_order=True, **kw) and the (level path, added hash, removed hash) pairs it chose"""
    from deepdiff import DeepDiff
    _install()
    _state.rec = {'paths': [], 'pairs': [], 'depth': 0}
    try:
        dd = DeepDiff(t1, t2, ignore_order=True, **kw)
        return dd, list(_state.rec['pairs'])
    finally:
        _state.rec = None


def iodiff_line(t1, t2, pairs, rep=False, thr=0.33, ignore_private=True, verbose=2):
    if not (keys_modelled(t1) and keys_modelled(t2) and set_items_modelled(t1) and set_items_modelled(t2)):
        raise OutOfUniverse('dictionary keys / set members outside the path model (bytes and tuple keys, container members of sets)')
    n, d = thr_frac(thr)
    f = lambda b: 'T' if b else 'F'
    ptoks = []
    for (p, ha, hr) in pairs:
        ptoks += [enc_str(p), ha, hr]
    return 'IODIFF %s %d %d %s %d P %d %s %s %s' % (f(rep), n, d, f(ignore_private), verbose, len(pairs), ' '.join(ptoks),
                                                  ' '.join(val_tokens(t1, iter_sets=True)), ' '.join(val_tokens(t2, iter_sets=True)))
