"""Shared machinery for the /verif checks: lake build, axiom audit, driver, verdict, evidence."""
import os, sys, re, json, time, subprocess, fcntl, random, tempfile, hashlib, traceback

VERIF = os.path.dirname(os.path.dirname(os.path.abspath(__file__)))
LEAN = os.path.join(VERIF, 'lean')
REPO = os.environ.get('VERIF_REPO', '/repo')
DDMODEL = os.path.join(LEAN, '.lake', 'build', 'bin', 'ddmodel')
ALLOWED_AXIOMS = {'propext', 'Classical.choice', 'Quot.sound'}
FORBIDDEN = re.compile(r'\bsorry\b|\badmit\b|^\s*axiom\s|native_decide|bv_decide|implemented_by|\bunsafe\s|maxHeartbeats\s+0\b')

if REPO not in sys.path:
    sys.path.insert(0, REPO)


class ToolFailure(Exception):
    """The checking machinery itself failed (exit 2, never a VIOLATION)."""


def sh(cmd, cwd=None, timeout=3600, env=None, input=None):
    e = dict(os.environ)
    if env:
        e.update(env)
    p = subprocess.run(cmd, cwd=cwd, timeout=timeout, env=e, input=input,
                       stdout=subprocess.PIPE, stderr=subprocess.STDOUT, text=True)
    return p.returncode, p.stdout


class LakeLock:
    def __enter__(self):
        self.f = open(os.path.join(LEAN, '.lake.lock'), 'w')
        fcntl.flock(self.f, fcntl.LOCK_EX)
        return self

    def __exit__(self, *a):
        fcntl.flock(self.f, fcntl.LOCK_UN)
        self.f.close()


def lake_build(targets):
    """Build the given lake targets.  Returns (ok, log)."""
    with LakeLock():
        rc, out = sh(['lake', 'build'] + list(targets), cwd=LEAN, timeout=3000)
    return rc == 0, out


def strip_comments(src):
    # remove /- ... -/ (nested) and -- ... comments
    out = []
    i, depth, n = 0, 0, len(src)
    while i < n:
        if src.startswith('/-', i):
            depth += 1; i += 2; continue
        if depth and src.startswith('-/', i):
            depth -= 1; i += 2; continue
        if depth:
            if src[i] == '\n':
                out.append('\n')
            i += 1; continue
        if src.startswith('--', i):
            while i < n and src[i] != '\n':
                i += 1
            continue
        out.append(src[i]); i += 1
    return ''.join(out)


def source_audit():
    """grep the Lean sources (outside comments) for forbidden constructs."""
    hits = []
    for top in ('Model', 'Proofs', 'Properties', 'Driver'):
        for d, _, fs in os.walk(os.path.join(LEAN, top)):
            for f in fs:
                if not f.endswith('.lean'):
                    continue
                p = os.path.join(d, f)
                body = strip_comments(open(p, encoding='utf-8').read())
                for ln, line in enumerate(body.split('\n'), 1):
                    if FORBIDDEN.search(line):
                        hits.append('%s:%d: %s' % (os.path.relpath(p, LEAN), ln, line.strip()))
    return hits


def axiom_audit(pid, module, theorems):
    """#print axioms for every registered theorem.  Returns {thm: [axioms]} ; raises ToolFailure
    if a theorem is missing."""
    os.makedirs(os.path.join(LEAN, 'Audit'), exist_ok=True)
    path = os.path.join(LEAN, 'Audit', pid + '.lean')
    with open(path, 'w') as f:
        f.write('import %s\n' % module)
        for t in theorems:
            f.write('#print axioms %s\n' % t)
    with LakeLock():
        rc, out = sh(['lake', 'env', 'lean', path], cwd=LEAN, timeout=1800)
    res = {}
    for m in re.finditer(r"'([^']+)' depends on axioms: \[([^\]]*)\]", out):
        res[m.group(1)] = [a.strip() for a in m.group(2).replace('\n', ' ').split(',') if a.strip()]
    for m in re.finditer(r"'([^']+)' does not depend on any axioms", out):
        res[m.group(1)] = []
    missing = [t for t in theorems if t not in res]
    return res, missing, out


def run_model(lines, jobs=None):
    """Pipe request lines through the compiled driver; returns list of answer lines."""
    if not lines:
        return []
    if not os.path.exists(DDMODEL):
        raise ToolFailure('driver not built: ' + DDMODEL)
    jobs = jobs or min(16, max(1, len(lines) // 2000))
    chunks = [lines[i::jobs] for i in range(jobs)]
    procs = []
    for ch in chunks:
        p = subprocess.Popen([DDMODEL], stdin=subprocess.PIPE, stdout=subprocess.PIPE, text=True)
        procs.append(p)
    import threading
    outs = [None] * jobs

    def feed(i):
        o, _ = procs[i].communicate('\n'.join(chunks[i]) + '\n')
        outs[i] = o.split('\n')
        if outs[i] and outs[i][-1] == '':
            outs[i].pop()
    ths = [threading.Thread(target=feed, args=(i,)) for i in range(jobs)]
    [t.start() for t in ths]
    [t.join() for t in ths]
    res = [None] * len(lines)
    for j in range(jobs):
        if procs[j].returncode != 0 or len(outs[j]) != len(chunks[j]):
            raise ToolFailure('driver failed: rc=%s got %d answers for %d requests' %
                              (procs[j].returncode, len(outs[j]), len(chunks[j])))
        for k, o in enumerate(outs[j]):
            res[j + k * jobs] = o
    return res


def load_findings(pid):
    p = os.path.join(VERIF, 'known_findings.json')
    if not os.path.exists(p):
        return []
    return [f for f in json.load(open(p)) if pid in f.get('properties', [f.get('property')])]


class Ctx:
    """Per-run context handed to the property module."""

    def __init__(self, pid, tier, seed):
        self.pid, self.tier, self.seed = pid, tier, seed
        self.rng = random.Random(seed)
        self.t0 = time.time()
        self.evaluations = 0
        self.nontrivial = set()
        self.samples = []
        self.hist = {}
        self.divergences = []      # correspondence breaks: dicts with 'case', 'impl', 'model'
        self.violations = []       # property failures on the implementation: dicts with 'case', 'why'
        self.known_reproduced = []
        self.known_not_reproduced = []
        self.notes = []
        self.traces = 0
        self.build_ok = True
        self.build_log = ''
        self.extra = {}

    def thorough(self):
        return self.tier == 'thorough'

    def count(self, key, n=1):
        self.hist[key] = self.hist.get(key, 0) + n

    def nontriv(self, canon):
        self.nontrivial.add(hashlib.sha1(repr(canon).encode()).hexdigest()[:16])

    def sample(self, s, cap=6):
        if len(self.samples) < cap:
            self.samples.append(s)

    def diverge(self, case, impl, model, op=''):
        if len(self.divergences) < 50:
            self.divergences.append({'op': op, 'case': case, 'impl': impl, 'model': model})
        self.count('divergences')

    def violate(self, case, why):
        if len(self.violations) < 50:
            self.violations.append({'case': case, 'why': why})
        self.count('violations')


def write_replay(pid, kind, payload):
    d = os.path.join(VERIF, 'replays')
    os.makedirs(d, exist_ok=True)
    p = os.path.join(d, '%s_%s_%d.json' % (pid, kind, int(time.time() * 1000) % 10**9))
    with open(p, 'w') as f:
        json.dump(payload, f, indent=1, default=repr)
    return p


def write_evidence(pid, ctx, mod, obligations, discharged, violations, extra_cov=None):
    cov = {
        'obligations': len(obligations),
        'discharged': len(discharged),
        'obligation_names': obligations,
        'discharged_names': discharged,
        'checker_cmd': 'cd /verif/lean && lake build %s && lake env lean Audit/%s.lean  (#print axioms ⊆ {propext, Classical.choice, Quot.sound})' % (' '.join(mod.LEAN_TARGETS), pid),
        'trusted_base': getattr(mod, 'TRUSTED_BASE', []) + [
            'Lean 4.33.0 kernel', 'axioms allowed: propext, Classical.choice, Quot.sound (audited per theorem each run)',
            'correspondence harness /verif/harness (Python) and the compiled driver ddmodel (leanc)'],
        'evaluations': ctx.evaluations,
        'distinct_nontrivial': len(ctx.nontrivial),
        'rule': getattr(mod, 'RULE', ''),
        'samples': ctx.samples or ['(no cases run: build failed)'],
        'traces_validated_against_impl': ctx.traces,
        'histogram': ctx.hist,
        'correspondence_divergences': len(ctx.divergences),
        'known_findings_reproduced': ctx.known_reproduced,
        'known_findings_not_reproduced': ctx.known_not_reproduced,
        'notes': ctx.notes,
        'exhaustive': bool(ctx.extra.get('exhaustive', False)),
    }
    cov.update(ctx.extra)
    if extra_cov:
        cov.update(extra_cov)
    ev = {
        'property_id': pid, 'tier': ctx.tier, 'seed': ctx.seed, 'level': 'proof',
        'coverage': cov,
        'assumptions': getattr(mod, 'ASSUMPTIONS', []),
        'wall_s': round(time.time() - ctx.t0, 2),
        'violations': violations,
    }
    os.makedirs(os.path.join(VERIF, 'evidence'), exist_ok=True)
    with open(os.path.join(VERIF, 'evidence', pid + '.json'), 'w') as f:
        json.dump(ev, f, indent=1, default=repr)


def witnesses(ctx, pid, wit):
    """boundary witnesses: {finding id: function returning True when the property holds at the witness}. A listed open finding prints
    KNOWN-FINDING when it still fails; a failing witness that is not listed is a violation."""
    findings = {f['id']: f for f in load_findings(pid) if f.get('status') == 'open'}
    for fid, fn in wit.items():
        ctx.evaluations += 1
        try:
            ok = bool(fn())
        except Exception:
            ok = False
        if fid in findings:
            (ctx.known_not_reproduced if ok else ctx.known_reproduced).append(fid if ok else '%s: %s' % (fid, findings[fid]['what_fails']))
        elif not ok:
            ctx.violate({'witness': fid}, 'boundary witness %s fails and is not a listed finding' % fid)
