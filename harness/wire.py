"""Python value <-> model wire tokens (prefix form) for the PyVal universe."""
import decimal
from .pkl import enc_str, dec_str


class OutOfUniverse(Exception):
    pass


def float_tok(x):
    d = decimal.Decimal(repr(x))
    if not d.is_finite():
        raise OutOfUniverse(repr(x))
    sign, digits, exp = d.as_tuple()
    num = int(''.join(map(str, digits))) * (-1 if sign else 1)
    if exp >= 0:
        num *= 10 ** exp
        scale = 0
    else:
        scale = -exp
    while scale > 0 and num % 10 == 0:
        num //= 10; scale -= 1
    if 'e' in repr(x) or 'E' in repr(x):
        raise OutOfUniverse(repr(x))       # exponent reprs are outside the short-decimal model
    return 'f%d/%d' % (num, scale)


def val_tokens(v, iter_sets=False):
    """prefix tokens; set members in canonical order, or (iter_sets) in this process's iteration order - what an
    order-sensitive consumer (ordered-mode DeepHash, DeepSearch indexes) actually sees"""
    t = type(v)
    if v is None:
        return ['N']
    if t is bool:
        return ['T' if v else 'F']
    if t is int:
        return ['i%d' % v]
    if t is float:
        return [float_tok(v)]
    if t is str:
        return ['s' + enc_str(v)]
    if t is bytes:
        try:
            return ['b' + enc_str(v.decode('utf-8'))]
        except UnicodeDecodeError:
            raise OutOfUniverse(repr(v))
    if t in (list, tuple):
        out = [{list: 'L', tuple: 'U'}[t] + str(len(v))]
        for x in v:
            out += val_tokens(x, iter_sets)
        return out
    if t in (set, frozenset):
        out = [{set: 'S', frozenset: 'Z'}[t] + str(len(v))]
        members = [val_tokens(x, iter_sets) for x in v]
        for toks in (members if iter_sets else sorted(members, key=lambda ts: ' '.join(ts))):      # canonical member order
            out += toks
        return out
    if t is dict:
        out = ['D%d' % len(v)]
        for k, x in v.items():
            out += val_tokens(k, iter_sets) + val_tokens(x, iter_sets)
        return out
    raise OutOfUniverse(repr(t))


def parse_val(tokens, i=0):
    """inverse of val_tokens: returns (value, next index)"""
    t = tokens[i]
    if t == 'N':
        return None, i + 1
    if t == 'T':
        return True, i + 1
    if t == 'F':
        return False, i + 1
    h, body = t[0], t[1:]
    if h == 'i':
        return int(body), i + 1
    if h == 'f':
        n, s = body.split('/')
        return float(decimal.Decimal(int(n)).scaleb(-int(s))), i + 1
    if h == 's':
        return dec_str(body), i + 1
    if h == 'b':
        return dec_str(body).encode('utf-8'), i + 1
    n = int(body)
    i += 1
    if h == 'D':
        d = {}
        for _ in range(n):
            k, i = parse_val(tokens, i)
            v, i = parse_val(tokens, i)
            d[k] = v
        return d, i
    xs = []
    for _ in range(n):
        x, i = parse_val(tokens, i)
        xs.append(x)
    return {'L': list, 'U': tuple, 'S': set, 'Z': frozenset}[h](xs), i
