"""Shared by C01/C08: canonical rendering of a real Delta payload and of application outcomes,
DELTA requests for the model."""
import copy
from .wire import val_tokens, OutOfUniverse
from .diffing import thr_frac


def vs(v):
    return ','.join(val_tokens(v))


def path_tok(path):
    from deepdiff.path import _path_to_elements
    if path == 'root':
        return 'root'
    els = _path_to_elements(path, root_element=None)
    if not els:
        return 'root'
    out = []
    for e, a in els:
        if a != 'GET':
            raise OutOfUniverse('attribute path ' + path)
        out.append(vs(e))
    return '/'.join(out)


def tn(t):
    return t.__name__ if isinstance(t, type) else str(t)


def canon_delta(diff):
    es = []
    for cat, body in diff.items():
        if cat in ('values_changed', 'type_changes'):
            for p, d in body.items():
                f = []
                if cat == 'type_changes':
                    f += ['old_type=' + tn(d['old_type']), 'new_type=' + tn(d['new_type'])]
                if 'new_path' in d:
                    f.append('new_path=' + path_tok(d['new_path']))
                if 'old_value' in d:
                    f.append('old_value=' + vs(d['old_value']))
                if 'new_value' in d:
                    f.append('new_value=' + vs(d['new_value']))
                es.append('%s|%s|%s' % (cat, path_tok(p), ';'.join(f)))
        elif cat in ('dictionary_item_added', 'dictionary_item_removed', 'iterable_item_added', 'iterable_item_removed'):
            for p, v in body.items():
                es.append('%s|%s|%s' % (cat, path_tok(p), vs(v)))
        elif cat == 'iterable_item_moved':
            for p, d in body.items():
                es.append('%s|%s|%s;%s' % (cat, path_tok(p), path_tok(d['new_path']), vs(d['value'])))
        elif cat in ('set_item_added', 'set_item_removed'):
            for p, items in body.items():
                es.append('%s|%s|%s' % (cat, path_tok(p), '+'.join(sorted(vs(x) for x in items))))
        elif cat == '_iterable_opcodes':
            for p, ops in body.items():
                def ov(x):
                    return '-' if x is None else '+'.join(vs(y) for y in x)
                es.append('%s|%s|%s' % (cat, path_tok(p), ','.join(
                    '%s/%d/%d/%d/%d/old=%s/new=%s' % (o.tag, o.t1_from_index, o.t1_to_index, o.t2_from_index, o.t2_to_index, ov(o.old_values), ov(o.new_values))
                    for o in ops)))
        else:
            raise OutOfUniverse('delta category ' + cat)
    return '{}' if not es else ' '.join(sorted(es))


class LogCounter:
    """counts deepdiff.delta log records (errors tolerated with raise_errors=False)"""
    def __init__(self):
        import logging
        self.n = 0
        self.h = logging.Handler()
        self.h.emit = lambda rec: setattr(self, 'n', self.n + 1)
        self.logger = logging.getLogger('deepdiff.delta')

    def __enter__(self):
        import logging
        self.prev_disable = logging.root.manager.disable
        logging.disable(logging.NOTSET)
        self.logger.addHandler(self.h)
        self.prev_level = self.logger.level
        self.logger.setLevel(logging.DEBUG)
        self.prev_prop = self.logger.propagate
        self.logger.propagate = False
        return self

    def __exit__(self, *a):
        import logging
        self.logger.removeHandler(self.h)
        self.logger.setLevel(self.prev_level)
        self.logger.propagate = self.prev_prop
        logging.disable(self.prev_disable)


def apply_outcome(fn):
    """run an application; canonical '<value> errs=0|1' or 'RAISED:<Type>'"""
    with LogCounter() as lc:
        try:
            r = fn()
        except Exception as e:
            return 'RAISED:' + type(e).__name__, None
    try:
        return '%s errs=%d' % (vs(r), 1 if lc.n else 0), r
    except OutOfUniverse:
        return 'OUT errs=%d' % (1 if lc.n else 0), r


def delta_line(t1, t2, base, base2, bidir, always, zip_, thr):
    n, d = thr_frac(thr)
    return 'DELTA %s %s %s %d %d %s %s %s %s' % ('T' if bidir else 'F', 'T' if always else 'F', 'T' if zip_ else 'F', n, d,
                                                 ' '.join(val_tokens(t1)), ' '.join(val_tokens(t2)), ' '.join(val_tokens(base)), ' '.join(val_tokens(base2)))


def py_eq_t(a, b):
    """Python == plus the same container type at every position (the equality C01/C08 ask for); numpy arrays: same dtype, shape and content"""
    if type(a).__module__ == 'numpy' or type(b).__module__ == 'numpy':
        import numpy as np
        if isinstance(a, np.ndarray) or isinstance(b, np.ndarray):
            return (isinstance(a, np.ndarray) and isinstance(b, np.ndarray) and a.dtype == b.dtype and a.shape == b.shape and bool((a == b).all()))
    if isinstance(a, dict) or isinstance(b, dict):
        if not (isinstance(a, dict) and isinstance(b, dict)) or len(a) != len(b):
            return False
        for k, v in a.items():
            if k not in b or not py_eq_t(v, b[k]):
                return False
        return True
    for T in (list, tuple):
        if isinstance(a, T) or isinstance(b, T):
            return type(a) is type(b) and len(a) == len(b) and all(py_eq_t(x, y) for x, y in zip(a, b))
    for T in (set, frozenset):
        if isinstance(a, T) or isinstance(b, T):
            return type(a) is type(b) and a == b
    return a == b
