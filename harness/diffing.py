"""Shared by the diff-family properties: run the real DeepDiff, canonicalise its text view into the
model's entry format, build DIFF requests."""
import difflib
from fractions import Fraction
from .pkl import enc_str
from .wire import val_tokens, OutOfUniverse


def vtok(v):
    return 'v:' + ','.join(val_tokens(v))


def tname(t):
    return 't:' + (t.__name__ if isinstance(t, type) else str(t))


def ptok(p):
    return 'p:' + ('None' if p is None else enc_str(p))


def expected_udiff(old, new):
    def txt(x):
        return x.decode('utf-8') if isinstance(x, bytes) else x          # as it stands (a byte order mark is a character of the text)
    return '\n'.join(difflib.unified_diff(txt(old).splitlines(), txt(new).splitlines(), lineterm=''))


class BadDiffText(Exception):
    pass


def canon_text(res, verbose):
    """real text-view result -> sorted list of entry strings in the model's wire format"""
    out = []
    for cat, body in res.items():
        if cat == 'deep_distance':
            continue
        if cat == 'type_changes':
            for path, d in body.items():
                f = ['old_type=' + tname(d['old_type']), 'new_type=' + tname(d['new_type'])]
                if 'new_path' in d:
                    f.append('new_path=' + ptok(d['new_path']))
                if 'old_value' in d:
                    f += ['old_value=' + vtok(d['old_value']), 'new_value=' + vtok(d['new_value'])]
                out.append('%s|%s|%s' % (cat, enc_str(path), ';'.join(f)))
        elif cat == 'values_changed':
            for path, d in body.items():
                f = ['new_value=' + vtok(d['new_value']), 'old_value=' + vtok(d['old_value'])]
                if 'new_path' in d:
                    f.append('new_path=' + ptok(d['new_path']))
                if 'diff' in d:
                    if d['diff'] != expected_udiff(d['old_value'], d['new_value']):
                        raise BadDiffText('diff text at %s is not the unified diff of old and new value' % path)
                    f.append('diff=udiff')
                out.append('%s|%s|%s' % (cat, enc_str(path), ';'.join(f)))
        elif cat in ('dictionary_item_added', 'dictionary_item_removed'):
            if isinstance(body, dict):
                for path, v in body.items():
                    out.append('%s|%s|value=%s' % (cat, 'None' if path is None else enc_str(path), vtok(v)))
            else:
                for path in body:
                    out.append('%s|%s|' % (cat, 'None' if path is None else enc_str(path)))
        elif cat in ('iterable_item_added', 'iterable_item_removed'):
            for path, v in body.items():
                out.append('%s|%s|value=%s' % (cat, 'None' if path is None else enc_str(path), vtok(v)))
        elif cat == 'iterable_item_moved':
            for path, d in body.items():
                out.append('%s|%s|new_path=%s;value=%s' % (cat, enc_str(path), ptok(d['new_path']), vtok(d['value'])))
        elif cat in ('set_item_added', 'set_item_removed'):
            for s in body:
                out.append('%s|%s|' % (cat, enc_str(s)))
        elif cat == 'repetition_change':
            for path, d in body.items():
                out.append('%s|%s|old_indexes=x:%s;new_indexes=x:%s;value=%s' % (
                    cat, enc_str(path), ','.join(map(str, d['old_indexes'])), ','.join(map(str, d['new_indexes'])), vtok(d['value'])))
        else:
            raise OutOfUniverse('category ' + cat)
    return sorted(out)


def canon_ops(dd):
    ops = getattr(dd, '_iterable_opcodes', {}) or {}
    out = []
    for path, lst in ops.items():
        out.append(enc_str(path) + ':' + ','.join('%s/%d/%d/%d/%d' % (o.tag, o.t1_from_index, o.t1_to_index, o.t2_from_index, o.t2_to_index) for o in lst))
    return sorted(out)


def thr_frac(thr):
    f = Fraction(str(thr))
    return f.numerator, f.denominator


def diff_line(t1, t2, zip_=False, thr=0.33, ignore_private=True, verbose=1):
    n, d = thr_frac(thr)
    return 'DIFF %s %d %d %s %d %s %s' % ('T' if zip_ else 'F', n, d, 'T' if ignore_private else 'F', verbose,
                                          ' '.join(val_tokens(t1)), ' '.join(val_tokens(t2)))


def impl_text(t1, t2, zip_=False, thr=0.33, ignore_private=True, verbose=1, **kw):
    from deepdiff import DeepDiff
    dd = DeepDiff(t1, t2, zip_ordered_iterables=zip_, threshold_to_diff_deeper=thr, ignore_private_variables=ignore_private,
                  verbose_level=verbose, **kw)
    return dd


def impl_answer(dd, verbose):
    es = canon_text(dd, verbose)
    return ('{}' if not es else ' '.join(es)) + ' OPS ' + ' '.join(canon_ops(dd))


def set_items_modelled(v):
    """sets whose members the model's text view can spell (scalars other than bytes)"""
    if isinstance(v, (set, frozenset)):
        return all(x is None or isinstance(x, (bool, int, float, str)) for x in v)
    if isinstance(v, dict):
        return all(set_items_modelled(x) for x in v.values())
    if isinstance(v, (list, tuple)):
        return all(set_items_modelled(x) for x in v)
    return True


def keys_modelled(v):
    """dict keys the path model renders: str / int / float / None / bool"""
    if isinstance(v, dict):
        return all((k is None or isinstance(k, (bool, int, float, str))) and keys_modelled(x) for k, x in v.items())
    if isinstance(v, (list, tuple)):
        return all(keys_modelled(x) for x in v)
    return True
