"""Shared by C06/C07/C12: DeepHash observation, mode grid, reference equivalences, domain predicates."""
import itertools
from .wire import val_tokens

MODES = {          # name -> (ignore_repetition, ignore_iterable_order)
    'set': (True, True),            # default: nested-set equality
    'multiset': (False, True),      # nested-multiset
    'ordered': (False, False),      # ordered equality
    'ordered_norep': (True, False),
}


def cfg_tok(ignore_repetition=True, ignore_iterable_order=True, ignore_string_type_changes=False, ignore_string_case=False,
            ignore_numeric_type_changes=False, ignore_private_variables=True, apply_hash=True):
    return ''.join('T' if b else 'F' for b in (ignore_repetition, ignore_iterable_order, ignore_string_type_changes, ignore_string_case,
                                               ignore_numeric_type_changes, ignore_private_variables, apply_hash))


def deephash(v, **kw):
    from deepdiff import DeepHash
    d = DeepHash(v, **kw)
    return d[v], d.get(v, extract_index=1)


def hash_line(v, **kw):
    return 'HASH ' + cfg_tok(**kw) + ' ' + ' '.join(val_tokens(v, iter_sets=True))     # ordered-mode hashes follow the iteration order of sets


def numbers_in(v, acc=None):
    """all int/float leaves (not bools) at hashable positions and elsewhere"""
    acc = [] if acc is None else acc
    if isinstance(v, bool) or v is None:
        return acc
    if isinstance(v, (int, float)):
        acc.append(v)
    elif isinstance(v, dict):
        for k, x in v.items():
            numbers_in(k, acc); numbers_in(x, acc)
    elif isinstance(v, (list, tuple, set, frozenset)):
        for x in v:
            numbers_in(x, acc)
    return acc


def hashables_in(v, acc=None):
    """every hashable sub-value (the keys of DeepHash's memo table)"""
    acc = [] if acc is None else acc
    try:
        hash(v)
        if not isinstance(v, bool) and v is not None:
            acc.append(v)
    except TypeError:
        pass
    if isinstance(v, dict):
        for k, x in v.items():
            hashables_in(k, acc); hashables_in(x, acc)
    elif isinstance(v, (list, tuple, set, frozenset)):
        for x in v:
            hashables_in(x, acc)
    return acc


def strict_same(a, b):
    if type(a) is not type(b):
        return False
    if isinstance(a, (tuple,)):
        return len(a) == len(b) and all(strict_same(x, y) for x, y in zip(a, b))
    if isinstance(a, frozenset):
        return len(a) == len(b) and all(any(strict_same(x, y) for y in b) for x in a)
    if isinstance(a, (float, complex)) or type(a).__name__ == 'Decimal':
        return a == b and repr(a) == repr(b)            # 0.0 / -0.0, Decimal('2.5') / Decimal('2.50'): == and serialised differently
    return a == b


def no_num_alias(*values):
    """no two hashable sub-values that are == but not of the same type at every position
    (DeepHash's table is keyed by ==/hash, so such values share one entry)"""
    hs = []
    for v in values:
        hashables_in(v, hs)
    for i, a in enumerate(hs):
        for b in hs[i + 1:]:
            try:
                if a == b and not strict_same(a, b):
                    return False
            except Exception:
                pass
    return True


SPOOF_PREFIXES = ('int:', 'float:', 'bool:', 'list:', 'tuple:', 'set:', 'frozenset:', 'dict:', 'bytes:', 'str:', 'number:', 'datetime:', 'NONE',
                  'Decimal:', 'complex:')


def no_spoof(*values):
    """no str leaf that spells the serialisation of a non-str value"""
    def strs(v, acc):
        if isinstance(v, str):
            acc.append(v)
        elif isinstance(v, dict):
            for k, x in v.items():
                strs(k, acc); strs(x, acc)
        elif isinstance(v, (list, tuple, set, frozenset)):
            for x in v:
                strs(x, acc)
        return acc
    for v in values:
        for s in strs(v, []):
            if s == 'NONE' or any(s.startswith(p) for p in SPOOF_PREFIXES if p != 'NONE'):
                return False
    return True


# ---------------------------------------------------------------- reference equivalences (independent of deepdiff)

def canon(v, mode):
    """canonical form under the mode's equivalence; equal canon <=> equivalent"""
    if isinstance(v, bool):
        return ('bool', v)
    if v is None:
        return ('none',)
    if isinstance(v, int):
        return ('int', v)
    if isinstance(v, float):
        return ('float', repr(v))
    if isinstance(v, str):
        return ('str', v)
    if isinstance(v, bytes):
        return ('bytes', v)
    import decimal as _dc, datetime as _dtm, uuid as _uuid
    if isinstance(v, _dc.Decimal):
        return ('Decimal', str(v.as_tuple()) if v.is_finite() else str(v))          # exact: sign, digits, exponent
    if isinstance(v, complex):
        return ('complex', repr(v))
    if isinstance(v, (_dtm.datetime, _dtm.date, _dtm.time, _dtm.timedelta, _uuid.UUID)):
        return (type(v).__name__, repr(v))
    if isinstance(v, dict):
        return ('dict', tuple(sorted(((canon(k, mode), canon(x, mode)) for k, x in v.items()), key=repr)))
    kind = type(v).__name__
    items = [canon(x, mode) for x in v]
    if isinstance(v, (set, frozenset)) and mode in ('ordered', 'ordered_norep', 'ordered_f7'):
        # a set has no order: compare as a set even in ordered mode (the property's reading)
        return (kind, tuple(sorted(set(items), key=repr)))
    if mode == 'set':
        return (kind, tuple(sorted(set(items), key=repr)))
    if mode == 'multiset':
        return (kind, tuple(sorted(items, key=repr)))
    if mode == 'ordered':
        return (kind, tuple(items))
    if mode == 'ordered_f7':
        # what the ordered mode can still tell apart given finding F7: (item, count) in first-occurrence order
        seen, out = {}, []
        for it in items:
            if it not in seen:
                seen[it] = 0; out.append(it)
            seen[it] += 1
        return (kind, tuple((it, seen[it]) for it in out))
    if mode == 'ordered_norep':
        seen, out = set(), []
        for it in items:
            if it not in seen:
                seen.add(it); out.append(it)
        return (kind, tuple(out))
    raise ValueError(mode)


def has_repeats(v):
    if isinstance(v, dict):
        return any(has_repeats(k) or has_repeats(x) for k, x in v.items())
    if isinstance(v, (list, tuple)):
        items = [canon(x, 'ordered') for x in v]
        return len(set(items)) != len(items) or any(has_repeats(x) for x in v)
    if isinstance(v, (set, frozenset)):
        return any(has_repeats(x) for x in v)
    return False


def has_set(v):
    if isinstance(v, (set, frozenset)):
        return True
    if isinstance(v, dict):
        return any(has_set(k) or has_set(x) for k, x in v.items())
    if isinstance(v, (list, tuple)):
        return any(has_set(x) for x in v)
    return False
