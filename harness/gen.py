"""Type-directed generators of nested Python values and of edit scripts on them.
Everything is driven by one random.Random so a case replays from (seed, index)."""
import copy

SCALARS_BASIC = [None, True, False, 0, 1, 2, 3, -1, 10, 255, 1.5, 0.1, 2.25, 'a', 'b', 'ab', 'x y', '', 'c']
STR_KEYS = ['a', 'b', 'c', 'dd', 'k1', 'k2', 'x y', 'é']
MIXED_KEYS = STR_KEYS + [1, 2, 10, 1.5, None, True]


class Gen:
    def __init__(self, rng, scalars=None, keys=None, kinds=('dict', 'list', 'tuple', 'set', 'frozenset'),
                 max_depth=3, max_width=4, p_leaf=0.35, multiline=False, bytes_=False):
        self.rng = rng
        self.scalars = list(scalars if scalars is not None else SCALARS_BASIC)
        if multiline:
            self.scalars += ['p\nq', 'p\nq\nr', 'line1\nline2', 'p\nq\n', 'p\r\nq', 'p\rq', 'p\n\nq']
        if bytes_:
            self.scalars += [b'a', b'ab']
        self.keys = list(keys if keys is not None else STR_KEYS)
        self.kinds = list(kinds)
        self.max_depth, self.max_width, self.p_leaf = max_depth, max_width, p_leaf

    # ------------------------------------------------------------ values
    def scalar(self):
        return self.rng.choice(self.scalars)

    def hashable(self, depth=1):
        r = self.rng.random()
        if depth <= 0 or r < 0.75:
            s = self.scalar()
            return s
        if r < 0.9 and 'tuple' in self.kinds:
            return tuple(self.hashable(depth - 1) for _ in range(self.rng.randint(0, 2)))
        if 'frozenset' in self.kinds:
            return frozenset(self.dedupe([self.hashable(0) for _ in range(self.rng.randint(0, 2))]))
        return self.scalar()

    @staticmethod
    def dedupe(xs):
        out = []
        for x in xs:
            if not any(x == y for y in out):
                out.append(x)
        return out

    def value(self, depth=None):
        depth = self.max_depth if depth is None else depth
        if depth <= 0 or self.rng.random() < self.p_leaf:
            return self.scalar()
        k = self.rng.choice(self.kinds)
        w = self.rng.randint(0, self.max_width)
        if k == 'dict':
            ks = self.dedupe([self.rng.choice(self.keys) for _ in range(w)])
            return {key: self.value(depth - 1) for key in ks}
        if k == 'list':
            return [self.value(depth - 1) for _ in range(w)]
        if k == 'tuple':
            return tuple(self.value(depth - 1) for _ in range(w))
        if k == 'set':
            return set(self.dedupe([self.hashable(1) for _ in range(w)]))
        if k == 'frozenset':
            return frozenset(self.dedupe([self.hashable(1) for _ in range(w)]))
        raise ValueError(k)

    def container(self, depth=None):
        for _ in range(50):
            v = self.value(depth)
            if isinstance(v, (dict, list, tuple, set, frozenset)):
                return v
        return [self.scalar()]

    # ------------------------------------------------------------ edits
    def positions(self, v, path=()):
        """all positions (paths as tuples of keys/indexes) of sub-values inside dict/list/tuple"""
        out = [path]
        if isinstance(v, dict):
            for k, x in v.items():
                out += self.positions(x, path + (('k', k),))
        elif isinstance(v, (list, tuple)):
            for i, x in enumerate(v):
                out += self.positions(x, path + (('i', i),))
        return out

    def get(self, v, path):
        for kind, k in path:
            v = v[k]
        return v

    def rebuild(self, v, path, f):
        """functional update: return a copy of v with f applied at path (tuples rebuilt)"""
        if not path:
            return f(v)
        (kind, k), rest = path[0], path[1:]
        if isinstance(v, dict):
            d = dict(v)
            d[k] = self.rebuild(v[k], rest, f)
            return d
        if isinstance(v, list):
            l = list(v)
            l[k] = self.rebuild(v[k], rest, f)
            return l
        if isinstance(v, tuple):
            l = list(v)
            l[k] = self.rebuild(v[k], rest, f)
            return tuple(l)
        raise TypeError(v)

    def edit_at(self, x):
        """one local edit of sub-value x; returns the new sub-value"""
        r = self.rng
        if isinstance(x, dict):
            c = r.random()
            d = dict(x)
            if c < 0.35 or not d:
                k = r.choice(self.keys)
                d[k] = self.value(1)
                return d
            if c < 0.65:
                d.pop(r.choice(list(d.keys())))
                return d
            k = r.choice(list(d.keys()))
            d[k] = self.value(1)
            return d
        if isinstance(x, (list, tuple)):
            l = list(x)
            c = r.random()
            if c < 0.3 or not l:
                l.insert(r.randint(0, len(l)), self.value(1))
            elif c < 0.55:
                l.pop(r.randrange(len(l)))
            elif c < 0.7:
                l[r.randrange(len(l))] = self.value(1)
            elif c < 0.85 and len(l) > 1:
                i = r.randrange(len(l))
                it = l.pop(i)
                l.insert(r.randint(0, len(l)), it)
            else:
                i = r.randrange(len(l))
                l.insert(r.randint(0, len(l)), copy.deepcopy(l[i]))
            return l if isinstance(x, list) else tuple(l)
        if isinstance(x, (set, frozenset)):
            s = set(x)
            if s and r.random() < 0.5:
                s.discard(r.choice(list(s)))
            else:
                s.add(self.hashable(0))
            return s if isinstance(x, set) else frozenset(s)
        # a multi-line string: change only a line terminator
        if isinstance(x, str) and '\n' in x and r.random() < 0.5:
            return r.choice([x + '\n', x.replace('\n', '\r\n', 1), x.replace('\n', '\r', 1), x.replace('\n', '\n\n', 1), x.rstrip('\n') or x + 'z'])
        # scalar: replace, possibly retype
        for _ in range(10):
            y = self.value(1) if r.random() < 0.2 else self.scalar()
            if type(y) is not type(x) or y != x:
                return y
        return 'changed'

    def edit(self, v):
        v = copy.deepcopy(v)
        pos = self.positions(v)
        p = self.rng.choice(pos)
        return self.rebuild(v, p, self.edit_at)

    def edits(self, v, n):
        for _ in range(n):
            v = self.edit(v)
        return v

    def pair(self, max_edits=3):
        t1 = self.container()
        t2 = self.edits(t1, self.rng.randint(1, max_edits))
        return t1, t2


def shape(v):
    """small descriptor for histograms"""
    if isinstance(v, dict):
        return 'dict'
    return type(v).__name__


def depth(v):
    if isinstance(v, dict):
        return 1 + max([depth(x) for x in v.values()] + [0])
    if isinstance(v, (list, tuple, set, frozenset)):
        return 1 + max([depth(x) for x in v] + [0])
    return 0


def size(v):
    if isinstance(v, dict):
        return 1 + sum(size(x) for x in v.values())
    if isinstance(v, (list, tuple, set, frozenset)):
        return 1 + sum(size(x) for x in v)
    return 1


def strict_eq(a, b):
    """same type and same content at every position (a 'structural copy')"""
    if type(a) is not type(b):
        return False
    if isinstance(a, dict):
        if len(a) != len(b):
            return False
        for k, v in a.items():
            hit = [k2 for k2 in b if type(k2) is type(k) and k2 == k]
            if not hit or not strict_eq(v, b[hit[0]]):
                return False
        return True
    if isinstance(a, (list, tuple)):
        return len(a) == len(b) and all(strict_eq(x, y) for x, y in zip(a, b))
    if isinstance(a, (set, frozenset)):
        return len(a) == len(b) and all(any(strict_eq(x, y) for y in b) for x in a)
    return a == b
