#!/venv/bin/python
"""Entry point:  check.py <ID> [--tier quick|thorough] [--replay FILE]

exit 0  property held on everything explored (KNOWN-FINDING lines may be printed)
exit 1  VIOLATION property=<id> replay=<path> [no-failing-input-found]
exit 2  the machinery itself failed (timeouts, tool errors, audit failure) - never a VIOLATION
"""
import sys, os, json, argparse, importlib, time, traceback
sys.path.insert(0, os.path.dirname(os.path.abspath(__file__)))
from harness import core


def main():
    if 'PYTHONHASHSEED' not in os.environ:
        # set / dict-of-str iteration order feeds the generators: pin it so that a (VERIF_SEED, tier) run replays exactly
        os.environ['PYTHONHASHSEED'] = str(int(os.environ.get('VERIF_SEED', '0') or 0) % 4294967295)
        os.execv(sys.executable, [sys.executable] + sys.argv)
    import logging, warnings
    warnings.simplefilter('ignore')
    logging.disable(logging.CRITICAL)      # deepdiff logs every tolerated delta error; checks that need them re-enable logging locally
    ap = argparse.ArgumentParser()
    ap.add_argument('pid')
    ap.add_argument('--tier', default=os.environ.get('VERIF_TIER', 'quick'))
    ap.add_argument('--replay')
    ap.add_argument('--no-build', action='store_true')
    a = ap.parse_args()
    pid = a.pid
    tier = a.tier if a.tier in ('quick', 'thorough') else 'quick'
    seed = int(os.environ.get('VERIF_SEED', '0') or 0)
    mod = importlib.import_module('harness.props.' + pid)
    ctx = core.Ctx(pid, tier, seed)

    if a.replay:
        payload = json.load(open(a.replay))
        ok = mod.replay(ctx, payload)
        print('replay: property %s on %s' % ('HOLDS' if ok else 'FAILS', a.replay))
        return 0 if ok else 1

    broken = []          # names of proof obligations / correspondence ops that no longer check
    # 1. regenerate tables from /repo
    tables_changed = False
    try:
        from harness import tables
        tables_changed = tables.regenerate(ctx)
    except core.ToolFailure:
        raise
    except Exception as e:                       # extractor could not find what it expects
        broken.append('tables: ' + repr(e))
        ctx.notes.append('table extraction failed: ' + repr(e))
        tables_changed = True

    # 2. build
    obligations = list(mod.THEOREMS)
    discharged = []
    if not a.no_build:
        ok, log = core.lake_build(list(mod.LEAN_TARGETS) + ['ddmodel'])
        ctx.build_ok, ctx.build_log = ok, log
        if not ok:
            if not tables_changed:
                print(log[-4000:])
                print('TOOL-FAILURE: lake build failed although the generated tables are unchanged')
                return 2
            broken.append('lake build %s fails against regenerated Generated/Tables.lean' % ' '.join(mod.LEAN_TARGETS))
            ctx.notes.append(log[-3000:])
        else:
            # 3. audit
            hits = core.source_audit()
            if hits:
                print('\n'.join(hits))
                print('TOOL-FAILURE: forbidden construct in Lean sources')
                return 2
            res, missing, out = core.axiom_audit(pid, mod.LEAN_TARGETS[0], obligations)
            bad = {t: ax for t, ax in res.items() if not set(ax) <= core.ALLOWED_AXIOMS}
            if missing or bad:
                print(out[-3000:])
                print('TOOL-FAILURE: axiom audit: missing=%s bad=%s' % (missing, bad))
                return 2
            discharged = [t for t in obligations if t in res]
            ctx.extra['axioms'] = res
            if tier == 'thorough' and getattr(mod, 'LEANCHECKER', True):
                with core.LakeLock():
                    rc, out = core.sh(['lake', 'env', 'leanchecker'] + list(mod.LEAN_TARGETS), cwd=core.LEAN, timeout=3000)
                ctx.extra['leanchecker'] = {'rc': rc, 'tail': out[-300:]}
                if rc != 0:
                    print(out[-3000:])
                    print('TOOL-FAILURE: leanchecker rejected the compiled modules')
                    return 2

    # 4/5. correspondence + property predicate on the implementation + known findings
    mod.run(ctx)

    if ctx.divergences and os.environ.get('VERIF_DEBUG'):
        print('DEBUG divergences:', core.write_replay(pid, 'divergences', ctx.divergences))
    for f in ctx.known_reproduced:
        print('KNOWN-FINDING: property=%s %s' % (pid, f))

    rc = 0
    if ctx.violations:
        p = core.write_replay(pid, 'violation', {'property': pid, 'kind': 'failing-input', 'seed': seed, 'tier': tier,
                                                 'cases': ctx.violations[:10]})
        print('VIOLATION property=%s replay=%s' % (pid, p))
        rc = 1
    elif broken or ctx.divergences:
        # B: broken proof obligation or correspondence: search for a failing input
        names = broken + sorted(set('correspondence:' + d['op'] for d in ctx.divergences))
        found = []
        if hasattr(mod, 'search'):
            try:
                found = mod.search(ctx) or []
            except Exception as e:
                ctx.notes.append('search raised ' + repr(e))
        if found:
            p = core.write_replay(pid, 'violation', {'property': pid, 'kind': 'failing-input', 'seed': seed, 'tier': tier,
                                                     'broken': names, 'cases': found[:10]})
            print('VIOLATION property=%s replay=%s' % (pid, p))
        else:
            p = core.write_replay(pid, 'broken', {'property': pid, 'kind': 'no-failing-input-found', 'seed': seed, 'tier': tier,
                                                  'no_longer_checks': names,
                                                  'divergences': ctx.divergences[:10], 'notes': ctx.notes[-3:]})
            print('VIOLATION property=%s replay=%s no-failing-input-found' % (pid, p))
        rc = 1
    if not a.no_build:          # --no-build is a debugging aid: it discharges no theorem and must not overwrite the evidence record
        core.write_evidence(pid, ctx, mod, obligations, discharged, ctx.hist.get('violations', 0) + (1 if rc and not ctx.violations else 0))
    print('%s %s tier=%s seed=%d evaluations=%d nontrivial=%d theorems=%d/%d wall=%.1fs' % (
        pid, 'OK' if rc == 0 else 'FAIL', tier, seed, ctx.evaluations, len(ctx.nontrivial), len(discharged), len(obligations), time.time() - ctx.t0))
    return rc


if __name__ == '__main__':
    try:
        sys.exit(main())
    except core.ToolFailure as e:
        print('TOOL-FAILURE:', e)
        sys.exit(2)
    except Exception:
        traceback.print_exc()
        print('TOOL-FAILURE: unexpected exception in the checking machinery')
        sys.exit(2)
