#!/bin/bash
# import_round9.sh <PID> : import /tmp/wt9_<PID>/SEED/{1,2} as seeded/<PID>-17, <PID>-18
P=$1; WT=/tmp/wt9_$P
[ -d $WT/SEED ] || { echo "no SEED dir for $P"; exit 0; }
cd $WT && git checkout -q -- . 2>/dev/null
for n in 1 2; do
  if [ -d $WT/SEED/$n ] && [ ! -d $WT/SEED/$((n+16)) ]; then mv $WT/SEED/$n $WT/SEED/$((n+16)); fi
done
cd /verif
for m in 17 18; do
  [ -d $WT/SEED/$m ] && python3 tools/import_seed.py $WT $m $P 2>&1 | tail -2 | cut -c1-260
done
