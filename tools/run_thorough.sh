#!/bin/bash
# run_thorough.sh : every claimed check at the thorough tier, one after the other (leanchecker is memory hungry); one line per property
cd "$(dirname "$0")/.."
/venv/bin/python -m harness.tables >/dev/null && (cd lean && lake build >/dev/null 2>&1)
IDS=$(python3 -c "import json; print(' '.join(c['property_id'] for c in json.load(open('MANIFEST.json'))['checks']))")
for p in $IDS; do
  /usr/bin/time -f "%es %MKB" /venv/bin/python check.py $p --tier thorough > /tmp/thorough_$p.log 2>&1
  echo "$p exit=$? $(grep -E 'OK|FAIL|TOOL' /tmp/thorough_$p.log | tail -1) $(tail -1 /tmp/thorough_$p.log)"
done
