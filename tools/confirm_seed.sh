#!/bin/bash
# confirm_seed.sh <worktree> <n> : verify a seeded change in a scratch worktree:
#  tests with patch == baseline failing set, demo fails with patch, demo passes without.
WT=$1; N=$2
S=$WT/SEED/$N
cd $WT || exit 2
git checkout -q -- deepdiff
run_tests() { PYTHONPATH=$WT /venv/bin/python -m pytest -q -p no:cacheprovider --timeout=900 -rf tests 2>&1 | grep -E "^FAILED|passed|failed" | sed -e "s/ - .*//" -e "s/ in [0-9.]*s.*//" | sort; }
if [ ! -f /tmp/seed_baseline_fail.txt ]; then run_tests > /tmp/seed_baseline_fail.txt; fi
PYTHONPATH=$WT /venv/bin/python $S/demo.py > /tmp/demo_clean.out 2>&1; CLEAN=$?
git apply $S/patch.diff || { echo "PATCH DOES NOT APPLY"; exit 2; }
run_tests > /tmp/seed_patched_fail.txt
PYTHONPATH=$WT /venv/bin/python $S/demo.py > /tmp/demo_patched.out 2>&1; PATCHED=$?
git checkout -q -- deepdiff
if diff -q /tmp/seed_baseline_fail.txt /tmp/seed_patched_fail.txt >/dev/null; then T=same; else T=DIFFERENT; fi
echo "seed $WT/$N: tests=$T ($(grep -E 'passed' /tmp/seed_patched_fail.txt | tail -1)) demo_clean_exit=$CLEAN demo_patched_exit=$PATCHED"
tail -2 /tmp/demo_patched.out
