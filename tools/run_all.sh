#!/bin/bash
# run_all.sh [tier] : every claimed check once (sequentially building, then in parallel without rebuilding); prints one line per property
cd /verif
TIER=${1:-quick}
IDS=$(python3 -c "import json; print(' '.join(c['property_id'] for c in json.load(open('MANIFEST.json'))['checks']))")
(cd lean && lake build >/dev/null 2>&1)
for p in $IDS; do
  ( /venv/bin/python check.py $p --tier $TIER > /tmp/runall_$p.log 2>&1; echo "$p exit=$? $(tail -1 /tmp/runall_$p.log)" ) &
done
wait
