#!/bin/bash
# run_all.sh [tier] : every claimed check once (sequentially building, then in parallel without rebuilding); prints one line per property
cd /verif
TIER=${1:-quick}
IDS=$(python3 -c "import json; print(' '.join(c['property_id'] for c in json.load(open('MANIFEST.json'))['checks']))")
# the MANIFEST setup command: everything (Properties.lean imports every property file) must build together
if ! (cd /verif && /venv/bin/python -m harness.tables >/dev/null && cd lean && lake build >/tmp/runall_build.log 2>&1); then
  echo "SETUP exit=1 the full lake build fails:"; grep -E 'error' /tmp/runall_build.log | head -5
fi
for p in $IDS; do
  ( /venv/bin/python check.py $p --tier $TIER > /tmp/runall_$p.log 2>&1; echo "$p exit=$? $(tail -1 /tmp/runall_$p.log)" ) &
done
wait
