#!/usr/bin/env python3
"""rerun_seeds.py [ids...] : apply every seeded change to /repo in turn (git apply; undone with git checkout), run the
check(s) of its property, and refresh seeded/<id>/meta.json (checks_run, applies_to_current_tree)."""
import sys, os, json, subprocess, re, glob
os.chdir('/verif')
ids = sys.argv[1:] or sorted(os.path.basename(d) for d in glob.glob('seeded/*'))
assert subprocess.run(['git', '-C', '/repo', 'status', '--porcelain', '--untracked-files=no'], capture_output=True, text=True).stdout.strip() == '', '/repo has uncommitted changes'
summary = []
for sid in ids:
    d = 'seeded/' + sid
    meta = json.load(open(d + '/meta.json'))
    patch = os.path.abspath(d + '/patch.diff')
    ok = subprocess.run(['git', '-C', '/repo', 'apply', '--check', patch], capture_output=True).returncode == 0
    meta['applies_to_current_tree'] = ok
    if ok:
        for p in list(meta['checks_run'].keys()):
            r = subprocess.run(['tools/seedrun.sh', patch, p], capture_output=True, text=True).stdout
            m = re.search(r'exit=(\d+)', r)
            meta['checks_run'][p] = {'exit': int(m.group(1)) if m else -1, 'tail': [l for l in r.split('\n') if l][-3:]}
    json.dump(meta, open(d + '/meta.json', 'w'), indent=1)
    line = '%s applies=%s %s' % (sid, ok, {k: v['exit'] for k, v in meta['checks_run'].items()})
    print(line, flush=True); summary.append(line)
subprocess.run(['git', '-C', '/repo', 'checkout', '--', '.'])
