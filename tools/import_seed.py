#!/usr/bin/env python3
"""import_seed.py <worktree> <n> <PID> [other PIDs to also run...]
Confirms a sub-agent's seeded change in its scratch worktree (same test outcome as baseline, demo
fails with / passes without), runs the /verif check(s) against it on /repo (apply, run, undo), and
files it under /verif/seeded/<PID>-<n>/ with meta.json."""
import sys, os, subprocess, json, shutil, re
wt, n, pid = sys.argv[1], sys.argv[2], sys.argv[3]
others = sys.argv[4:]
src = os.path.join(wt, 'SEED', n)
out = subprocess.run(['/verif/tools/confirm_seed.sh', wt, n], capture_output=True, text=True).stdout
line = [l for l in out.split('\n') if l.startswith('seed ')]
print(line)
m = re.search(r'tests=(\w+).*demo_clean_exit=(\d+) demo_patched_exit=(\d+)', line[0]) if line else None
confirmed = bool(m and m.group(1) == 'same' and m.group(2) == '0' and m.group(3) != '0')
if not confirmed:
    print('NOT CONFIRMED - not imported'); sys.exit(1)
dst = '/verif/seeded/%s-%s' % (pid, n)
os.makedirs(dst, exist_ok=True)
for f in ('patch.diff', 'demo.py', 'notes.md'):
    if os.path.exists(os.path.join(src, f)):
        shutil.copy(os.path.join(src, f), dst)
results = {}
for p in [pid] + others:
    r = subprocess.run(['/verif/tools/seedrun.sh', os.path.join(dst, 'patch.diff'), p], capture_output=True, text=True).stdout
    results[p] = {'exit': int(re.search(r'exit=(\d+)', r).group(1)), 'tail': [l for l in r.split('\n') if l][-3:]}
    print(p, results[p])
notes = open(os.path.join(dst, 'notes.md')).read() if os.path.exists(os.path.join(dst, 'notes.md')) else ''
meta = {'property': pid, 'source': 'independent sub-agent given only the property text and a scratch worktree',
        'needs_to_manifest': notes[:1500],
        'confirmed': {'tests_same_as_baseline': True, 'demo_fails_with_patch': True, 'demo_passes_without': True,
                      'how': 'tools/confirm_seed.sh in the scratch worktree (pytest failing-set diff against pristine; demo.py exit codes)'},
        'checks_run': results}
json.dump(meta, open(os.path.join(dst, 'meta.json'), 'w'), indent=1)
