#!/bin/bash
# seedrun.sh <patch.diff> <ID> [tier] : apply a seeded change to /repo, run the check, undo.
P=$1; ID=$2; TIER=${3:-quick}
git -C /repo apply $P || exit 2
cd /verif && /venv/bin/python check.py $ID --tier $TIER 2>&1 | grep -v "WARNING" | tail -4
RC=${PIPESTATUS[0]}
git -C /repo checkout -- .
echo "exit=$RC"
