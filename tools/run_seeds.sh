#!/bin/bash
# run_seeds.sh <from> <to> [tier] : every check under several VERIF_SEED values; prints only lines that are not OK, then a summary
cd "$(dirname "$0")/.."
/venv/bin/python -m harness.tables >/dev/null
TIER=${3:-quick}
for s in $(seq $1 $2); do
  VERIF_SEED=$s tools/run_all.sh $TIER | grep -v " OK " | sed "s/^/seed=$s /"
  echo "seed $s done"
done
