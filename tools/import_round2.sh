#!/bin/bash
# import_round2.sh <PID> : import /tmp/wt2_<PID>/SEED/{1,2} as seeded/<PID>-3, <PID>-4
P=$1; WT=/tmp/wt2_$P
[ -d $WT/SEED ] || { echo "no SEED dir for $P"; exit 0; }
cd $WT && git checkout -q -- . 2>/dev/null
for n in 1 2; do
  if [ -d $WT/SEED/$n ] && [ ! -d $WT/SEED/$((n+2)) ]; then mv $WT/SEED/$n $WT/SEED/$((n+2)); fi
done
cd /verif
for m in 3 4; do
  [ -d $WT/SEED/$m ] && python3 tools/import_seed.py $WT $m $P 2>&1 | tail -2 | cut -c1-260
done
