#!/usr/bin/env python3
"""seed_table.py : rewrite the table of section 11.6 of DESIGN.md from seeded/*/meta.json (and notes.md for the one-line descriptions)."""
import json, glob, os, re
os.chdir(os.path.join(os.path.dirname(os.path.abspath(__file__)), '..'))
s = open('DESIGN.md').read()
i = s.index('| Seed | Change | quick check |')
j = s.index('"misses" in the last column')
old = {}
for m in re.finditer(r"^\| (C\d\d-\d) \| (.*?) \| (.*?) \|$", s[i:j], re.M):
    old[m.group(1)] = m.group(2)
rows = []
n_apply = n_det = 0
for d in sorted(glob.glob('seeded/*')):
    sid = os.path.basename(d)
    meta = json.load(open(d + '/meta.json'))
    if sid in old:
        desc = old[sid]
    else:
        notes = open(d + '/notes.md').read()
        h = re.search(r'^#+\s*(.*)$', notes, re.M)
        desc = h.group(1) if h else notes.split('\n')[0].replace('Change: ', '')
        desc = re.sub(r'^(\*\*)?(Seed|Change)?\s*(C\d\d)?\s*[/ ]*(seed)?\s*\d\s*[-:—]+\s*', '', desc, flags=re.I).strip().strip('*')
    n_apply += bool(meta.get('applies_to_current_tree', True))
    own = meta['checks_run'].get(meta['property'], {})
    n_det += own.get('exit') == 1
    res = ', '.join('%s %s' % (k, 'detects' if v.get('exit') == 1 else ('misses' if v.get('exit') == 0 else 'exit %s' % v.get('exit'))) for k, v in meta['checks_run'].items())
    rows.append('| %s | %s | %s |' % (sid, desc.replace('|', '\\|')[:170], res))
table = '| Seed | Change | quick check |\n|---|---|---|\n' + '\n'.join(rows) + '\n\n'
s = s[:i] + table + s[j:]
open('DESIGN.md', 'w').write(s)
print('%d seeds, %d apply, %d detected by their own check' % (len(rows), n_apply, n_det))
