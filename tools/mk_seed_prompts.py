#!/usr/bin/env python3
"""mk_seed_prompts.py <round> <outdir> : one prompt per property for a fresh sub-agent that is to produce two breaking changes.
The prompt carries the text of the property only (nothing from /verif) plus one line per change delivered in earlier rounds."""
import json, os, sys, glob, re
rnd, out = int(sys.argv[1]), sys.argv[2]
here = os.path.dirname(os.path.dirname(os.path.abspath(__file__)))
tmpl = open('/tmp/seedprompts5/C03.txt').read() if os.path.exists('/tmp/seedprompts5/C03.txt') else open(os.path.join(here, 'tools', 'seed_prompt_template.txt')).read()
head, tail = tmpl.split('The property the library is supposed to satisfy:')[0], tmpl.split('Your task:')[1]
task = 'Your task:' + tail.split('Additional guidance for this round:')[0]
extra = tail.split('Look at other files or mechanisms')[1]
for line in open(os.path.join(here, 'properties.jsonl')):
    p = json.loads(line)
    pid = p['id']
    wt = '/tmp/wt%d_%s' % (rnd, pid)
    prev = []
    for d in sorted(glob.glob(os.path.join(here, 'seeded', pid + '-*')), key=lambda s: int(s.rsplit('-', 1)[1])):
        try:
            first = [l for l in open(os.path.join(d, 'notes.md')).read().splitlines() if l.strip()][0]
        except Exception:
            continue
        prev.append(' - ' + re.sub(r'^#+\s*', '', first)[:230])
    txt = head.replace('/tmp/wt5_C03', wt)
    txt += 'The property the library is supposed to satisfy:\n\n  Title: %s\n  Statement: %s\n  Quantified over: %s\n  Relevant files: %s\n\n' % (
        p['title'], p['statement'], p['quantifier']['text'], ', '.join(p['anchors']['files']))
    txt += task.replace('/tmp/wt5_C03', wt)
    txt += ('Additional guidance for this round: %d earlier rounds already delivered the following changes for this property; deliver something DIFFERENT from '
            'all of them in mechanism and in the inputs needed:\n' % (rnd - 1)) + '\n'.join(prev) + '\nLook at other files or mechanisms' + extra.replace('/tmp/wt5_C03', wt)
    open(os.path.join(out, pid + '.txt'), 'w').write(txt)
print('written', out)
